// driver: output side of osmium::io
#include <osmium/io/any_output.hpp>
#include <osmium/io/debug_output.hpp>
#include <osmium/io/ids_output.hpp>
#include <osmium/io/output_iterator.hpp>
#include <osmium/io/detail/queue_util.hpp>
#include <osmium/io/header.hpp>
#include <osmium/io/overwrite.hpp>

template class osmium::io::OutputIterator<osmium::io::Writer>;

void verif_driver_io_write(const osmium::io::File& file, osmium::thread::Pool& pool, const osmium::io::Header& header,
                           const osmium::memory::Item& item, osmium::memory::Buffer& buffer) {
    osmium::io::Writer w1{file};
    osmium::io::Writer w2{"f", header, osmium::io::overwrite::allow, osmium::io::fsync::yes, pool};
    osmium::io::Writer w3{std::string{"f"}, header};
    w1(item);
    w1(std::move(buffer));
    w1.flush();
    (void)w1.close();
    w1.set_buffer_size(100);
    (void)w1.buffer_size();
    auto it = osmium::io::make_output_iterator(w2);
    *it = item;
}
