// driver: everything property C20 needs (handler dispatch, wrapped function objects, dynamic / chain handlers,
// item iterator, diff iterator).  Never executed or linked; only forces template instantiation.
#include <osmium/diff_handler.hpp>
#include <osmium/diff_iterator.hpp>
#include <osmium/diff_visitor.hpp>
#include <osmium/dynamic_handler.hpp>
#include <osmium/handler.hpp>
#include <osmium/handler/chain.hpp>
#include <osmium/io/input_iterator.hpp>
#include <osmium/memory/buffer.hpp>
#include <osmium/memory/collection.hpp>
#include <osmium/memory/item_iterator.hpp>
#include <osmium/object_pointer_collection.hpp>
#include <osmium/osm.hpp>
#include <osmium/osm/diff_object.hpp>
#include <osmium/visitor.hpp>

#include <vector>

namespace {

struct FullHandler : public osmium::handler::Handler {
    void osm_object(const osmium::OSMObject&) {}
    void node(const osmium::Node&) {}
    void way(const osmium::Way&) {}
    void relation(const osmium::Relation&) {}
    void area(const osmium::Area&) {}
    void changeset(const osmium::Changeset&) {}
    void tag_list(const osmium::TagList&) {}
    void way_node_list(const osmium::WayNodeList&) {}
    void relation_member_list(const osmium::RelationMemberList&) {}
    void outer_ring(const osmium::OuterRing&) {}
    void inner_ring(const osmium::InnerRing&) {}
    void changeset_discussion(const osmium::ChangesetDiscussion&) {}
    void flush() {}
};

struct MutHandler : public osmium::handler::Handler {
    void osm_object(osmium::OSMObject&) {}
    void node(osmium::Node&) {}
    void way(osmium::Way&) {}
    void relation(osmium::Relation&) {}
    void area(osmium::Area&) {}
    void changeset(osmium::Changeset&) {}
    void tag_list(osmium::TagList&) {}
    void way_node_list(osmium::WayNodeList&) {}
    void relation_member_list(osmium::RelationMemberList&) {}
    void outer_ring(osmium::OuterRing&) {}
    void inner_ring(osmium::InnerRing&) {}
    void changeset_discussion(osmium::ChangesetDiscussion&) {}
    void flush() {}
};

struct PlainHandler : public osmium::handler::Handler {
};

struct FullDiffHandler : public osmium::diff_handler::DiffHandler {
    void node(const osmium::DiffNode&) {}
    void way(const osmium::DiffWay&) {}
    void relation(const osmium::DiffRelation&) {}
};

// function objects to be wrapped by osmium::detail::wrapper_handler
struct ConstNodeFn { void operator()(const osmium::Node&) const {} };
struct MutWayFn { void operator()(osmium::Way&) const {} };
struct AllFn {
    void operator()(const osmium::Node&) const {}
    void operator()(const osmium::Way&) const {}
    void operator()(const osmium::Relation&) const {}
    void operator()(const osmium::Area&) const {}
    void operator()(const osmium::Changeset&) const {}
};

// visitor-style class for DynamicHandler (operator() instead of named callbacks)
struct VisitorStyle {
    void operator()(const osmium::Node&) {}
    void operator()(const osmium::Way&) {}
    void operator()(const osmium::Relation&) {}
    void operator()(const osmium::Area&) {}
    void operator()(const osmium::Changeset&) {}
};

struct FakeSource {
    osmium::memory::Buffer read() { return osmium::memory::Buffer{}; }
};

} // namespace

template struct osmium::detail::wrapper_handler<ConstNodeFn>;
template struct osmium::detail::wrapper_handler<MutWayFn>;
template struct osmium::detail::wrapper_handler<AllFn>;

template class osmium::handler::detail::HandlerWrapper<FullHandler>;
template class osmium::handler::detail::HandlerWrapper<VisitorStyle>;
template class osmium::handler::detail::HandlerWrapper<PlainHandler>;

template class osmium::handler::ChainHandler<FullHandler, MutHandler, PlainHandler>;
template class osmium::handler::ChainHandler<MutHandler>;

template class osmium::DiffIterator<osmium::memory::Buffer::t_iterator<osmium::OSMObject>>;
template class osmium::DiffIterator<osmium::memory::Buffer::t_const_iterator<osmium::OSMObject>>;
template class osmium::DiffObjectDerived<osmium::Node>;
template class osmium::DiffObjectDerived<osmium::Way>;
template class osmium::DiffObjectDerived<osmium::Relation>;

template class osmium::memory::ItemIterator<osmium::memory::Item>;
template class osmium::memory::ItemIterator<const osmium::memory::Item>;
template class osmium::memory::ItemIterator<osmium::OSMEntity>;
template class osmium::memory::ItemIterator<const osmium::OSMEntity>;
template class osmium::memory::ItemIterator<osmium::OSMObject>;
template class osmium::memory::ItemIterator<const osmium::OSMObject>;
template class osmium::memory::ItemIterator<osmium::Node>;
template class osmium::memory::ItemIterator<const osmium::Way>;
template class osmium::memory::ItemIterator<const osmium::TagList>;
template class osmium::memory::ItemIterator<const osmium::RelationMemberList>;
template class osmium::memory::ItemIterator<const osmium::OuterRing>;
template class osmium::memory::ItemIterator<const osmium::InnerRing>;

template class osmium::io::InputIterator<FakeSource, osmium::memory::Item>;
template class osmium::io::InputIterator<FakeSource, osmium::OSMObject>;

template class osmium::memory::CollectionIterator<osmium::RelationMember>;

void verif_driver_c20(osmium::memory::Buffer& buffer, const osmium::memory::Buffer& cbuffer,
                      osmium::memory::Item& item, const osmium::memory::Item& citem,
                      osmium::OSMEntity& entity, const osmium::OSMEntity& centity,
                      osmium::OSMObject& object, const osmium::OSMObject& cobject,
                      std::vector<osmium::memory::Item*>& /*unused*/) {
    FullHandler fh;
    MutHandler mh;
    PlainHandler ph;
    FullDiffHandler dh;
    osmium::handler::DynamicHandler dyn;
    dyn.set<FullHandler>();
    dyn.set<VisitorStyle>();

    // all five apply_item_impl overloads x const / non-const x several handler kinds
    osmium::apply_item(item, fh, mh, ph, dyn);
    osmium::apply_item(citem, fh, ph, dyn);
    osmium::apply_item(entity, fh, mh, ph);
    osmium::apply_item(centity, fh, ph);
    osmium::apply_item(object, fh, mh, ph);
    osmium::apply_item(cobject, fh, ph);

    // apply over containers / iterator ranges, 1..4 handlers
    osmium::apply(buffer, fh);
    osmium::apply(buffer, fh, mh);
    osmium::apply(buffer, fh, mh, ph, dyn);
    osmium::apply(cbuffer, fh, ph, dyn);
    osmium::apply(buffer.begin(), buffer.end(), fh, mh);
    osmium::apply(cbuffer.cbegin(), cbuffer.cend(), fh);
    osmium::apply(buffer.begin<osmium::memory::Item>(), buffer.end<osmium::memory::Item>(), fh, mh);
    osmium::apply(cbuffer.cbegin<osmium::OSMObject>(), cbuffer.cend<osmium::OSMObject>(), fh);

    // function objects and lambdas wrapped as handlers
    osmium::apply(buffer, ConstNodeFn{}, MutWayFn{}, AllFn{});
    osmium::apply(cbuffer, ConstNodeFn{}, AllFn{});
    osmium::apply(buffer, [](const osmium::Node&) {}, [](osmium::Way&) {}, fh);
    osmium::apply(cbuffer, [](const osmium::Relation&) {});
    osmium::apply(buffer.begin<osmium::memory::Item>(), buffer.end<osmium::memory::Item>(), [](osmium::Area&) {}, AllFn{});

    // chain handler used as a handler
    osmium::handler::ChainHandler<FullHandler, MutHandler, PlainHandler> chain{fh, mh, ph};
    osmium::apply(buffer, chain);

    // object pointer collection as container
    osmium::ObjectPointerCollection opc;
    osmium::apply(opc, fh, mh);

    // diff
    osmium::apply_diff(buffer.begin<osmium::OSMObject>(), buffer.end<osmium::OSMObject>(), dh);
    osmium::apply_diff(buffer.begin<osmium::OSMObject>(), buffer.end<osmium::OSMObject>(), dh, dh);
    osmium::apply_diff(cbuffer.cbegin<osmium::OSMObject>(), cbuffer.cend<osmium::OSMObject>(), dh, dh, dh);
    FakeSource src;
    osmium::apply_diff(src, dh, dh);
    auto range = osmium::make_diff_iterator(buffer.begin<osmium::OSMObject>(), buffer.end<osmium::OSMObject>());
    (void)range;
    auto irange = osmium::io::make_input_iterator_range<osmium::OSMObject>(src);
    (void)irange;

    // postfix / prefix increments of the collection iterators (const flavour cannot be instantiated explicitly)
    const osmium::TagList& tags = cobject.tags();
    auto tit = tags.begin();
    tit++;
    ++tit;
}
