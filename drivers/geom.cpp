// driver: geometry factories, projections, tiles
#include <osmium/geom/coordinates.hpp>
#include <osmium/geom/factory.hpp>
#include <osmium/geom/geojson.hpp>
#include <osmium/geom/haversine.hpp>
#include <osmium/geom/mercator_projection.hpp>
#include <osmium/geom/relations.hpp>
#include <osmium/geom/tile.hpp>
#include <osmium/geom/util.hpp>
#include <osmium/geom/wkb.hpp>
#include <osmium/geom/wkt.hpp>
#include <osmium/osm/area.hpp>
#include <osmium/osm/node.hpp>
#include <osmium/osm/way.hpp>
#include <osmium/osm/relation.hpp>
#include <osmium/util/double.hpp>

using osmium::geom::IdentityProjection;
using osmium::geom::MercatorProjection;

template class osmium::geom::GeometryFactory<osmium::geom::detail::WKBFactoryImpl, IdentityProjection>;
template class osmium::geom::GeometryFactory<osmium::geom::detail::WKBFactoryImpl, MercatorProjection>;
template class osmium::geom::GeometryFactory<osmium::geom::detail::WKTFactoryImpl, IdentityProjection>;
template class osmium::geom::GeometryFactory<osmium::geom::detail::WKTFactoryImpl, MercatorProjection>;
template class osmium::geom::GeometryFactory<osmium::geom::detail::GeoJSONFactoryImpl, IdentityProjection>;
template class osmium::geom::GeometryFactory<osmium::geom::detail::GeoJSONFactoryImpl, MercatorProjection>;

template <typename F>
void use_factory(F& f, const osmium::Node& node, const osmium::Way& way, const osmium::Area& area, const osmium::WayNodeList& wnl) {
    (void)f.create_point(node);
    (void)f.create_point(osmium::Location{});
    (void)f.create_point(osmium::NodeRef{});
    (void)f.create_linestring(way);
    (void)f.create_linestring(way, osmium::geom::use_nodes::all, osmium::geom::direction::backward);
    (void)f.create_linestring(wnl, osmium::geom::use_nodes::unique, osmium::geom::direction::forward);
    (void)f.create_polygon(way);
    (void)f.create_polygon(wnl, osmium::geom::use_nodes::all, osmium::geom::direction::backward);
    (void)f.create_multipolygon(area);
    f.linestring_start();
    (void)f.fill_linestring(wnl.begin(), wnl.end());
    (void)f.fill_linestring_unique(wnl.begin(), wnl.end());
    (void)f.linestring_finish(2);
    f.polygon_start();
    (void)f.fill_polygon(wnl.begin(), wnl.end());
    (void)f.fill_polygon_unique(wnl.begin(), wnl.end());
    (void)f.polygon_finish(4);
    (void)f.epsg();
    (void)f.proj_string();
}

void verif_driver_geom(const osmium::Node& node, const osmium::Way& way, const osmium::Area& area, const osmium::WayNodeList& wnl,
                       const osmium::Relation& relation) {
    osmium::geom::WKBFactory<> wkb{osmium::geom::wkb_type::ewkb, osmium::geom::out_type::hex};
    osmium::geom::WKBFactory<MercatorProjection> wkbm;
    osmium::geom::WKTFactory<> wkt{7, osmium::geom::wkt_type::ewkt};
    osmium::geom::WKTFactory<MercatorProjection> wktm;
    osmium::geom::GeoJSONFactory<> gj{7};
    osmium::geom::GeoJSONFactory<MercatorProjection> gjm;
    use_factory(wkb, node, way, area, wnl);
    use_factory(wkbm, node, way, area, wnl);
    use_factory(wkt, node, way, area, wnl);
    use_factory(wktm, node, way, area, wnl);
    use_factory(gj, node, way, area, wnl);
    use_factory(gjm, node, way, area, wnl);
    // constructors that take a projection object plus back-end settings (and the projection alone), for every back end
    osmium::geom::WKBFactory<MercatorProjection> wkbp{MercatorProjection{}, osmium::geom::wkb_type::ewkb, osmium::geom::out_type::hex};
    osmium::geom::WKBFactory<IdentityProjection> wkbpi{IdentityProjection{}, osmium::geom::wkb_type::ewkb};
    osmium::geom::WKTFactory<MercatorProjection> wktp{MercatorProjection{}, 3, osmium::geom::wkt_type::ewkt};
    osmium::geom::WKTFactory<IdentityProjection> wktpi{IdentityProjection{}, 3};
    osmium::geom::GeoJSONFactory<MercatorProjection> gjp{MercatorProjection{}, 3};
    osmium::geom::GeoJSONFactory<IdentityProjection> gjpi{IdentityProjection{}};
    osmium::geom::WKBFactory<MercatorProjection> wkbpo{MercatorProjection{}};
    osmium::geom::WKTFactory<MercatorProjection> wktpo{MercatorProjection{}};
    (void)wkbpo.epsg();
    (void)wktpo.epsg();
    (void)wkbp.epsg();
    (void)wkbpi.epsg();
    (void)wktp.epsg();
    (void)wktpi.epsg();
    (void)gjp.epsg();
    (void)gjpi.epsg();
    osmium::geom::Tile t1{10, osmium::Location{}};
    osmium::geom::Tile t2{10, osmium::geom::Coordinates{1.0, 2.0}};
    osmium::geom::Tile t3{10, 1, 2};
    (void)t1.valid();
    (void)(t1 == t2);
    (void)(t1 < t3);
    (void)osmium::geom::lonlat_to_mercator(osmium::geom::Coordinates{1.0, 2.0});
    (void)osmium::geom::mercator_to_lonlat(osmium::geom::Coordinates{1.0, 2.0});
    (void)osmium::geom::mercx_to_tilex(1, 1.0);
    (void)osmium::geom::mercy_to_tiley(1, 1.0);
    (void)osmium::geom::num_tiles_in_zoom(1);
    (void)osmium::geom::tile_extent_in_zoom(1);
    (void)osmium::geom::detail::lat_to_y_with_tan(1.0);
    (void)osmium::geom::detail::lat_to_y(1.0);
    (void)osmium::geom::detail::lon_to_x(1.0);
    (void)osmium::geom::detail::x_to_lon(1.0);
    (void)osmium::geom::detail::y_to_lat(1.0);
    (void)osmium::geom::haversine::distance(wnl);
    (void)osmium::geom::haversine::distance(osmium::geom::Coordinates{1.0, 2.0}, osmium::geom::Coordinates{1.0, 2.0});
    (void)osmium::geom::deg_to_rad(1.0);
    (void)osmium::geom::rad_to_deg(1.0);
    (void)osmium::geom::overlaps(osmium::Box{}, osmium::Box{});
    osmium::geom::Coordinates c{osmium::Location{}};
    std::string s;
    c.append_to_string(s, ',', 7);
    c.append_to_string(s, '(', ',', ')', 7);
    (void)c.valid();
    (void)osmium::geom::detail::convert_to_hex("x");
    osmium::geom::detail::str_push(s, 1.0);
}
