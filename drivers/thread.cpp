// driver: thread subsystem (never executed or linked; forces template instantiation)
#include <osmium/memory/buffer.hpp>
#include <osmium/thread/function_wrapper.hpp>
#include <osmium/thread/pool.hpp>
#include <osmium/thread/queue.hpp>
#include <osmium/thread/util.hpp>
#include <osmium/io/detail/queue_util.hpp>

#include <future>
#include <string>

template class osmium::thread::Queue<std::future<std::string>>;
template class osmium::thread::Queue<std::future<osmium::memory::Buffer>>;
template class osmium::thread::Queue<osmium::thread::function_wrapper>;
template class osmium::io::detail::queue_wrapper<std::string>;
template class osmium::io::detail::queue_wrapper<osmium::memory::Buffer>;

namespace {
struct functor { std::string operator()() { return {}; } };
struct bfunctor { osmium::memory::Buffer operator()() { return osmium::memory::Buffer{}; } };
}

void verif_driver_thread(osmium::thread::Pool& pool) {
    auto f1 = pool.submit(functor{});
    auto f2 = pool.submit(bfunctor{});
    osmium::thread::Pool p2{2, 10};
    (void)osmium::thread::Pool::default_instance();
    osmium::io::detail::future_string_queue_type q1{10, "a"};
    osmium::io::detail::future_buffer_queue_type q2{10, "b"};
    osmium::io::detail::add_to_queue(q1, std::string{});
    osmium::io::detail::add_to_queue(q2, osmium::memory::Buffer{});
    osmium::io::detail::add_to_queue(q1, std::exception_ptr{});
    osmium::io::detail::add_to_queue(q2, std::exception_ptr{});
    osmium::io::detail::add_end_of_data_to_queue(q1);
    osmium::io::detail::add_end_of_data_to_queue(q2);
    osmium::thread::check_for_exception(f1);
    osmium::thread::wait_until_done(f1);
}
