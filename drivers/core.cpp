// driver: memory, builder, osm, handler, visitor, diff
#include <osmium/builder/attr.hpp>
#include <osmium/builder/builder.hpp>
#include <osmium/builder/osm_object_builder.hpp>
#include <osmium/memory/buffer.hpp>
#include <osmium/memory/callback_buffer.hpp>
#include <osmium/memory/collection.hpp>
#include <osmium/memory/item.hpp>
#include <osmium/memory/item_iterator.hpp>
#include <osmium/osm.hpp>
#include <osmium/osm/crc.hpp>
#include <osmium/osm/crc_zlib.hpp>
#include <osmium/osm/diff_object.hpp>
#include <osmium/osm/object_comparisons.hpp>
#include <osmium/osm/types_from_string.hpp>
#include <osmium/object_pointer_collection.hpp>
#include <osmium/handler.hpp>
#include <osmium/handler/chain.hpp>
#include <osmium/handler/check_order.hpp>
#include <osmium/handler/dump.hpp>
#include <osmium/dynamic_handler.hpp>
#include <osmium/visitor.hpp>
#include <osmium/diff_handler.hpp>
#include <osmium/diff_iterator.hpp>
#include <osmium/diff_visitor.hpp>
#include <osmium/storage/item_stash.hpp>
#include <osmium/tags/taglist.hpp>
#include <osmium/tags/tags_filter.hpp>
#include <osmium/util/delta.hpp>
#include <osmium/util/misc.hpp>
#include <osmium/util/double.hpp>
#include <osmium/util/string.hpp>
#include <osmium/util/options.hpp>

#include <vector>

namespace {
struct FullHandler : public osmium::handler::Handler {
    void osm_object(const osmium::OSMObject&) {}
    void node(const osmium::Node&) {}
    void way(const osmium::Way&) {}
    void relation(const osmium::Relation&) {}
    void area(const osmium::Area&) {}
    void changeset(const osmium::Changeset&) {}
    void tag_list(const osmium::TagList&) {}
    void way_node_list(const osmium::WayNodeList&) {}
    void relation_member_list(const osmium::RelationMemberList&) {}
    void outer_ring(const osmium::OuterRing&) {}
    void inner_ring(const osmium::InnerRing&) {}
    void changeset_discussion(const osmium::ChangesetDiscussion&) {}
    void flush() {}
};
struct MutHandler : public osmium::handler::Handler {
    void osm_object(osmium::OSMObject&) {}
    void node(osmium::Node&) {}
    void way(osmium::Way&) {}
    void relation(osmium::Relation&) {}
    void area(osmium::Area&) {}
    void changeset(osmium::Changeset&) {}
};
struct FullDiffHandler : public osmium::diff_handler::DiffHandler {
    void node(const osmium::DiffNode&) {}
    void way(const osmium::DiffWay&) {}
    void relation(const osmium::DiffRelation&) {}
};
}

template class osmium::DiffIterator<osmium::memory::Buffer::t_iterator<osmium::OSMObject>>;
template class osmium::memory::ItemIterator<osmium::OSMObject>;
template class osmium::memory::ItemIterator<const osmium::OSMObject>;
template class osmium::memory::ItemIterator<const osmium::Node>;
template class osmium::memory::ItemIterator<const osmium::TagList>;
template class osmium::memory::ItemIterator<const osmium::OuterRing>;
template class osmium::memory::ItemIterator<const osmium::memory::Item>;
template class osmium::memory::CollectionIterator<osmium::RelationMember>;
template class osmium::memory::Collection<osmium::Tag, osmium::item_type::tag_list>;
template class osmium::memory::Collection<osmium::RelationMember, osmium::item_type::relation_member_list>;
template class osmium::memory::Collection<osmium::ChangesetComment, osmium::item_type::changeset_discussion>;
template class osmium::util::DeltaEncode<int64_t, int64_t>;
template class osmium::util::DeltaDecode<int64_t, int64_t>;
template class osmium::util::DeltaEncode<int32_t, int64_t>;
template class osmium::util::DeltaDecode<uint32_t, int64_t>;
template class osmium::handler::ChainHandler<FullHandler, MutHandler>;

void verif_driver_core(osmium::memory::Buffer& buffer, const osmium::memory::Buffer& cbuffer, const osmium::Way& way,
                       const osmium::Relation& relation, const osmium::Node& cnode) {
    using namespace osmium::builder::attr;
    FullHandler fh;
    MutHandler mh;
    FullDiffHandler dh;
    osmium::handler::CheckOrder co;
    osmium::handler::DynamicHandler dyn;
    dyn.set<FullHandler>();
    osmium::apply(buffer, fh, mh, co, dyn);
    osmium::apply(cbuffer, fh, co);
    osmium::apply(buffer.begin(), buffer.end(), fh);
    osmium::apply(cbuffer.cbegin(), cbuffer.cend(), fh);
    osmium::apply_item(*buffer.begin(), fh, mh);
    osmium::apply_item(*cbuffer.cbegin(), fh);
    osmium::apply_diff(buffer.begin<osmium::OSMObject>(), buffer.end<osmium::OSMObject>(), dh, dh);
    osmium::apply_diff(cbuffer.cbegin<osmium::OSMObject>(), cbuffer.cend<osmium::OSMObject>(), dh);
    osmium::handler::Dump dump{std::cout};
    osmium::apply(cbuffer, dump);

    {
        osmium::builder::NodeBuilder nb{buffer};
        nb.set_id(1).set_version(1).set_changeset(1).set_uid(1).set_timestamp(osmium::Timestamp{}).set_visible(true)
          .set_location(osmium::Location{}).set_user("u").set_user(std::string{"u"}).set_user("u", 1);
        nb.add_tags({{"a", "b"}});
        osmium::builder::TagListBuilder tlb{nb};
        tlb.add_tag("k", "v");
        tlb.add_tag("k", 1, "v", 1);
        tlb.add_tag(std::string{"k"}, std::string{"v"});
        tlb.add_tag(*cnode.tags().begin());
        tlb.add_tag(std::pair<const char*, const char*>{"a", "b"});
        tlb.add_tag(std::pair<const std::string&, const std::string&>{std::string{}, std::string{}});
    }
    {
        osmium::builder::WayBuilder wb{buffer};
        wb.add_node_refs({1, 2});
        osmium::builder::WayNodeListBuilder wnl{wb};
        wnl.add_node_ref(osmium::NodeRef{1});
        wnl.add_node_ref(1, osmium::Location{});
    }
    {
        osmium::builder::RelationBuilder rb{buffer};
        osmium::builder::RelationMemberListBuilder rml{rb};
        rml.add_member(osmium::item_type::node, 1, "role");
        rml.add_member(osmium::item_type::node, 1, "role", 4, &cnode);
        rml.add_member(osmium::item_type::node, 1, std::string{"role"});
    }
    {
        osmium::builder::ChangesetBuilder cb{buffer};
        cb.set_id(1).set_uid(1).set_created_at(osmium::Timestamp{}).set_closed_at(osmium::Timestamp{}).set_num_changes(1)
          .set_num_comments(1).set_bounds(osmium::Box{}).set_user("u");
        osmium::builder::ChangesetDiscussionBuilder cdb{cb};
        cdb.add_comment(osmium::Timestamp{}, 1, "user");
        cdb.add_comment_text("text");
        cdb.add_comment_text(std::string{"text"});
    }
    {
        osmium::builder::AreaBuilder ab{buffer};
        ab.initialize_from_object(way);
        ab.initialize_from_object(relation);
        osmium::builder::OuterRingBuilder orb{ab};
        osmium::builder::InnerRingBuilder irb{ab};
    }
    osmium::builder::add_node(buffer, _id(1), _version(1), _cid(1), _uid(1), _user("u"), _timestamp("2000-01-01T00:00:00Z"),
                              _location(1.0, 2.0), _tag("a", "b"), _tags({{"x", "y"}}), _deleted(false), _visible(true));
    osmium::builder::add_way(buffer, _id(1), _nodes({1, 2, 3}), _tag("a=b"), _t("a=b,c=d"));
    osmium::builder::add_relation(buffer, _id(1), _member(osmium::item_type::node, 1, "r"),
                                  _members({osmium::builder::attr::member_type{osmium::item_type::way, 2}}));
    osmium::builder::add_changeset(buffer, _cid(1), _created_at(osmium::Timestamp{}), _closed_at(osmium::Timestamp{}),
                                   _num_changes(1), _num_comments(1), _comment({osmium::Timestamp{}, 1, "u", "t"}));
    osmium::builder::add_area(buffer, _id(1), _outer_ring({{1, {0.0, 0.0}}}), _inner_ring({{1, {0.0, 0.0}}}));
    osmium::builder::add_way_node_list(buffer, _nodes({1, 2}));
    osmium::builder::add_tag_list(buffer, _tag("a", "b"));

    osmium::memory::CallbackBuffer cbuf;
    cbuf.set_callback([](osmium::memory::Buffer&&) {});
    cbuf.flush();
    (void)cbuf.read();
    cbuf.buffer().commit();
    cbuf.possibly_flush();

    buffer.purge_removed();
    struct cb_t { void moving_in_buffer(std::size_t, std::size_t) {} } cbt;
    buffer.purge_removed(&cbt);
    (void)buffer.get<osmium::Node>(0);
    (void)buffer.add_item(cnode);
    buffer.add_buffer(cbuffer);
    buffer.push_back(cnode);
    (void)buffer.select<osmium::Node>();
    (void)cbuffer.select<osmium::Way>();
    for (auto& n : buffer.select<osmium::OSMObject>()) { (void)n; }
    (void)buffer.reserve_space(8);
    buffer.grow(100);
    swap(buffer, buffer);
    (void)buffer.has_nested_buffers();
    (void)buffer.get_last_nested();

    osmium::ObjectPointerCollection opc;
    opc.sort(osmium::object_order_type_id_version{});
    opc.sort(osmium::object_order_type_id_reverse_version{});
    opc.sort(osmium::object_order_type_id_version_without_timestamp{});
    opc.unique(osmium::object_equal_type_id{});
    opc.unique(osmium::object_equal_type_id_version{});
    osmium::apply(opc, fh);
    osmium::apply(buffer, opc);
    (void)(cnode < cnode);
    (void)(cnode == cnode);
    (void)(cnode > cnode);
    (void)(cnode <= cnode);
    (void)(cnode >= cnode);
    (void)(cnode != cnode);
    (void)osmium::id_order{}(1, 2);

    osmium::ItemStash stash;
    auto handle = stash.add_item(cnode);
    (void)stash.get<osmium::Node>(handle);
    (void)stash.get_item(handle);
    stash.remove_item(handle);
    stash.garbage_collect();
    stash.clear();

    osmium::CRC<osmium::CRC_zlib> crc;
    crc.update(cnode);
    crc.update(way);
    crc.update(relation);

    using dit = osmium::DiffIterator<osmium::memory::Buffer::t_iterator<osmium::OSMObject>>;
    auto range = osmium::make_diff_iterator(buffer.begin<osmium::OSMObject>(), buffer.end<osmium::OSMObject>());
    (void)range;
    (void)osmium::string_to_object_id("1");
    (void)osmium::string_to_object_id("n1", osmium::osm_entity_bits::nwr);
    (void)osmium::string_to_object_id("n1", osmium::osm_entity_bits::nwr, osmium::item_type::node);
    (void)osmium::string_to_object_version("1");
    (void)osmium::string_to_changeset_id("1");
    (void)osmium::string_to_uid("1");
    (void)osmium::string_to_num_changes("1");
    (void)osmium::detail::str_to_int<std::size_t>("1");
    std::string out;
    osmium::double2string(out, 1.0, 7);
    osmium::double2string(std::back_inserter(out), 1.0, 7);
    (void)osmium::split_string("a,b", ',');
    osmium::Location l;
    l.as_string(std::back_inserter(out), ',');
    l.as_string_without_check(std::back_inserter(out), ',');
    osmium::detail::append_location_coordinate_to_string(std::back_inserter(out), 1);
    osmium::Timestamp ts{"2000-01-01T00:00:00Z"};
    (void)ts.to_iso();
    ts.to_iso_all();
    osmium::TagsFilter tf;
    (void)osmium::tags::match_any_of(cnode.tags(), tf);
}
