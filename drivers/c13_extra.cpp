// driver for C13: only the text-conversion headers (small TU: the mutant self-test re-extracts it 30+ times)
#include <osmium/osm/location.hpp>
#include <osmium/osm/timestamp.hpp>
#include <osmium/osm/types_from_string.hpp>
#include <osmium/util/misc.hpp>
#include <osmium/io/detail/opl_parser_functions.hpp>
#include <osmium/io/detail/output_format.hpp>

#include <cstddef>
#include <cstdint>
#include <iterator>
#include <string>

// every return type str_to_int is used with in the library (util/config.hpp, util/memory.hpp, pbf_output_format.hpp)
template int osmium::detail::str_to_int<int>(const char*);
template std::size_t osmium::detail::str_to_int<std::size_t>(const char*);
template int64_t osmium::detail::str_to_int<int64_t>(const char*);

// the coordinate formatter with the iterator types the writers use
template std::back_insert_iterator<std::string>
osmium::detail::append_location_coordinate_to_string<std::back_insert_iterator<std::string>>(std::back_insert_iterator<std::string>, int32_t);
template char* osmium::detail::append_location_coordinate_to_string<char*>(char*, int32_t);
template std::ostream_iterator<char>
osmium::detail::append_location_coordinate_to_string<std::ostream_iterator<char>>(std::ostream_iterator<char>, int32_t);

// Location::as_string with a real (pointer) output iterator and with an inserter
template char* osmium::Location::as_string<char*>(char*, const char) const;
template char* osmium::Location::as_string_without_check<char*>(char*, const char) const;
template std::back_insert_iterator<std::string>
osmium::Location::as_string<std::back_insert_iterator<std::string>>(std::back_insert_iterator<std::string>, const char) const;

// the id / attribute widths the OPL reader parses (object_id_type; changeset, version and user id types)
template int64_t osmium::io::detail::opl_parse_int<int64_t>(const char**);
template uint32_t osmium::io::detail::opl_parse_int<uint32_t>(const char**);

namespace {
[[maybe_unused]] void c13_use(const char* s) {
    osmium::Location l;
    l.set_lon(s);
    l.set_lat(s);
    l.set_lon_partial(&s);
    l.set_lat_partial(&s);
    (void)osmium::Timestamp{s};
    (void)osmium::Timestamp{s}.to_iso();
    (void)osmium::string_to_object_id(s);
    (void)osmium::string_to_object_version(s);
    (void)osmium::string_to_changeset_id(s);
    (void)osmium::string_to_uid(s);
}
} // namespace
