// driver: index maps, id sets, relations maps, node location handler, memory mapping
#include <osmium/index/map/all.hpp>
#include <osmium/index/multimap/all.hpp>
#include <osmium/index/id_set.hpp>
#include <osmium/index/nwr_array.hpp>
#include <osmium/index/relations_map.hpp>
#include <osmium/index/node_locations_map.hpp>
#include <osmium/handler/node_locations_for_ways.hpp>
#include <osmium/util/memory_mapping.hpp>
#include <osmium/util/file.hpp>
#include <osmium/osm/location.hpp>
#include <osmium/osm/types.hpp>

using id_t_ = osmium::unsigned_object_id_type;
using loc_t_ = osmium::Location;

template class osmium::index::map::VectorBasedDenseMap<std::vector<loc_t_>, id_t_, loc_t_>;
template class osmium::index::map::VectorBasedDenseMap<osmium::detail::mmap_vector_file<loc_t_>, id_t_, loc_t_>;
template class osmium::index::map::VectorBasedSparseMap<id_t_, loc_t_, osmium::index::map::StdVectorWrap>;
template class osmium::index::map::VectorBasedSparseMap<id_t_, loc_t_, osmium::detail::mmap_vector_file>;
template class osmium::index::map::SparseMemMap<id_t_, loc_t_>;
template class osmium::index::map::FlexMem<id_t_, loc_t_>;
template class osmium::index::map::Dummy<id_t_, loc_t_>;
template class osmium::detail::mmap_vector_base<loc_t_>;
template class osmium::detail::mmap_vector_anon<loc_t_>;
template class osmium::detail::mmap_vector_file<loc_t_>;
template class osmium::index::IdSetDense<uint32_t>;
template class osmium::index::IdSetDense<uint64_t>;
template class osmium::index::IdSetDenseIterator<uint32_t, osmium::index::detail::default_chunk_bits>;
template class osmium::index::IdSetDenseIterator<uint64_t, osmium::index::detail::default_chunk_bits>;
template class osmium::index::IdSetSmall<uint32_t>;
template class osmium::index::IdSetSmall<uint64_t>;
template class osmium::nwr_array<osmium::index::IdSetDense<uint64_t>>;
template class osmium::handler::NodeLocationsForWays<osmium::index::map::Map<id_t_, loc_t_>>;
template class osmium::handler::NodeLocationsForWays<osmium::index::map::FlexMem<id_t_, loc_t_>, osmium::index::map::SparseMemMap<id_t_, loc_t_>>;
template class osmium::TypedMemoryMapping<loc_t_>;
template class osmium::index::MapFactory<id_t_, loc_t_>;

template <typename M>
void use_map(M& m) {
    m.reserve(10);
    m.set(1, loc_t_{});
    (void)m.get(1);
    (void)m.get_noexcept(1);
    (void)m.size();
    (void)m.byte_size();
    (void)m.used_memory();
    m.clear();
    m.sort();
    m.dump_as_list(1);
    m.dump_as_array(1);
    (void)m.begin();
    (void)m.end();
    (void)m.cbegin();
    (void)m.cend();
}

void verif_driver_index(osmium::index::RelationsMapStash& stash, const osmium::Relation& relation) {
    stash.add(1, 2);
    stash.add_members(relation);
    (void)stash.empty();
    (void)stash.size();
    (void)stash.sizes();
    auto m2p = stash.build_member_to_parent_index();
    auto p2m = stash.build_parent_to_member_index();
    auto both = stash.build_indexes();
    m2p.for_each(1, [](osmium::unsigned_object_id_type) {});
    p2m.for_each(1, [](osmium::unsigned_object_id_type) {});
    (void)m2p.empty();
    (void)m2p.size();
    (void)both.member_to_parent();
    (void)both.parent_to_member();
    const auto& factory = osmium::index::MapFactory<id_t_, loc_t_>::instance();
    auto map = factory.create_map("sparse_mem_array");
    (void)factory.map_types();
    (void)factory.has_map_type("x");
    map->set(1, loc_t_{});
    (void)map->get(1);
    (void)map->get_noexcept(1);
    map->sort();
    map->dump_as_list(1);
    map->dump_as_array(1);
    osmium::MemoryMapping mm{100, osmium::MemoryMapping::mapping_mode::write_shared, 1, 0};
    mm.resize(200);
    mm.unmap();
    osmium::AnonymousMemoryMapping amm{100};
    (void)osmium::file_size(1);
    (void)osmium::file_size("x");
    osmium::resize_file(1, 1);
    (void)osmium::get_pagesize();
    (void)osmium::file_offset(1);
    osmium::index::map::DenseMmapArray<id_t_, loc_t_> dmm;
    osmium::index::map::SparseMmapArray<id_t_, loc_t_> smm;
    osmium::index::map::DenseMemArray<id_t_, loc_t_> dma;
    osmium::index::map::SparseMemArray<id_t_, loc_t_> sma;
    osmium::index::map::DenseFileArray<id_t_, loc_t_> dfa{1};
    osmium::index::map::SparseFileArray<id_t_, loc_t_> sfa{1};
    use_map(dmm);
    use_map(smm);
    use_map(dma);
    use_map(sma);
    use_map(dfa);
    use_map(sfa);
    osmium::index::IdSetDense<uint64_t> ids;
    osmium::index::IdSetDense<uint64_t> ids2{ids};
    ids2 = ids;
    swap(ids, ids2);
    (void)ids.check_and_set(1);
    ids.unset(1);
    for (auto id : ids) { (void)id; }
}
