// driver: input side of osmium::io
#include <osmium/io/any_input.hpp>
#include <osmium/io/input_iterator.hpp>
#include <osmium/io/reader_iterator.hpp>
#include <osmium/io/reader_with_progress_bar.hpp>
#include <osmium/io/detail/queue_util.hpp>
#include <osmium/osm/types_from_string.hpp>
#include <osmium/opl.hpp>
#include <osmium/visitor.hpp>
#include <osmium/handler.hpp>

template class osmium::io::InputIterator<osmium::io::Reader, osmium::memory::Item>;
template class osmium::io::InputIterator<osmium::io::Reader, osmium::OSMObject>;
template class osmium::io::InputIteratorRange<osmium::io::InputIterator<osmium::io::Reader, osmium::OSMObject>>;
template class osmium::io::detail::queue_wrapper<std::string>;
template class osmium::io::detail::queue_wrapper<osmium::memory::Buffer>;

void verif_driver_io_read(const osmium::io::File& file, osmium::thread::Pool& pool) {
    osmium::io::Reader r1{file};
    osmium::io::Reader r2{"f", osmium::osm_entity_bits::node, osmium::io::read_meta::no, pool, osmium::io::buffers_type::single};
    osmium::io::Reader r3{std::string{"f"}, osmium::osm_entity_bits::way};
    osmium::io::Header h = r1.header();
    while (osmium::memory::Buffer b = r1.read()) {
    }
    (void)r1.eof();
    (void)r1.file_size();
    (void)r1.offset();
    r1.close();
    osmium::handler::Handler handler;
    osmium::apply(r2, handler);
    osmium::memory::Buffer buffer{1024};
    osmium::opl_parse("n1", buffer);
    osmium::io::ReaderWithProgressBar rp{true, file};
    (void)rp.read();
    auto range = osmium::io::make_input_iterator_range<osmium::OSMObject>(r3);
    for (const auto& o : range) { (void)o; }
    (void)osmium::io::supported_pbf_compression_types();
}
