// driver (C15 only): IdSetDense with NON-default chunk sizes.
// drivers/index.cpp instantiates the default chunk size only; after template substitution a hard-coded default (2^22 bytes) and the
// template parameter are the same constant there.  These instantiations make every use of the chunk width visible to the tiling rules.
#include <osmium/index/id_set.hpp>

#include <cstdint>

template class osmium::index::IdSetDense<uint32_t, 6U>;
template class osmium::index::IdSetDenseIterator<uint32_t, 6U>;
template class osmium::index::IdSetDense<uint64_t, 10U>;
template class osmium::index::IdSetDenseIterator<uint64_t, 10U>;

void verif_driver_c15_extra() {
    osmium::index::IdSetDense<uint32_t, 6U> a;
    osmium::index::IdSetDense<uint32_t, 6U> b{a};
    b = a;
    swap(a, b);
    (void)a.check_and_set(1);
    a.unset(1);
    a.set(2);
    a.clear();
    for (auto id : a) { (void)id; }
    osmium::index::IdSetDense<uint64_t, 10U> c;
    osmium::index::IdSetDense<uint64_t, 10U> d{c};
    d = c;
    swap(c, d);
    (void)c.check_and_set(1);
    c.unset(1);
    for (auto id : c) { (void)id; }
}
