// driver: relations manager, members/relations database, area assembler, multipolygon manager
#include <osmium/area/assembler.hpp>
#include <osmium/area/assembler_legacy.hpp>
#include <osmium/area/geom_assembler.hpp>
#include <osmium/area/multipolygon_manager.hpp>
#include <osmium/area/multipolygon_manager_legacy.hpp>
#include <osmium/area/problem_reporter.hpp>
#include <osmium/area/problem_reporter_exception.hpp>
#include <osmium/area/problem_reporter_stream.hpp>
#include <osmium/relations/manager_util.hpp>
#include <osmium/relations/members_database.hpp>
#include <osmium/relations/relations_database.hpp>
#include <osmium/relations/relations_manager.hpp>
#include <osmium/storage/item_stash.hpp>
#include <osmium/memory/callback_buffer.hpp>
#include <osmium/handler/check_order.hpp>
#include <osmium/visitor.hpp>
#include <osmium/io/file.hpp>

namespace {
struct AllManager : public osmium::relations::RelationsManager<AllManager, true, true, true> {
    bool new_relation(const osmium::Relation&) noexcept { return true; }
    bool new_member(const osmium::Relation&, const osmium::RelationMember&, std::size_t) noexcept { return true; }
    void complete_relation(const osmium::Relation&) {}
};
struct WayManager : public osmium::relations::RelationsManager<WayManager, false, true, false, false> {
    void complete_relation(const osmium::Relation&) {}
};
}

template class osmium::relations::RelationsManager<AllManager, true, true, true>;
template class osmium::relations::RelationsManager<WayManager, false, true, false, false>;
template class osmium::relations::MembersDatabase<osmium::Node>;
template class osmium::relations::MembersDatabase<osmium::Way>;
template class osmium::relations::MembersDatabase<osmium::Relation>;
template class osmium::area::MultipolygonManager<osmium::area::Assembler>;
template class osmium::area::MultipolygonManager<osmium::area::AssemblerLegacy>;
template class osmium::area::MultipolygonManagerLegacy<osmium::area::AssemblerLegacy>;

void verif_driver_relarea(const osmium::io::File& file, osmium::memory::Buffer& buffer, const osmium::Way& way,
                          const osmium::Relation& relation, const std::vector<const osmium::Way*>& members) {
    AllManager am;
    WayManager wm;
    osmium::apply(buffer, am, wm);
    osmium::relations::read_relations(file, am, wm);
    am.prepare_for_lookup();
    (void)am.used_memory();
    am.for_each_incomplete_relation([](const osmium::relations::RelationHandle&) {});
    am.set_callback([](osmium::memory::Buffer&&) {});
    (void)am.read();
    (void)am.get_member_node(1);
    (void)am.get_member_way(1);
    (void)am.get_member_relation(1);
    (void)am.get_member_object(*relation.members().begin());
    auto h = am.handler([](osmium::memory::Buffer&&) {});
    osmium::apply(buffer, h);
    osmium::relations::print_used_memory(std::cout, am.used_memory());

    osmium::area::AssemblerConfig config;
    osmium::area::Assembler assembler{config};
    (void)assembler(way, buffer);
    (void)assembler(relation, members, buffer);
    (void)assembler.stats();
    osmium::area::GeomAssembler ga{config};
    (void)ga(way, buffer);
    (void)ga(relation, buffer, buffer);
    osmium::area::AssemblerLegacy al{config};
    (void)al(way, buffer);
    (void)al(relation, members, buffer);
    osmium::area::MultipolygonManager<osmium::area::Assembler> mpm{config};
    osmium::relations::read_relations(file, mpm);
    osmium::apply(buffer, mpm.handler([](osmium::memory::Buffer&&) {}));
    (void)mpm.stats();
    osmium::area::ProblemReporterStream prs{std::cerr};
    osmium::area::ProblemReporterException pre;

    osmium::ItemStash stash;
    osmium::relations::RelationsDatabase rdb{stash};
    auto rh = rdb.add(relation);
    (void)rdb.size();
    (void)rdb.count_relations();
    (void)rdb.used_memory();
    rdb.for_each_relation([](const osmium::relations::RelationHandle&) {});
    (void)rdb[0];
    rh.remove();
    rh.set_members(1);
    rh.increment_members();
    rh.decrement_members();
    (void)rh.has_all_members();
    osmium::relations::MembersDatabase<osmium::Way> mdb{stash, rdb};
    mdb.track(rh, 1, 0);
    mdb.prepare_for_lookup();
    (void)mdb.add(way, [](osmium::relations::RelationHandle&) {});
    (void)mdb.get(1);
    (void)mdb.get_object(1);
    mdb.remove(1, 1);
    (void)mdb.count();
    (void)mdb.size();
    (void)mdb.used_memory();
}
