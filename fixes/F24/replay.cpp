// F24: PBF writer: PrimitiveBlock::size() adds StringTable::size(), which is the NUMBER of
// entries, not their size in bytes. can_add() compares this estimate with 95% of the 32 MiB
// blob limit, so a block with (up to 8000) objects that have many distinct long strings gets
// a string table far above 32 MiB. The Writer emits the oversized blob without any error
// (NDEBUG; with assertions enabled SerializeBlob aborts) and the Reader rejects the file.
#include <osmium/builder/osm_object_builder.hpp>
#include <osmium/io/pbf_input.hpp>
#include <osmium/io/pbf_output.hpp>
#include <osmium/io/reader.hpp>
#include <osmium/io/writer.hpp>
#include <osmium/memory/buffer.hpp>
#include <osmium/osm.hpp>
#include <osmium/util/file.hpp>

#include <cstdio>
#include <cstring>
#include <iostream>
#include <string>

static const int num_objects = 8000;

// distinct string with 1000 bytes
static std::string long_string(char kind, int object, int n) {
    std::string s = std::string(1, kind) + std::to_string(object) + "_" + std::to_string(n) + "_";
    s.append(1000 - s.size(), 'x');
    return s;
}

static void write_file(const char* filename, const char* format, osmium::item_type type) {
    osmium::io::File file{filename, format};
    osmium::io::Writer writer{file, osmium::io::overwrite::allow};
    for (int i = 1; i <= num_objects; ++i) {
        osmium::memory::Buffer buffer{64UL * 1024UL, osmium::memory::Buffer::auto_grow::yes};
        if (type == osmium::item_type::node) {
            osmium::builder::NodeBuilder builder{buffer};
            builder.set_id(i).set_version(1).set_uid(1).set_location(osmium::Location{1.0, 2.0});
            builder.set_user(long_string('u', i, 0));
            osmium::builder::TagListBuilder tags{builder};
            for (int n = 0; n < 3; ++n) {
                tags.add_tag(long_string('k', i, n), long_string('v', i, n));
            }
        } else if (type == osmium::item_type::way) {
            osmium::builder::WayBuilder builder{buffer};
            builder.set_id(i).set_version(1);
            osmium::builder::TagListBuilder tags{builder};
            for (int n = 0; n < 3; ++n) {
                tags.add_tag(long_string('k', i, n), long_string('v', i, n));
            }
        } else {
            osmium::builder::RelationBuilder builder{buffer};
            builder.set_id(i).set_version(1);
            osmium::builder::RelationMemberListBuilder members{builder};
            for (int n = 0; n < 6; ++n) {
                members.add_member(osmium::item_type::node, n + 1, long_string('r', i, n));
            }
        }
        buffer.commit();
        writer(std::move(buffer));
    }
    writer.close(); // reports errors of the writer, if there are any
}

static int check(const char* what, const char* format, osmium::item_type type) {
    const char* filename = "f24-replay.osm.pbf";
    int result = 0;
    try {
        write_file(filename, format, type);
    } catch (const std::exception& e) {
        std::cerr << "FAIL: " << what << ": error when writing: " << e.what() << '\n';
        std::remove(filename);
        return 1;
    }
    std::cout << what << ": file with " << osmium::file_size(filename) << " bytes written without error\n";

    try {
        long count = 0;
        long sum_ids = 0;
        bool strings_ok = true;
        osmium::io::Reader reader{filename};
        while (osmium::memory::Buffer buffer = reader.read()) {
            for (const auto& object : buffer.select<osmium::OSMObject>()) {
                ++count;
                sum_ids += object.id();
                const int i = static_cast<int>(object.id());
                if (type == osmium::item_type::relation) {
                    int n = 0;
                    for (const auto& member : static_cast<const osmium::Relation&>(object).members()) {
                        strings_ok = strings_ok && long_string('r', i, n) == member.role();
                        ++n;
                    }
                    strings_ok = strings_ok && n == 6;
                } else {
                    strings_ok = strings_ok && object.tags().size() == 3 &&
                                 long_string('v', i, 2) == object.tags().get_value_by_key(long_string('k', i, 2).c_str(), "");
                }
                if (type == osmium::item_type::node) {
                    strings_ok = strings_ok && long_string('u', i, 0) == object.user();
                }
            }
        }
        reader.close();
        if (count != num_objects || sum_ids != static_cast<long>(num_objects) * (num_objects + 1) / 2 || !strings_ok) {
            std::cerr << "FAIL: " << what << ": read " << count << " objects, strings " << (strings_ok ? "ok" : "wrong") << '\n';
            result = 1;
        } else {
            std::cout << what << ": all " << count << " objects read back\n";
        }
    } catch (const std::exception& e) {
        std::cerr << "FAIL: " << what << ": file written by the Writer is rejected by the Reader: " << e.what() << '\n';
        result = 1;
    }
    std::remove(filename);
    return result;
}

int main() {
    int result = 0;
    result |= check("dense nodes", "pbf", osmium::item_type::node);
    result |= check("nodes", "pbf,pbf_dense_nodes=false", osmium::item_type::node);
    result |= check("ways, no compression", "pbf,pbf_compression=none", osmium::item_type::way);
    result |= check("relations", "pbf", osmium::item_type::relation);

    if (result) {
        return 1;
    }
    std::cout << "OK\n";
    return 0;
}
