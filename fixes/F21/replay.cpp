// F21: OSMObjectBuilder::set_user() / ChangesetBuilder::set_user(): the length of the user name
// is only checked with asserts and narrowed to the 16 bit string_size_type by the overloads.
// A user name of 65535 or more bytes (XML user="..." attribute, OPL u field) aborts with
// assertions enabled; with NDEBUG the 16 bit user size wraps (65535 + 1 == 0) and the object
// in the buffer is corrupt / longer names are silently cut to (length mod 65536) bytes.
#include <osmium/builder/osm_object_builder.hpp>
#include <osmium/io/opl_input.hpp>
#include <osmium/io/reader.hpp>
#include <osmium/io/xml_input.hpp>
#include <osmium/memory/buffer.hpp>
#include <osmium/osm/changeset.hpp>
#include <osmium/osm/node.hpp>

#include <cstring>
#include <iostream>
#include <stdexcept>
#include <string>

static int fails = 0;

// Read data, return length of user name of first object (node or changeset), -1 on length_error
static long read_user_length(const std::string& data, const char* format) {
    long length = -2;
    try {
        osmium::io::File file{data.data(), data.size(), format};
        osmium::io::Reader reader{file, osmium::osm_entity_bits::all};
        while (osmium::memory::Buffer buffer = reader.read()) {
            for (const auto& item : buffer) {
                if (length != -2) {
                    continue;
                }
                if (item.type() == osmium::item_type::node) {
                    const auto& node = static_cast<const osmium::Node&>(item);
                    length = static_cast<long>(std::strlen(node.user()));
                    // touch everything behind the user name
                    if (node.id() != 1 || node.tags().size() != 1 || std::strcmp(node.tags().begin()->key(), "k") != 0) {
                        std::cerr << "FAIL: node corrupt\n";
                        ++fails;
                    }
                } else if (item.type() == osmium::item_type::changeset) {
                    const auto& cs = static_cast<const osmium::Changeset&>(item);
                    length = static_cast<long>(std::strlen(cs.user()));
                    if (cs.id() != 1 || cs.tags().size() != 1 || std::strcmp(cs.tags().begin()->key(), "k") != 0) {
                        std::cerr << "FAIL: changeset corrupt\n";
                        ++fails;
                    }
                }
            }
        }
        reader.close();
    } catch (const std::length_error& e) {
        return -1;
    } catch (const osmium::io_error& e) { // the OPL parser wraps errors into opl_error
        if (std::strstr(e.what(), "too long")) {
            return -1;
        }
        throw;
    }
    return length;
}

static void check(const char* what, long result, long expected) {
    std::cout << what << ": " << (result == -1 ? std::string{"rejected (too long)"} : "user name with " + std::to_string(result) + " bytes") << '\n';
    if (result != expected) {
        std::cerr << "FAIL: " << what << ": expected " << (expected == -1 ? std::string{"rejection"} : std::to_string(expected)) << '\n';
        ++fails;
    }
}

static std::string xml_node(std::size_t user_length) {
    return "<?xml version='1.0' encoding='UTF-8'?>\n<osm version='0.6'>\n"
           "<node id='1' version='1' timestamp='2020-01-01T00:00:00Z' uid='1' user='" + std::string(user_length, 'u') +
           "' changeset='1' lat='1' lon='2'><tag k='k' v='v'/></node>\n</osm>\n";
}

static std::string xml_changeset(std::size_t user_length) {
    return "<?xml version='1.0' encoding='UTF-8'?>\n<osm version='0.6'>\n"
           "<changeset id='1' created_at='2020-01-01T00:00:00Z' open='false' uid='1' user='" + std::string(user_length, 'u') +
           "'><tag k='k' v='v'/></changeset>\n</osm>\n";
}

static std::string opl_node(std::size_t user_length) {
    return "n1 v1 dV c1 t2020-01-01T00:00:00Z i1 u" + std::string(user_length, 'u') + " Tk=v x2 y1\n";
}

template <typename TBuilder>
static long builder_user_length(const std::string& user, int variant) {
    osmium::memory::Buffer buffer{1024UL * 1024UL};
    try {
        TBuilder builder{buffer};
        switch (variant) {
            case 0: builder.set_user(user); break;
            case 1: builder.set_user(user.c_str()); break;
            default: builder.set_user(user.data(), user.size()); break;
        }
        return static_cast<long>(std::strlen(builder.object().user()));
    } catch (const std::length_error&) {
        return -1;
    }
}

int main() {
    // regular and maximum length
    check("XML node, user with 255 bytes", read_user_length(xml_node(255), "osm"), 255);
    check("XML node, user with 1024 bytes", read_user_length(xml_node(1024), "osm"), 1024);
    check("XML changeset, user with 1024 bytes", read_user_length(xml_changeset(1024), "osm"), 1024);
    check("OPL node, user with 1024 bytes", read_user_length(opl_node(1024), "opl"), 1024);
    for (int variant = 0; variant < 3; ++variant) {
        check("NodeBuilder, user with 1024 bytes", builder_user_length<osmium::builder::NodeBuilder>(std::string(1024, 'u'), variant), 1024);
        check("ChangesetBuilder, user with 1024 bytes", builder_user_length<osmium::builder::ChangesetBuilder>(std::string(1024, 'u'), variant), 1024);
    }

    // too long: silently cut to length mod 65536 with NDEBUG
    for (int variant = 0; variant < 3; ++variant) {
        check("NodeBuilder, user with 1025 bytes", builder_user_length<osmium::builder::NodeBuilder>(std::string(1025, 'u'), variant), -1);
        check("NodeBuilder, user with 65539 bytes", builder_user_length<osmium::builder::NodeBuilder>(std::string(65539, 'u'), variant), -1);
        check("ChangesetBuilder, user with 65539 bytes", builder_user_length<osmium::builder::ChangesetBuilder>(std::string(65539, 'u'), variant), -1);
    }
    check("XML node, user with 70000 bytes", read_user_length(xml_node(70000), "osm"), -1);
    check("OPL node, user with 70000 bytes", read_user_length(opl_node(70000), "opl"), -1);
    check("XML changeset, user with 70000 bytes", read_user_length(xml_changeset(70000), "osm"), -1);

    // too long: user size wraps to 0
    check("OPL node, user with 65535 bytes", read_user_length(opl_node(65535), "opl"), -1);
    check("XML changeset, user with 65535 bytes", read_user_length(xml_changeset(65535), "osm"), -1);
    check("XML node, user with 65535 bytes", read_user_length(xml_node(65535), "osm"), -1);

    if (fails) {
        return 1;
    }
    std::cout << "OK\n";
    return 0;
}
