// F28 replay: a RelationsMapIndex that holds only 32-bit ids truncates the looked-up id to 32 bits:
// looking up 2^32+1 reports the parents recorded for id 1.
#include <osmium/index/relations_map.hpp>
#include <cstdint>
#include <cstdio>
#include <vector>

template <typename TIndex>
static int probe(const TIndex& index, const char* what) {
    int bad = 0;
    for (const uint64_t id : {(1ULL << 32U) + 1ULL, (1ULL << 32U) + 2ULL, (1ULL << 40U) + 1ULL}) {
        std::vector<uint64_t> got;
        index.for_each(id, [&](osmium::unsigned_object_id_type v) { got.push_back(v); });
        if (!got.empty()) {
            std::printf("%s: lookup of %llu (never recorded) returns %zu pair(s), first value %llu\n", what,
                        static_cast<unsigned long long>(id), got.size(), static_cast<unsigned long long>(got[0]));
            ++bad;
        }
    }
    std::vector<uint64_t> got;
    index.for_each(1, [&](osmium::unsigned_object_id_type v) { got.push_back(v); });
    if (got.size() != 1) { std::printf("%s: lookup of 1 returns %zu pairs\n", what, got.size()); ++bad; }
    return bad;
}

int main() {
    int bad = 0;
    {
        osmium::index::RelationsMapStash stash;
        stash.add(1, 2);      // member 1 is in parent 2
        stash.add(2, 3);
        const auto index = stash.build_member_to_parent_index();
        bad += probe(index, "member_to_parent");
    }
    {
        osmium::index::RelationsMapStash stash;
        stash.add(2, 1);
        stash.add(3, 2);
        const auto index = stash.build_parent_to_member_index();
        bad += probe(index, "parent_to_member");
    }
    std::printf(bad ? "FAIL\n" : "OK\n");
    return bad ? 1 : 0;
}
