// F11: Bzip2Decompressor::read(): an EMPTY bzip2 stream (the 14 bytes of `bzip2 -c /dev/null`)
// followed by further streams makes read() return an empty string, which the read
// thread takes as end of data: the rest of the file is silently ignored.
#include <osmium/io/bzip2_compression.hpp>
#include <osmium/io/opl_input.hpp>
#include <osmium/io/reader.hpp>
#include <osmium/memory/buffer.hpp>

#include <bzlib.h>

#include <cstdio>
#include <fstream>
#include <iostream>
#include <string>

static std::string bz(const std::string& in) {
    std::string out(in.size() + in.size() / 50 + 700, '\0');
    unsigned int len = static_cast<unsigned int>(out.size());
    if (BZ2_bzBuffToBuffCompress(&out[0], &len, const_cast<char*>(in.data()), static_cast<unsigned int>(in.size()), 9, 0, 0) != BZ_OK) {
        std::cerr << "compress failed\n";
        std::exit(2);
    }
    out.resize(len);
    return out;
}

static long count_objects(const char* filename) {
    long count = 0;
    osmium::io::Reader reader{filename};
    while (osmium::memory::Buffer buffer = reader.read()) {
        for (auto it = buffer.begin(); it != buffer.end(); ++it) {
            ++count;
        }
    }
    reader.close();
    return count;
}

static int check(const char* what, const std::string& content, long expected) {
    const char* filename = "f11-replay.opl.bz2";
    {
        std::ofstream out{filename, std::ios::binary};
        out << content;
    }
    const long n = count_objects(filename);
    std::remove(filename);
    std::cout << what << ": " << n << " objects\n";
    if (n != expected) {
        std::cerr << "FAIL: " << what << ": expected " << expected << " objects, got " << n << '\n';
        return 1;
    }
    return 0;
}

int main() {
    std::string lines;
    for (int i = 1; i < 40000; ++i) {
        lines += "n" + std::to_string(i) + " v1 dV c1 t i1 u T x" + std::to_string(i % 90) + "." + std::to_string(i * 7919LL % 10007) + " y2\n";
    }
    const std::string empty = bz("");
    const std::string data = bz(lines);
    std::cout << "empty stream: " << empty.size() << " bytes, data stream: " << data.size() << " bytes\n";

    int result = 0;
    result |= check("data", data, 39999);
    result |= check("empty", empty, 0);
    result |= check("empty + data", empty + data, 39999);
    result |= check("data + empty + data", data + empty + data, 2 * 39999);
    result |= check("empty + empty + data + empty", empty + empty + data + empty, 39999);

    if (result) {
        return 1;
    }
    std::cout << "OK\n";
    return 0;
}
