// F17: OutputBlock::output_int(int64_t value) does `value = -value` for negative values,
// which overflows for INT64_MIN (UB): "-(" is written instead of "-9223372036854775808".
// Reachable through the OPL (and debug) writer with an object id of INT64_MIN.
#include <osmium/builder/osm_object_builder.hpp>
#include <osmium/io/detail/output_format.hpp>
#include <osmium/io/opl_input.hpp>
#include <osmium/io/opl_output.hpp>
#include <osmium/io/reader.hpp>
#include <osmium/io/writer.hpp>
#include <osmium/memory/buffer.hpp>
#include <osmium/osm/node.hpp>

#include <cstdint>
#include <cstdio>
#include <fstream>
#include <iostream>
#include <limits>
#include <string>

class TestBlock : public osmium::io::detail::OutputBlock {
public:
    TestBlock() : OutputBlock(osmium::memory::Buffer{}) {
    }
    std::string format(int64_t value) {
        m_out->clear();
        output_int(value);
        return *m_out;
    }
};

static int fails = 0;

static void check(int64_t value) {
    TestBlock block;
    const std::string result = block.format(value);
    if (result != std::to_string(value)) {
        std::cerr << "FAIL: output_int(" << value << ") gives '" << result << "'\n";
        ++fails;
    }
}

int main() {
    const int64_t min = std::numeric_limits<int64_t>::min();
    const int64_t max = std::numeric_limits<int64_t>::max();
    for (const int64_t value : {int64_t(0), int64_t(1), int64_t(-1), int64_t(9), int64_t(10), int64_t(-10), int64_t(1234567890123LL),
                                int64_t(-1234567890123LL), max, max - 1, -max, min + 1, min}) {
        check(value);
    }

    // end to end: write a node with id INT64_MIN to an OPL file and read it back
    const char* filename = "f17-replay.osm.opl";
    {
        osmium::memory::Buffer buffer{1024};
        {
            osmium::builder::NodeBuilder builder{buffer};
            builder.set_id(min).set_version(1).set_location(osmium::Location{1.0, 2.0});
        }
        buffer.commit();
        osmium::io::Writer writer{filename, osmium::io::overwrite::allow};
        writer(std::move(buffer));
        writer.close();
    }
    std::string line;
    {
        std::ifstream in{filename};
        std::getline(in, line);
    }
    std::cout << "OPL line: " << line << '\n';
    try {
        int nodes = 0;
        osmium::io::Reader reader{filename};
        while (osmium::memory::Buffer buffer = reader.read()) {
            for (const auto& node : buffer.select<osmium::Node>()) {
                if (node.id() == min) {
                    ++nodes;
                }
            }
        }
        reader.close();
        if (nodes != 1) {
            std::cerr << "FAIL: node with id INT64_MIN not found when reading file back\n";
            ++fails;
        }
    } catch (const std::exception& e) {
        std::cerr << "FAIL: reading the file back: " << e.what() << '\n';
        ++fails;
    }
    std::remove(filename);

    if (fails) {
        return 1;
    }
    std::cout << "OK\n";
    return 0;
}
