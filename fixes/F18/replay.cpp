// F18: Timestamp(const char*) / detail::parse_timestamp(): the parsed time_t is cast to the
// uint32_t used in the Timestamp class without a range check: "2106-02-07T06:28:16Z" becomes 0
// (1970-01-01T00:00:00Z) and "1969-12-31T23:59:59Z" becomes 2106-02-07T06:28:15Z instead of
// throwing std::invalid_argument.
#include <osmium/builder/osm_object_builder.hpp>
#include <osmium/memory/buffer.hpp>
#include <osmium/osm/node.hpp>
#include <osmium/osm/timestamp.hpp>

#include <iostream>
#include <stdexcept>
#include <string>

static int fails = 0;

static void expect_valid(const char* str, uint32_t seconds) {
    try {
        const osmium::Timestamp ts{str};
        if (ts.seconds_since_epoch() != seconds || (seconds != 0 && ts.to_iso() != std::string{str}.substr(0, 19) + "Z")) {
            std::cerr << "FAIL: '" << str << "' gives " << ts.seconds_since_epoch() << " (" << ts.to_iso_all() << ")\n";
            ++fails;
        }
    } catch (const std::invalid_argument& e) {
        std::cerr << "FAIL: '" << str << "' rejected: " << e.what() << '\n';
        ++fails;
    }
}

static void expect_invalid(const char* str) {
    try {
        const osmium::Timestamp ts{str};
        std::cerr << "FAIL: '" << str << "' accepted as " << ts.seconds_since_epoch() << " (" << ts.to_iso_all() << ")\n";
        ++fails;
    } catch (const std::invalid_argument&) {
    }

    // same through OSMObject::set_timestamp(const char*)
    osmium::memory::Buffer buffer{1024};
    try {
        osmium::builder::NodeBuilder builder{buffer};
        builder.set_timestamp(str);
        std::cerr << "FAIL: set_timestamp('" << str << "') accepted as " << builder.object().timestamp().to_iso_all() << "\n";
        ++fails;
    } catch (const std::invalid_argument&) {
    }
}

int main() {
    expect_valid("1970-01-01T00:00:00Z", 0);
    expect_valid("1970-01-01T00:00:01Z", 1);
    expect_valid("2016-03-31T23:59:59Z", 1459468799);
    expect_valid("2016-03-31T23:59:59.123Z", 1459468799);
    expect_valid("2038-01-19T03:14:07Z", 2147483647);
    expect_valid("2038-01-19T03:14:08Z", 2147483648U);
    expect_valid("2106-02-07T06:28:14Z", 4294967294U);
    expect_valid("2106-02-07T06:28:15Z", 4294967295U);

    expect_invalid("2106-02-07T06:28:16Z");
    expect_invalid("2106-02-08T00:00:00Z");
    expect_invalid("2242-03-16T12:56:32Z"); // 2^33
    expect_invalid("9999-12-31T23:59:59Z");
    expect_invalid("1969-12-31T23:59:59Z");
    expect_invalid("1900-01-01T00:00:00Z");
    expect_invalid("1833-11-24T17:31:44Z");
    expect_invalid("2016-13-01T00:00:00Z");

    if (fails) {
        return 1;
    }
    std::cout << "OK\n";
    return 0;
}
