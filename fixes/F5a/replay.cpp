// F5a: Bzip2Decompressor::read(): at BZ_STREAM_END with feof() already true the unused
// read-ahead bytes (the next bzip2 stream) are dropped. Two small concatenated bzip2
// streams in a file (`cat a.bz2 b.bz2`) yield only the data of the first stream.
#include <osmium/io/bzip2_compression.hpp>
#include <osmium/io/opl_input.hpp>
#include <osmium/io/reader.hpp>
#include <osmium/memory/buffer.hpp>
#include <osmium/osm/node.hpp>

#include <bzlib.h>

#include <cstdio>
#include <fstream>
#include <iostream>
#include <string>

static std::string bz(const std::string& in) {
    std::string out(in.size() * 2 + 600, '\0');
    unsigned int len = static_cast<unsigned int>(out.size());
    if (BZ2_bzBuffToBuffCompress(&out[0], &len, const_cast<char*>(in.data()), static_cast<unsigned int>(in.size()), 9, 0, 0) != BZ_OK) {
        std::cerr << "compress failed\n";
        std::exit(2);
    }
    out.resize(len);
    return out;
}

static int count_nodes(const char* filename, osmium::object_id_type& sum) {
    int nodes = 0;
    osmium::io::Reader reader{filename};
    while (osmium::memory::Buffer buffer = reader.read()) {
        for (const auto& node : buffer.select<osmium::Node>()) {
            ++nodes;
            sum += node.id();
        }
    }
    reader.close();
    return nodes;
}

int main() {
    const char* filename = "f5a-replay.opl.bz2";
    const std::string a = "n1 v1 dV c1 t i1 u T x1 y1\n";
    const std::string b = "n2 v1 dV c1 t i1 u T x2 y2\n";
    {
        std::ofstream out{filename, std::ios::binary};
        out << bz(a) << bz(b); // same as `cat a.bz2 b.bz2`
    }

    osmium::object_id_type sum = 0;
    const int nodes = count_nodes(filename, sum);
    std::remove(filename);
    if (nodes != 2 || sum != 3) {
        std::cerr << "FAIL: expected 2 nodes (ids 1 and 2), got " << nodes << " (sum of ids " << sum << ")\n";
        return 1;
    }

    // three streams, the middle one larger than the bzip2 read-ahead buffer (5000 bytes)
    std::string big;
    for (int i = 10; i < 3010; ++i) {
        big += "n" + std::to_string(i) + " v1 dV c1 t i1 u T x" + std::to_string(i % 90) + "." + std::to_string(i * 7919 % 10007) + " y2\n";
    }
    {
        std::ofstream out{filename, std::ios::binary};
        out << bz(a) << bz(big) << bz(b);
    }
    sum = 0;
    const int nodes3 = count_nodes(filename, sum);
    std::remove(filename);
    if (nodes3 != 3002) {
        std::cerr << "FAIL: expected 3002 nodes, got " << nodes3 << '\n';
        return 1;
    }

    std::cout << "OK\n";
    return 0;
}
