// F3: XML changeset <comment> without <text> (or with two <text>): the parser calls
// ChangesetDiscussionBuilder::add_comment() without exactly one add_comment_text().
// Debug build: assertion in the builder. NDEBUG build: the delivered changeset has an
// unpadded comment with text_size == 0, iterating over the discussion runs off.
#include <osmium/io/xml_input.hpp>
#include <osmium/io/reader.hpp>
#include <osmium/memory/buffer.hpp>
#include <osmium/osm/changeset.hpp>

#include <cstring>
#include <iostream>
#include <string>
#include <vector>

static int check(const std::string& data, const std::vector<std::pair<std::string, std::string>>& expected) {
    osmium::io::File file{data.data(), data.size(), "osm"};
    osmium::io::Reader reader{file, osmium::osm_entity_bits::changeset};
    std::size_t n = 0;
    int changesets = 0;
    while (osmium::memory::Buffer buffer = reader.read()) {
        for (const auto& cs : buffer.select<osmium::Changeset>()) {
            ++changesets;
            for (const auto& comment : cs.discussion()) {
                if (n >= expected.size()) {
                    std::cerr << "FAIL: too many comments\n";
                    return 1;
                }
                if (expected[n].first != comment.user() || expected[n].second != comment.text()) {
                    std::cerr << "FAIL: comment " << n << " is user='" << comment.user() << "' text='" << comment.text() << "'\n";
                    return 1;
                }
                ++n;
            }
            if (std::strcmp(cs.tags().get_value_by_key("k", ""), "v") != 0) {
                std::cerr << "FAIL: tag after discussion not found\n";
                return 1;
            }
        }
    }
    reader.close();
    if (changesets != 1 || n != expected.size()) {
        std::cerr << "FAIL: got " << changesets << " changesets, " << n << " comments\n";
        return 1;
    }
    return 0;
}

int main() {
    const std::string head = "<?xml version='1.0' encoding='UTF-8'?>\n<osm version='0.6'>\n"
                             "<changeset id='1' created_at='2020-01-01T00:00:00Z' open='false' user='u' uid='1' comments_count='3'>\n<discussion>\n";
    const std::string tail = "</discussion>\n<tag k='k' v='v'/>\n</changeset>\n</osm>\n";

    // regular case
    int r = check(head +
                  "<comment date='2020-01-01T00:00:01Z' uid='2' user='abc'><text>one</text></comment>\n"
                  "<comment date='2020-01-01T00:00:02Z' uid='3' user='de'><text>two</text></comment>\n" + tail,
                  {{"abc", "one"}, {"de", "two"}});
    if (r) { return r; }

    // comment without <text>
    r = check(head +
              "<comment date='2020-01-01T00:00:01Z' uid='2' user='abc'/>\n"
              "<comment date='2020-01-01T00:00:02Z' uid='3' user='de'><text>two</text></comment>\n"
              "<comment date='2020-01-01T00:00:03Z' uid='4' user='f'></comment>\n" + tail,
              {{"abc", ""}, {"de", "two"}, {"f", ""}});
    if (r) { return r; }

    // comment with two <text> elements
    r = check(head +
              "<comment date='2020-01-01T00:00:01Z' uid='2' user='abc'><text>one</text><text>more</text></comment>\n"
              "<comment date='2020-01-01T00:00:02Z' uid='3' user='de'><text>two</text></comment>\n" + tail,
              {{"abc", "onemore"}, {"de", "two"}});
    if (r) { return r; }

    std::cout << "OK\n";
    return 0;
}
