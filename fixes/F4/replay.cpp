// F4: TagListBuilder::add_tag(const char*, size_t, const char*, size_t) (and the
// std::string overload) copy keys/values with interior NUL bytes as is. Tag::next()
// finds the string ends with strlen(), so the tag iteration desynchronises and runs
// off the end of the buffer. Reachable from a PBF file with a string table entry "a\0b".
#include <osmium/builder/osm_object_builder.hpp>
#include <osmium/io/pbf_input.hpp>
#include <osmium/io/reader.hpp>
#include <osmium/memory/buffer.hpp>
#include <osmium/osm/node.hpp>

#include <protozero/pbf_writer.hpp>

#include <arpa/inet.h>

#include <cstdio>
#include <fstream>
#include <iostream>
#include <string>

static void write_blob(std::ofstream& out, const char* type, const std::string& data) {
    std::string blob;
    {
        protozero::pbf_writer w{blob};
        w.add_bytes(1, data); // Blob.raw
    }
    std::string header;
    {
        protozero::pbf_writer w{header};
        w.add_string(1, type); // BlobHeader.type
        w.add_int32(3, static_cast<int32_t>(blob.size())); // BlobHeader.datasize
    }
    const uint32_t size = htonl(static_cast<uint32_t>(header.size()));
    out.write(reinterpret_cast<const char*>(&size), sizeof(size));
    out.write(header.data(), static_cast<std::streamsize>(header.size()));
    out.write(blob.data(), static_cast<std::streamsize>(blob.size()));
}

static void write_file(const char* filename, const std::string& key) {
    std::ofstream out{filename, std::ios::binary};

    std::string header_block;
    {
        protozero::pbf_writer w{header_block};
        w.add_string(4, "OsmSchema-V0.6"); // required_features
    }
    write_blob(out, "OSMHeader", header_block);

    std::string block;
    {
        protozero::pbf_writer w{block};
        {
            protozero::pbf_writer st{w, 1}; // stringtable
            st.add_bytes(1, "");
            st.add_bytes(1, key);
            st.add_bytes(1, "v");
        }
        {
            protozero::pbf_writer group{w, 2}; // primitivegroup
            protozero::pbf_writer node{group, 1}; // Node
            node.add_sint64(1, 1); // id
            const uint32_t k[] = {1};
            const uint32_t v[] = {2};
            node.add_packed_uint32(2, k, k + 1);
            node.add_packed_uint32(3, v, v + 1);
            node.add_sint64(8, 10); // lat
            node.add_sint64(9, 10); // lon
        }
    }
    write_blob(out, "OSMData", block);
}

// returns number of tags seen
static int read_file(const char* filename, std::string& first_key) {
    int tags = 0;
    {
        osmium::io::Reader reader{filename};
        while (osmium::memory::Buffer buffer = reader.read()) {
            for (const auto& node : buffer.select<osmium::Node>()) {
                for (const auto& tag : node.tags()) {
                    if (tags++ == 0) {
                        first_key = tag.key();
                    }
                    if (tags > 100000000) {
                        return tags;
                    }
                }
            }
        }
        reader.close();
    }
    return tags;
}

int main() {
    const char* filename = "f4-replay.osm.pbf";
    std::string first_key;

    // valid file: key "a_b"
    write_file(filename, std::string{"a_b"});
    int n = read_file(filename, first_key);
    if (n != 1 || first_key != "a_b") {
        std::cerr << "FAIL: valid file: tags=" << n << " key=" << first_key << '\n';
        std::remove(filename);
        return 1;
    }

    // key with interior NUL byte: "a\0b", must be cut off at the NUL byte like all
    // other strings (tags are stored as NUL-terminated strings)
    write_file(filename, std::string{"a\0b", 3});
    n = read_file(filename, first_key);
    std::remove(filename);
    if (n != 1 || first_key != "a") {
        std::cerr << "FAIL: node with tag key 'a\\0b': iterating over its tags gave " << n << " tags, first key '" << first_key << "'\n";
        return 1;
    }

    // the same using the builder directly
    for (int variant = 0; variant < 4; ++variant) {
        osmium::memory::Buffer buffer{1024};
        {
            osmium::builder::TagListBuilder builder{buffer};
            switch (variant) {
                case 0: builder.add_tag("a\0b", 3, "v", 1); break;
                case 1: builder.add_tag("k", 1, "a\0b", 3); break;
                case 2: builder.add_tag(std::string{"a\0b", 3}, std::string{"v"}); break;
                default: builder.add_tag(std::string{"k"}, std::string{"a\0b", 3}); break;
            }
            builder.add_tag("x", "y");
        }
        buffer.commit();
        const auto& tl = buffer.get<osmium::TagList>(0);
        std::string all;
        int count = 0;
        for (const auto& tag : tl) {
            all += tag.key();
            all += '=';
            all += tag.value();
            all += ' ';
            if (++count > 10) {
                break;
            }
        }
        const char* expected = (variant % 2 == 0) ? "a=v x=y " : "k=a x=y ";
        if (all != expected) {
            std::cerr << "FAIL: builder variant " << variant << " gives tags '" << all << "', expected '" << expected << "'\n";
            return 1;
        }
    }

    std::cout << "OK\n";
    return 0;
}
