// F7: OSMObjectBuilder/ChangesetBuilder constructors add min_size_for_user to all
// ancestors twice: once through Builder(buffer, parent, sizeof(T) + min_size_for_user)
// and again through add_size(min_size_for_user). An item built with a nested object
// builder has a byte_size() 8 bytes larger than the bytes written.
#include <osmium/builder/osm_object_builder.hpp>
#include <osmium/memory/buffer.hpp>
#include <osmium/osm/node.hpp>
#include <osmium/osm/relation.hpp>
#include <osmium/osm/changeset.hpp>

#include <iostream>

static_assert(sizeof(osmium::Node) % osmium::memory::align_bytes == 0, "Node not aligned");
static_assert(sizeof(osmium::Way) % osmium::memory::align_bytes == 0, "Way not aligned");
static_assert(sizeof(osmium::Relation) % osmium::memory::align_bytes == 0, "Relation not aligned");
static_assert(sizeof(osmium::Area) % osmium::memory::align_bytes == 0, "Area not aligned");
static_assert(sizeof(osmium::Changeset) % osmium::memory::align_bytes == 0, "Changeset not aligned");

static int check(const char* what, osmium::memory::Buffer& buffer) {
    const std::size_t written = buffer.commit() ; (void)written;
    const auto& item = buffer.get<osmium::memory::Item>(0);
    std::cout << what << ": byte_size=" << item.byte_size() << " bytes written=" << buffer.committed() << '\n';
    if (item.padded_size() != buffer.committed()) {
        std::cerr << "FAIL: " << what << ": size of item is not the number of bytes written\n";
        return 1;
    }
    int n = 0;
    for (auto it = buffer.begin(); it != buffer.end(); ++it) {
        ++n;
    }
    if (n != 1) {
        std::cerr << "FAIL: " << what << ": " << n << " items in buffer\n";
        return 1;
    }
    return 0;
}

int main() {
    int result = 0;

    { // plain objects without parent (not affected)
        osmium::memory::Buffer buffer{1024};
        {
            osmium::builder::NodeBuilder builder{buffer};
            builder.set_id(1).set_user("foo");
            builder.add_tags({{"a", "b"}});
        }
        result |= check("node", buffer);
    }

    { // relation with full member copied from existing object (not affected)
        osmium::memory::Buffer nbuffer{1024};
        {
            osmium::builder::NodeBuilder builder{nbuffer};
            builder.set_id(1);
        }
        nbuffer.commit();
        osmium::memory::Buffer buffer{1024};
        {
            osmium::builder::RelationBuilder builder{buffer};
            builder.set_id(1);
            osmium::builder::RelationMemberListBuilder rml{builder};
            rml.add_member(osmium::item_type::node, 1, "", &nbuffer.get<osmium::Node>(0));
        }
        result |= check("relation with copied full member", buffer);
    }

    { // object builder with a parent builder
        osmium::memory::Buffer buffer{1024};
        {
            osmium::builder::RelationBuilder builder{buffer};
            builder.set_id(1);
            osmium::builder::NodeBuilder nbuilder{builder};
            nbuilder.set_id(1);
        }
        result |= check("relation with nested NodeBuilder", buffer);
    }

#ifdef NDEBUG
    // (The assertion in the Builder constructor does not allow this depth of nesting.)
    { // object builder nested in the member list builder of a relation
        osmium::memory::Buffer buffer{1024};
        {
            osmium::builder::RelationBuilder builder{buffer};
            builder.set_id(1);
            osmium::builder::RelationMemberListBuilder rml{builder};
            rml.add_member(osmium::item_type::node, 1, "");
            osmium::builder::NodeBuilder nbuilder{rml};
            nbuilder.set_id(1);
        }
        result |= check("relation with NodeBuilder nested in RelationMemberListBuilder", buffer);
    }
#endif

    { // same with a ChangesetBuilder that has a parent
        osmium::memory::Buffer buffer{1024};
        {
            osmium::builder::RelationBuilder builder{buffer};
            osmium::builder::ChangesetBuilder cbuilder{buffer, &builder};
            cbuilder.set_id(1);
        }
        result |= check("ChangesetBuilder with parent", buffer);
    }

    if (result) {
        return 1;
    }
    std::cout << "OK\n";
    return 0;
}
