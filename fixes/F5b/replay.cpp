// F5b: GzipBufferDecompressor::read() / Bzip2BufferDecompressor::read() (reading from a
// memory buffer): (a) only the first gzip member / bzip2 stream is decompressed,
// (b) a truncated buffer is accepted as empty file (empty chunk == end of data).
#include <osmium/io/bzip2_compression.hpp>
#include <osmium/io/gzip_compression.hpp>
#include <osmium/io/opl_input.hpp>
#include <osmium/io/reader.hpp>
#include <osmium/memory/buffer.hpp>

#include <bzlib.h>
#include <zlib.h>

#include <iostream>
#include <string>

static std::string bz(const std::string& in) {
    std::string out(in.size() + in.size() / 50 + 700, '\0');
    unsigned int len = static_cast<unsigned int>(out.size());
    if (BZ2_bzBuffToBuffCompress(&out[0], &len, const_cast<char*>(in.data()), static_cast<unsigned int>(in.size()), 9, 0, 0) != BZ_OK) {
        std::cerr << "bzip2 compress failed\n";
        std::exit(2);
    }
    out.resize(len);
    return out;
}

static std::string gz(const std::string& in) {
    z_stream strm{};
    if (deflateInit2(&strm, Z_DEFAULT_COMPRESSION, Z_DEFLATED, MAX_WBITS | 16, 8, Z_DEFAULT_STRATEGY) != Z_OK) {
        std::cerr << "gzip compress failed\n";
        std::exit(2);
    }
    std::string out(deflateBound(&strm, in.size()) + 64, '\0');
    strm.next_in = reinterpret_cast<unsigned char*>(const_cast<char*>(in.data()));
    strm.avail_in = static_cast<unsigned int>(in.size());
    strm.next_out = reinterpret_cast<unsigned char*>(&out[0]);
    strm.avail_out = static_cast<unsigned int>(out.size());
    if (deflate(&strm, Z_FINISH) != Z_STREAM_END) {
        std::cerr << "gzip compress failed\n";
        std::exit(2);
    }
    out.resize(out.size() - strm.avail_out);
    deflateEnd(&strm);
    return out;
}

static int fails = 0;

// expected < 0: an exception is expected
static void check(const std::string& what, const std::string& data, const char* format, long expected) {
    long count = 0;
    std::string error;
    try {
        osmium::io::File file{data.data(), data.size(), format};
        osmium::io::Reader reader{file};
        while (osmium::memory::Buffer buffer = reader.read()) {
            for (auto it = buffer.begin(); it != buffer.end(); ++it) {
                ++count;
            }
        }
        reader.close();
    } catch (const osmium::io_error& e) {
        error = e.what();
    }

    if (expected < 0) {
        if (error.empty()) {
            std::cerr << "FAIL: " << what << ": accepted (" << count << " objects), expected an error\n";
            ++fails;
        } else {
            std::cout << what << ": error: " << error << '\n';
        }
    } else if (!error.empty()) {
        std::cerr << "FAIL: " << what << ": unexpected error: " << error << '\n';
        ++fails;
    } else if (count != expected) {
        std::cerr << "FAIL: " << what << ": " << count << " objects, expected " << expected << '\n';
        ++fails;
    } else {
        std::cout << what << ": " << count << " objects\n";
    }
}

int main() {
    const std::string a = "n1 v1 dV c1 t i1 u T x1 y1\n";
    const std::string b = "n2 v1 dV c1 t i1 u T x2 y2\n";
    std::string big;
    for (int i = 10; i < 5010; ++i) {
        big += "n" + std::to_string(i) + " v1 dV c1 t i1 u T x" + std::to_string(i % 90) + "." + std::to_string(i * 7919LL % 10007) + " y2\n";
    }

    check("gzip: one member", gz(a), "opl.gz", 1);
    check("gzip: big member", gz(big), "opl.gz", 5000);
    check("gzip: two members", gz(a) + gz(b), "opl.gz", 2);
    check("gzip: big + small + big", gz(big) + gz(a) + gz(big), "opl.gz", 10001);
    check("gzip: empty member + data", gz("") + gz(a), "opl.gz", 1);
    check("gzip: empty member", gz(""), "opl.gz", 0);
    check("gzip: cut after 5 bytes", gz(a).substr(0, 5), "opl.gz", -1);
    check("gzip: cut after 20 bytes", gz(a).substr(0, 20), "opl.gz", -1);
    check("gzip: big cut in the middle", gz(big).substr(0, gz(big).size() / 2), "opl.gz", -1);
    check("gzip: second member cut", gz(a) + gz(b).substr(0, 12), "opl.gz", -1);

    check("bzip2: one stream", bz(a), "opl.bz2", 1);
    check("bzip2: big stream", bz(big), "opl.bz2", 5000);
    check("bzip2: two streams", bz(a) + bz(b), "opl.bz2", 2);
    check("bzip2: big + small + big", bz(big) + bz(a) + bz(big), "opl.bz2", 10001);
    check("bzip2: empty stream + data", bz("") + bz(a), "opl.bz2", 1);
    check("bzip2: empty stream", bz(""), "opl.bz2", 0);
    check("bzip2: cut after 3 bytes", bz(a).substr(0, 3), "opl.bz2", -1);
    check("bzip2: cut after 20 bytes", bz(a).substr(0, 20), "opl.bz2", -1);
    check("bzip2: big cut in the middle", bz(big).substr(0, bz(big).size() / 2), "opl.bz2", -1);
    check("bzip2: second stream cut", bz(a) + bz(b).substr(0, 12), "opl.bz2", -1);

    if (fails) {
        return 1;
    }
    std::cout << "OK\n";
    return 0;
}
