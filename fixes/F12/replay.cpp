// F12: GeometryFactory::fill_linestring_unique(), fill_polygon_unique() and add_points():
// the duplicate filter starts with an undefined Location as "last location", so a leading
// undefined location is silently skipped instead of raising osmium::invalid_location
// (as it does at every other position and with use_nodes::all).
#include <osmium/builder/osm_object_builder.hpp>
#include <osmium/geom/wkt.hpp>
#include <osmium/memory/buffer.hpp>
#include <osmium/osm/area.hpp>
#include <osmium/osm/way.hpp>

#include <functional>
#include <iostream>
#include <string>
#include <vector>

static int fails = 0;

static void expect_invalid_location(const char* what, const std::function<std::string()>& func) {
    try {
        const std::string wkt = func();
        std::cerr << "FAIL: " << what << ": no exception, result is " << wkt << '\n';
        ++fails;
    } catch (const osmium::invalid_location&) {
        std::cout << what << ": invalid_location\n";
    }
}

static void expect(const char* what, const std::string& expected, const std::function<std::string()>& func) {
    try {
        const std::string wkt = func();
        if (wkt != expected) {
            std::cerr << "FAIL: " << what << ": result is " << wkt << ", expected " << expected << '\n';
            ++fails;
        } else {
            std::cout << what << ": " << wkt << '\n';
        }
    } catch (const std::exception& e) {
        std::cerr << "FAIL: " << what << ": exception: " << e.what() << '\n';
        ++fails;
    }
}

static const osmium::Way& make_way(osmium::memory::Buffer& buffer, const std::vector<osmium::Location>& locations) {
    {
        osmium::builder::WayBuilder builder{buffer};
        builder.set_id(1);
        osmium::builder::WayNodeListBuilder wnl{builder};
        osmium::object_id_type id = 0;
        for (const auto& location : locations) {
            wnl.add_node_ref(++id, location);
        }
    }
    return buffer.get<osmium::Way>(buffer.commit());
}

static const osmium::Area& make_area(osmium::memory::Buffer& buffer, const std::vector<osmium::Location>& locations) {
    {
        osmium::builder::AreaBuilder builder{buffer};
        builder.set_id(2);
        osmium::builder::OuterRingBuilder ring{builder};
        osmium::object_id_type id = 0;
        for (const auto& location : locations) {
            ring.add_node_ref(++id, location);
        }
    }
    return buffer.get<osmium::Area>(buffer.commit());
}

int main() {
    using osmium::Location;
    using osmium::geom::use_nodes;
    osmium::geom::WKTFactory<> factory;
    osmium::memory::Buffer buffer{10240};
    const Location undefined{};

    const auto& good = make_way(buffer, {Location{1.0, 1.0}, Location{1.0, 1.0}, Location{2.0, 2.0}});
    const auto& leading = make_way(buffer, {undefined, Location{1.0, 1.0}, Location{2.0, 2.0}});
    const auto& middle = make_way(buffer, {Location{1.0, 1.0}, undefined, Location{2.0, 2.0}});
    const auto& trailing = make_way(buffer, {Location{1.0, 1.0}, Location{2.0, 2.0}, undefined});

    expect("linestring unique", "LINESTRING(1 1,2 2)", [&]() { return factory.create_linestring(good, use_nodes::unique); });
    expect("linestring all", "LINESTRING(1 1,1 1,2 2)", [&]() { return factory.create_linestring(good, use_nodes::all); });
    expect_invalid_location("linestring all, leading undefined", [&]() { return factory.create_linestring(leading, use_nodes::all); });
    expect_invalid_location("linestring unique, undefined in the middle", [&]() { return factory.create_linestring(middle, use_nodes::unique); });
    expect_invalid_location("linestring unique, trailing undefined", [&]() { return factory.create_linestring(trailing, use_nodes::unique); });
    expect_invalid_location("linestring unique, leading undefined", [&]() { return factory.create_linestring(leading, use_nodes::unique); });
    expect_invalid_location("linestring unique backward, trailing undefined", [&]() { return factory.create_linestring(trailing, use_nodes::unique, osmium::geom::direction::backward); });

    const auto& pgood = make_way(buffer, {Location{1.0, 1.0}, Location{1.0, 1.0}, Location{2.0, 2.0}, Location{2.0, 1.0}, Location{1.0, 1.0}});
    const auto& pleading = make_way(buffer, {undefined, Location{1.0, 1.0}, Location{2.0, 2.0}, Location{2.0, 1.0}, Location{1.0, 1.0}});
    expect("polygon unique", "POLYGON((1 1,2 2,2 1,1 1))", [&]() { return factory.create_polygon(pgood, use_nodes::unique); });
    expect_invalid_location("polygon unique, leading undefined", [&]() { return factory.create_polygon(pleading, use_nodes::unique); });

    const auto& agood = make_area(buffer, {Location{1.0, 1.0}, Location{1.0, 1.0}, Location{2.0, 2.0}, Location{2.0, 1.0}, Location{1.0, 1.0}});
    const auto& aleading = make_area(buffer, {undefined, Location{1.0, 1.0}, Location{2.0, 2.0}, Location{2.0, 1.0}, Location{1.0, 1.0}});
    expect("multipolygon", "MULTIPOLYGON(((1 1,2 2,2 1,1 1)))", [&]() { return factory.create_multipolygon(agood); });
    expect_invalid_location("multipolygon, leading undefined in ring", [&]() { return factory.create_multipolygon(aleading); });

    if (fails) {
        return 1;
    }
    std::cout << "OK\n";
    return 0;
}
