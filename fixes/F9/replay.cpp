// F9: PBFParser::run() closes the file descriptor it reads from only in its last
// statement. Any exception before that (invalid or truncated file) leaks the fd:
// one fd per failed Reader.
#include <osmium/io/pbf_input.hpp>
#include <osmium/io/reader.hpp>
#include <osmium/memory/buffer.hpp>

#include <dirent.h>

#include <cstdio>
#include <fstream>
#include <iostream>
#include <string>

static int count_open_fds() {
    int count = 0;
    DIR* dir = opendir("/proc/self/fd");
    if (!dir) {
        std::cerr << "can not open /proc/self/fd\n";
        std::exit(2);
    }
    while (readdir(dir)) {
        ++count;
    }
    closedir(dir);
    return count;
}

static int try_file(const char* what, const std::string& content, bool expect_error) {
    const char* filename = "f9-replay.osm.pbf";
    {
        std::ofstream out{filename, std::ios::binary};
        out << content;
    }

    const int loops = 50;
    int errors = 0;
    const int before = count_open_fds();
    for (int i = 0; i < loops; ++i) {
        try {
            osmium::io::Reader reader{filename};
            while (osmium::memory::Buffer buffer = reader.read()) {
            }
            reader.close();
        } catch (const std::exception&) {
            ++errors;
        }
        // the Reader destructor has joined the parser thread here
    }
    const int after = count_open_fds();
    std::remove(filename);

    std::cout << what << ": " << errors << " of " << loops << " readers failed, open fds before=" << before << " after=" << after << '\n';
    if (expect_error != (errors == loops)) {
        std::cerr << "FAIL: " << what << ": unexpected number of errors\n";
        return 1;
    }
    if (after != before) {
        std::cerr << "FAIL: " << what << ": " << (after - before) << " file descriptors leaked\n";
        return 1;
    }
    return 0;
}

int main() {
    // minimal valid file: BlobHeader{type="OSMHeader", datasize=18}, Blob{raw=HeaderBlock{required_features="OsmSchema-V0.6"}}
    const std::string header_block = std::string{"\x22\x0e"} + "OsmSchema-V0.6";
    const std::string blob = std::string{"\x0a\x10"} + header_block;
    const std::string blob_header = std::string{"\x0a\x09"} + "OSMHeader" + "\x18\x12";
    const std::string valid = std::string{"\x00\x00\x00\x0d", 4} + blob_header + blob;

    int result = 0;
    result |= try_file("valid file", valid, false);
    result |= try_file("invalid BlobHeader size", std::string{"\xff\xff\xff\xff"}, true);
    result |= try_file("truncated file", valid.substr(0, valid.size() - 5), true);

    if (result) {
        return 1;
    }
    std::cout << "OK\n";
    return 0;
}
