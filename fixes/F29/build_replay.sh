#!/bin/sh
# usage: build_replay.sh <include-dir>
# Builds two variants: replay (-DNDEBUG, ASan) and replay_assert (assertions enabled).
set -e
cd "$(dirname "$0")"
g++ -std=c++14 -O1 -g -Wno-stringop-overread -DNDEBUG -fsanitize=address -fno-omit-frame-pointer -DOSMIUM_WITH_LZ4 -D_FILE_OFFSET_BITS=64 -I"$1" replay.cpp -o replay -pthread -lz -lbz2 -lexpat -llz4
g++ -std=c++14 -O1 -g -Wno-stringop-overread -DOSMIUM_WITH_LZ4 -D_FILE_OFFSET_BITS=64 -I"$1" replay.cpp -o replay_assert -pthread -lz -lbz2 -lexpat -llz4
