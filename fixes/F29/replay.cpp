// F29 replay: dense nodes with many tags: DenseNodes::size() counts only ids/lat/lon, not the keys_vals indexes, so the
// PBF writer never closes the block for size; 8000 nodes x 1100 tags give a > 32 MiB blob that the Reader rejects.
#include <osmium/builder/osm_object_builder.hpp>
#include <osmium/io/pbf_input.hpp>
#include <osmium/io/pbf_output.hpp>
#include <osmium/io/reader.hpp>
#include <osmium/io/writer.hpp>
#include <osmium/memory/buffer.hpp>
#include <osmium/osm/node.hpp>
#include <cstdio>
#include <string>
#include <vector>
#include <unistd.h>

int main() {
    constexpr int num_nodes = 8000;
    constexpr int num_tags = 1100;
    std::vector<std::string> keys, vals;
    for (int t = 0; t < num_tags; ++t) { keys.push_back("k" + std::to_string(t)); vals.push_back("v" + std::to_string(t)); }
    const std::string fn = "/var/tmp/f29_replay_" + std::to_string(::getpid()) + ".osm.pbf";
    int bad = 0;
    try {
        osmium::io::File file{fn};
        file.set("pbf_compression", "none");
        osmium::io::Writer writer{file, osmium::io::overwrite::allow};
        for (int chunk = 0; chunk < num_nodes / 100; ++chunk) {
            osmium::memory::Buffer buffer{1024UL * 1024UL, osmium::memory::Buffer::auto_grow::yes};
            for (int i = 0; i < 100; ++i) {
                {
                    osmium::builder::NodeBuilder nb{buffer};
                    nb.set_id(chunk * 100 + i + 1).set_version(1).set_location(osmium::Location{1.0, 2.0});
                    osmium::builder::TagListBuilder tl{nb};
                    for (int t = 0; t < num_tags; ++t) { tl.add_tag(keys[t], vals[t]); }
                }
                buffer.commit();
            }
            writer(std::move(buffer));
        }
        writer.close();
    } catch (const std::exception& e) {
        std::printf("writer reported: %s\n", e.what());
        ::unlink(fn.c_str());
        return 2;
    }
    try {
        osmium::io::Reader reader{fn};
        unsigned long n = 0, tags = 0;
        while (auto b = reader.read()) {
            for (const auto& node : b.select<osmium::Node>()) { ++n; tags += node.tags().size(); }
        }
        reader.close();
        if (n != num_nodes || tags != 1UL * num_nodes * num_tags) { std::printf("read %lu nodes, %lu tags\n", n, tags); ++bad; }
    } catch (const std::exception& e) {
        std::printf("Reader rejects what the Writer wrote without error: %s\n", e.what());
        ++bad;
    }
    ::unlink(fn.c_str());
    std::printf(bad ? "FAIL\n" : "OK\n");
    return bad ? 1 : 0;
}
