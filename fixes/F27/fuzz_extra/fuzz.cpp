// Grid based fuzzer for the area assembler (scratch tool).
#include <osmium/area/assembler.hpp>
#include <osmium/area/assembler_config.hpp>
#include <osmium/builder/attr.hpp>
#include <osmium/builder/osm_object_builder.hpp>
#include <osmium/memory/buffer.hpp>
#include <osmium/osm/area.hpp>
#include <osmium/osm/relation.hpp>
#include <osmium/osm/way.hpp>

#include <algorithm>
#include <cstdint>
#include <cstdlib>
#include <iostream>
#include <map>
#include <random>
#include <string>
#include <vector>

struct P { int64_t x, y; };

struct Edge { int a, b; bool used = false; };

static int W = 6, H = 6;
static int64_t TA = 1, TB = 0, TC = 0, TD = 1; // transform

static P tr(int64_t gx, int64_t gy) { // grid coords (may be doubled) -> world
    return P{TA * gx + TB * gy, TC * gx + TD * gy};
}

static int nid(int i, int j) { return j * (W + 1) + i + 1; }

static bool in_ring2(const std::vector<P>& ring2, P p) { // ring in doubled coords, p doubled
    bool in = false;
    for (size_t k = 0; k + 1 < ring2.size(); ++k) {
        P a = ring2[k], b = ring2[k + 1];
        if ((a.y > p.y) != (b.y > p.y)) {
            // x of intersection > p.x ?
            // a.x + (p.y-a.y)*(b.x-a.x)/(b.y-a.y) > p.x
            __int128 lhs = (__int128)(p.y - a.y) * (b.x - a.x);
            __int128 rhs = (__int128)(p.x - a.x) * (b.y - a.y);
            if (b.y - a.y > 0 ? lhs > rhs : lhs < rhs) in = !in;
        }
    }
    return in;
}

static int64_t area2(const std::vector<P>& r) {
    __int128 s = 0;
    for (size_t k = 0; k + 1 < r.size(); ++k) s += (__int128)r[k].x * r[k + 1].y - (__int128)r[k].y * r[k + 1].x;
    return (int64_t)s;
}

int verbose = 0;

// returns: 0 ok, 1 rejected, 2 invalid result
static int run_case(unsigned seed, double fill, std::string* why) {
    std::mt19937 rng(seed);
    std::vector<std::vector<int>> cell(W, std::vector<int>(H, 0));
    int filled = 0;
    for (int i = 0; i < W; ++i) for (int j = 0; j < H; ++j) { cell[i][j] = (std::uniform_real_distribution<>(0, 1)(rng) < fill); filled += cell[i][j]; }
    if (!filled) return 0;
    if (getenv("DUMP")) { for (int j = H - 1; j >= 0; --j) { for (int i = 0; i < W; ++i) std::cout << (cell[i][j] ? '#' : '.'); std::cout << "\n"; } }
    auto get = [&](int i, int j) { return (i < 0 || j < 0 || i >= W || j >= H) ? 0 : cell[i][j]; };
    std::vector<Edge> edges;
    // vertical edges between (i-1,j) and (i,j): from (i,j) to (i,j+1)
    for (int i = 0; i <= W; ++i) for (int j = 0; j < H; ++j) if (get(i - 1, j) != get(i, j)) edges.push_back({nid(i, j), nid(i, j + 1)});
    for (int j = 0; j <= H; ++j) for (int i = 0; i < W; ++i) if (get(i, j - 1) != get(i, j)) edges.push_back({nid(i, j), nid(i + 1, j)});
    std::shuffle(edges.begin(), edges.end(), rng);
    // cut into ways
    std::vector<std::vector<int>> ways;
    std::multimap<int, int> at;
    for (int e = 0; e < (int)edges.size(); ++e) { at.insert({edges[e].a, e}); at.insert({edges[e].b, e}); }
    for (int e = 0; e < (int)edges.size(); ++e) {
        if (edges[e].used) continue;
        edges[e].used = true;
        std::vector<int> w;
        bool rev = rng() & 1;
        w.push_back(rev ? edges[e].b : edges[e].a);
        w.push_back(rev ? edges[e].a : edges[e].b);
        while ((rng() % 4) != 0) {
            int cur = w.back();
            std::vector<int> cand;
            auto r = at.equal_range(cur);
            for (auto it = r.first; it != r.second; ++it) if (!edges[it->second].used) cand.push_back(it->second);
            if (cand.empty()) break;
            int c = cand[rng() % cand.size()];
            edges[c].used = true;
            w.push_back(edges[c].a == cur ? edges[c].b : edges[c].a);
        }
        ways.push_back(w);
    }
    std::shuffle(ways.begin(), ways.end(), rng);

    osmium::memory::Buffer wbuf{1024 * 1024};
    std::vector<size_t> wpos;
    {
        using namespace osmium::builder::attr;
        int wid = 100;
        for (auto& w : ways) {
            std::vector<osmium::NodeRef> nrs;
            for (int n : w) {
                int i = (n - 1) % (W + 1), j = (n - 1) / (W + 1);
                P p = tr(i, j);
                nrs.emplace_back(n, osmium::Location{(int32_t)p.x, (int32_t)p.y});
            }
            wpos.push_back(osmium::builder::add_way(wbuf, _id(wid++), _nodes(nrs)));
        }
    }
    osmium::memory::Buffer rbuf{1024 * 1024};
    {
        osmium::builder::RelationBuilder rb{rbuf};
        rb.set_id(1);
        {
            osmium::builder::RelationMemberListBuilder ml{rb};
            for (size_t k = 0; k < ways.size(); ++k) {
                const char* roles[] = {"outer", "inner", "", "foo"};
                ml.add_member(osmium::item_type::way, 100 + k, roles[rng() % 4]);
            }
        }
        {
            osmium::builder::TagListBuilder tl{rb};
            tl.add_tag("type", "multipolygon");
        }
    }
    rbuf.commit();
    std::vector<const osmium::Way*> members;
    for (auto p : wpos) members.push_back(&wbuf.get<osmium::Way>(p));

    osmium::area::AssemblerConfig config;
    config.create_empty_areas = false;
    config.debug_level = verbose > 1 ? 3 : 0;
    osmium::area::Assembler assembler{config};
    osmium::memory::Buffer abuf{1024 * 1024};
    bool ok = assembler(rbuf.get<osmium::Relation>(0), members, abuf);
    if (!ok) { *why = "rejected"; return 1; }
    const auto& area = abuf.get<osmium::Area>(0);

    std::vector<std::vector<int>> cover(W, std::vector<int>(H, 0));
    int64_t total2 = 0;
    int osign = 0;
    for (const auto& outer : area.outer_rings()) {
        std::vector<P> o;
        for (const auto& nr : outer) o.push_back(P{2 * (int64_t)nr.location().x(), 2 * (int64_t)nr.location().y()});
        if (o.size() < 4 || o.front().x != o.back().x || o.front().y != o.back().y) { *why = "outer ring not closed/too short"; return 2; }
        int64_t a = area2(o);
        int s = a > 0 ? 1 : -1;
        if (osign == 0) osign = s;
        if (s != osign) { *why = "outer rings orientation differs"; return 2; }
        total2 += std::llabs(a);
        std::vector<std::vector<P>> inners;
        for (const auto& inner : area.inner_rings(outer)) {
            std::vector<P> r;
            for (const auto& nr : inner) r.push_back(P{2 * (int64_t)nr.location().x(), 2 * (int64_t)nr.location().y()});
            if (r.size() < 4 || r.front().x != r.back().x || r.front().y != r.back().y) { *why = "inner ring not closed/too short"; return 2; }
            int64_t ia = area2(r);
            if ((ia > 0 ? 1 : -1) == s) { *why = "inner ring has same orientation as outer"; return 2; }
            total2 -= std::llabs(ia);
            inners.push_back(r);
        }
        for (int i = 0; i < W; ++i) for (int j = 0; j < H; ++j) {
            P c = tr(2 * i + 1, 2 * j + 1);
            c.x *= 1; c.y *= 1; // centre in doubled grid -> world doubled
            bool ino = in_ring2(o, c);
            int cnt = 0;
            for (auto& r : inners) if (in_ring2(r, c)) { ++cnt; if (!ino) { *why = "inner ring not inside its outer ring"; return 2; } }
            if (cnt > 1) { *why = "inner rings overlap"; return 2; }
            if (ino && cnt == 0) cover[i][j]++;
        }
    }
    if (osign != -1 && osign != 0) { /* record */ }
    for (int i = 0; i < W; ++i) for (int j = 0; j < H; ++j) if (cover[i][j] != cell[i][j]) { *why = "covered region differs at cell " + std::to_string(i) + "," + std::to_string(j) + " cover=" + std::to_string(cover[i][j]); return 2; }
    int64_t det = std::llabs(TA * TD - TB * TC);
    if (total2 != (int64_t)filled * det * 2 * 4) { *why = "area mismatch"; return 2; }
    if (osign != 1 && getenv("ORIENT")) { *why = "outer orientation sign " + std::to_string(osign); return 2; }
    return 0;
}

int main(int argc, char** argv) {
    unsigned from = argc > 1 ? atoi(argv[1]) : 1;
    unsigned to = argc > 2 ? atoi(argv[2]) : 1000;
    double fill = argc > 3 ? atof(argv[3]) : 0.5;
    if (argc > 4) W = H = atoi(argv[4]);
    if (argc > 8) { TA = atoi(argv[5]); TB = atoi(argv[6]); TC = atoi(argv[7]); TD = atoi(argv[8]); }
    if (getenv("VERBOSE")) verbose = atoi(getenv("VERBOSE"));
    int nrej = 0, nbad = 0;
    for (unsigned s = from; s <= to; ++s) {
        std::string why;
        int r = run_case(s, fill, &why);
        if (r == 1) { ++nrej; if (verbose) std::cout << "seed " << s << ": " << why << "\n"; }
        if (r == 2) { ++nbad; std::cout << "seed " << s << ": INVALID: " << why << "\n"; }
    }
    std::cout << "cases=" << (to - from + 1) << " rejected=" << nrej << " invalid=" << nbad << "\n";
    return nbad ? 1 : 0;
}
