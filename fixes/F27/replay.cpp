// Replay for the y-tie in BasicAssembler::find_enclosing_ring(): two outer rings A and B touch in the node V=(10,0);
// a hole H of A has its lowest-leftmost node (10,10) exactly above V.  The hole must be attached to A (it lies inside A),
// libosmium attaches it to B.   exit 1 = wrong / 0 = correct.     g++ -std=c++14 -I<include> replay.cpp -pthread -lz -lbz2 -lexpat
#include <osmium/area/assembler.hpp>
#include <osmium/area/assembler_config.hpp>
#include <osmium/builder/attr.hpp>
#include <osmium/builder/osm_object_builder.hpp>
#include <osmium/memory/buffer.hpp>
#include <osmium/osm/area.hpp>
#include <iostream>
#include <utility>
#include <vector>

using Ring = std::vector<std::pair<int, std::pair<int, int>>>;   // node id, (x, y)

static bool inside(const osmium::NodeRefList& ring, long px2, long py2) {   // point given in doubled coordinates
    bool in = false;
    for (auto it = ring.begin(); std::next(it) != ring.end(); ++it) {
        const long ax = 2L * it->location().x(), ay = 2L * it->location().y();
        const long bx = 2L * std::next(it)->location().x(), by = 2L * std::next(it)->location().y();
        if ((ay > py2) != (by > py2)) {
            const long lhs = (py2 - ay) * (bx - ax), rhs = (px2 - ax) * (by - ay);
            if (by - ay > 0 ? lhs > rhs : lhs < rhs) {
                in = !in;
            }
        }
    }
    return in;
}

static int run(const std::vector<Ring>& rings) {
    using namespace osmium::builder::attr;
    osmium::memory::Buffer wbuf{1024 * 64};
    std::vector<std::size_t> pos;
    int wid = 1;
    for (const auto& r : rings) {
        std::vector<osmium::NodeRef> nrs;
        for (const auto& n : r) {
            nrs.emplace_back(n.first, osmium::Location{static_cast<int32_t>(n.second.first), static_cast<int32_t>(n.second.second)});
        }
        pos.push_back(osmium::builder::add_way(wbuf, _id(wid++), _nodes(nrs)));
    }
    osmium::memory::Buffer rbuf{1024 * 64};
    {
        osmium::builder::RelationBuilder rb{rbuf};
        rb.set_id(1);
        {
            osmium::builder::RelationMemberListBuilder ml{rb};
            for (int k = 1; k < wid; ++k) {
                ml.add_member(osmium::item_type::way, k, "");
            }
        }
        osmium::builder::TagListBuilder tl{rb};
        tl.add_tag("type", "multipolygon");
    }
    rbuf.commit();
    std::vector<const osmium::Way*> members;
    for (auto p : pos) {
        members.push_back(&wbuf.get<osmium::Way>(p));
    }
    osmium::area::AssemblerConfig config;
    osmium::area::Assembler assembler{config};
    osmium::memory::Buffer abuf{1024 * 64};
    if (!assembler(rbuf.get<osmium::Relation>(0), members, abuf)) {
        std::cout << "  rejected\n";
        return 1;
    }
    int bad = 0;
    const auto& area = abuf.get<osmium::Area>(0);
    for (const auto& outer : area.outer_rings()) {
        std::cout << "  outer ring starting at node " << outer.front().ref() << "\n";
        for (const auto& inner : area.inner_rings(outer)) {
            // (10,10)-(14,12)-(14,16)-(10,14): the point (12,13) is strictly inside the hole
            const bool ok = inside(outer, 2 * 12, 2 * 13);
            std::cout << "    inner ring starting at node " << inner.front().ref() << (ok ? "" : "   <-- NOT inside this outer ring") << "\n";
            bad += !ok;
        }
    }
    return bad;
}

int main() {
    const Ring A = {{1, {10, 0}}, {2, {30, 20}}, {3, {10, 40}}, {4, {-10, 20}}, {1, {10, 0}}};      // big outer ring
    const Ring B = {{1, {10, 0}}, {5, {20, -10}}, {6, {0, -10}}, {1, {10, 0}}};                      // outer ring touching A in node 1 from below
    const Ring H = {{7, {10, 10}}, {8, {14, 12}}, {9, {14, 16}}, {10, {10, 14}}, {7, {10, 10}}};     // hole in A, lowest-leftmost node above node 1
    int bad = 0;
    std::cout << "member order A B H\n";
    bad += run({A, B, H});
    std::cout << "member order H B A\n";
    bad += run({H, B, A});
    std::cout << (bad ? "WRONG: an inner ring is attached to an outer ring that does not contain it\n" : "OK\n");
    return bad ? 1 : 0;
}
