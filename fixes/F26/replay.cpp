// F26 replay: a node with changeset id 4294967295 is written to XML (and accepted by every builder/writer) but the XML
// Reader rejects it: "illegal changeset: '4294967295'" (string_to_ulong tests `value < max` instead of `value <= max`).
#include <osmium/builder/attr.hpp>
#include <osmium/io/xml_input.hpp>
#include <osmium/io/xml_output.hpp>
#include <osmium/io/reader.hpp>
#include <osmium/io/writer.hpp>
#include <osmium/memory/buffer.hpp>
#include <osmium/osm/node.hpp>
#include <osmium/osm/types_from_string.hpp>
#include <cstdio>
#include <string>
#include <unistd.h>

int main() {
    using namespace osmium::builder::attr;
    int bad = 0;
    const std::string fn = "/var/tmp/f26_replay_" + std::to_string(::getpid()) + ".osm";
    {
        osmium::memory::Buffer buffer{1024, osmium::memory::Buffer::auto_grow::yes};
        osmium::builder::add_node(buffer, _id(1), _version(1), _cid(4294967295U), _uid(1), _user("u"), _location(1.0, 2.0));
        osmium::io::Writer writer{fn, osmium::io::overwrite::allow};
        writer(std::move(buffer));
        writer.close();
    }
    try {
        osmium::io::Reader reader{fn};
        unsigned n = 0;
        while (auto b = reader.read()) {
            for (const auto& o : b.select<osmium::OSMObject>()) {
                ++n;
                if (o.changeset() != 4294967295U) { std::printf("wrong changeset %u\n", o.changeset()); ++bad; }
            }
        }
        reader.close();
        if (n != 1) { std::printf("read %u objects\n", n); ++bad; }
    } catch (const std::exception& e) {
        std::printf("Reader rejects what the Writer wrote: %s\n", e.what());
        ++bad;
    }
    ::unlink(fn.c_str());
    // strictness is kept: one more is out of range
    try { osmium::string_to_changeset_id("4294967296"); std::printf("4294967296 accepted\n"); ++bad; } catch (const std::range_error&) {}
    try { osmium::string_to_changeset_id("99999999999999999999999"); std::printf("overflowing value accepted\n"); ++bad; } catch (const std::range_error&) {}
    std::printf(bad ? "FAIL\n" : "OK\n");
    return bad ? 1 : 0;
}
