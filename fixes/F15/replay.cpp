// F15: PBFParser::get_size_in_network_byte_order(const char*): the bytes are widened from
// plain (signed) char, so a length byte >= 0x80 sign-extends. A conformant BlobHeader of
// 128..255 bytes (or >= 32768 bytes) is rejected with "invalid BlobHeader size".
#include <osmium/io/pbf_input.hpp>
#include <osmium/io/reader.hpp>
#include <osmium/memory/buffer.hpp>
#include <osmium/osm/node.hpp>

#include <protozero/pbf_writer.hpp>

#include <cstdint>
#include <cstdio>
#include <fstream>
#include <iostream>
#include <string>

static std::string make_blob(const char* type, const std::string& data, std::size_t indexdata_size) {
    std::string blob;
    {
        protozero::pbf_writer w{blob};
        w.add_bytes(1, data); // Blob.raw
    }
    std::string header;
    {
        protozero::pbf_writer w{header};
        w.add_string(1, type); // BlobHeader.type
        if (indexdata_size) {
            w.add_bytes(2, std::string(indexdata_size, 'x')); // BlobHeader.indexdata
        }
        w.add_int32(3, static_cast<int32_t>(blob.size())); // BlobHeader.datasize
    }
    const uint32_t size = static_cast<uint32_t>(header.size());
    std::string out;
    out += static_cast<char>((size >> 24U) & 0xffU);
    out += static_cast<char>((size >> 16U) & 0xffU);
    out += static_cast<char>((size >>  8U) & 0xffU);
    out += static_cast<char>( size         & 0xffU);
    std::cout << "  " << type << " BlobHeader has " << size << " bytes\n";
    return out + header + blob;
}

static std::string make_file(std::size_t header_indexdata_size, std::size_t data_indexdata_size) {
    std::string header_block;
    {
        protozero::pbf_writer w{header_block};
        w.add_string(4, "OsmSchema-V0.6"); // required_features
    }
    std::string block;
    {
        protozero::pbf_writer w{block};
        {
            protozero::pbf_writer st{w, 1}; // stringtable
            st.add_bytes(1, "");
        }
        {
            protozero::pbf_writer group{w, 2}; // primitivegroup
            protozero::pbf_writer node{group, 1}; // Node
            node.add_sint64(1, 17); // id
            node.add_sint64(8, 10); // lat
            node.add_sint64(9, 10); // lon
        }
    }
    return make_blob("OSMHeader", header_block, header_indexdata_size) +
           make_blob("OSMData", block, data_indexdata_size);
}

static int read(const char* what, const osmium::io::File& file) {
    try {
        int nodes = 0;
        osmium::io::Reader reader{file};
        while (osmium::memory::Buffer buffer = reader.read()) {
            for (const auto& node : buffer.select<osmium::Node>()) {
                if (node.id() == 17) {
                    ++nodes;
                }
            }
        }
        reader.close();
        if (nodes != 1) {
            std::cerr << "FAIL: " << what << ": " << nodes << " nodes\n";
            return 1;
        }
    } catch (const std::exception& e) {
        std::cerr << "FAIL: " << what << ": " << e.what() << '\n';
        return 1;
    }
    return 0;
}

static int check(const char* what, std::size_t header_indexdata_size, std::size_t data_indexdata_size) {
    std::cout << what << ":\n";
    const std::string data = make_file(header_indexdata_size, data_indexdata_size);

    const char* filename = "f15-replay.osm.pbf";
    {
        std::ofstream out{filename, std::ios::binary};
        out << data;
    }
    int result = read(what, osmium::io::File{filename});
    std::remove(filename);

    result |= read(what, osmium::io::File{data.data(), data.size(), "pbf"});
    return result;
}

int main() {
    int result = 0;
    result |= check("small BlobHeaders", 0, 0);
    result |= check("127 byte OSMHeader BlobHeader", 127 - 15, 0);
    result |= check("130 byte OSMHeader BlobHeader", 130 - 15, 0);
    result |= check("255 byte OSMData BlobHeader", 0, 255 - 14);
    result |= check("40000 byte OSMData BlobHeader", 0, 40000 - 15);

    if (result) {
        return 1;
    }
    std::cout << "OK\n";
    return 0;
}
