// F8: append_min_4_hex_digits() tests each optional leading nibble individually, so
// zero digits below a non-zero leading digit are dropped: U+100000 is written as
// %10000% by the OPL writer, which the OPL parser reads back as U+10000.
#include <osmium/io/detail/opl_parser_functions.hpp>
#include <osmium/io/detail/string_util.hpp>

#include <cstdint>
#include <iostream>
#include <string>

static int fails = 0;

static void check_hex(uint32_t value, const std::string& expected) {
    std::string out;
    osmium::io::detail::append_min_4_hex_digits(out, value, "0123456789abcdef");
    if (out != expected) {
        std::cerr << "FAIL: append_min_4_hex_digits(0x" << std::hex << value << std::dec << ") gives '" << out << "', expected '" << expected << "'\n";
        ++fails;
    }
}

static void check_roundtrip(const std::string& str) {
    std::string encoded;
    osmium::io::detail::append_utf8_encoded_string(encoded, str.c_str());
    encoded += ' ';
    const char* s = encoded.c_str();
    std::string decoded;
    osmium::io::detail::opl_parse_string(&s, decoded);
    if (decoded != str) {
        std::cerr << "FAIL: OPL round trip of " << str.size() << " byte string through '" << encoded << "' does not give back the input\n";
        ++fails;
    }
}

int main() {
    check_hex(0x0100, "0100");
    check_hex(0xffff, "ffff");
    check_hex(0x10000, "10000");
    check_hex(0x1f600, "1f600");
    check_hex(0xfffff, "fffff");
    check_hex(0x100000, "100000");
    check_hex(0x10ffff, "10ffff");
    check_hex(0x10abcd, "10abcd");
    check_hex(0x1000000, "1000000");
    check_hex(0x10000000, "10000000");
    check_hex(0xf0000000, "f0000000");
    check_hex(0xffffffff, "ffffffff");

    check_roundtrip("\xF0\x9F\x98\x80"); // U+1F600
    check_roundtrip("\xF3\xB0\x80\x80"); // U+F0000
    check_roundtrip("\xF4\x80\x80\x80"); // U+100000
    check_roundtrip("\xF4\x8F\xBF\xBF"); // U+10FFFF

    if (fails) {
        return 1;
    }
    std::cout << "OK\n";
    return 0;
}
