// F23: MembersDatabaseCommon::remove() takes the object out of the ItemStash when its last
// entry is removed, but all entries for that id keep the (now released) handle. A later
// get_object(id) / MembersDatabase<T>::get(id) / RelationsManager::get_member_way(id) sees
// handle.valid() and calls ItemStash::get() on a released handle: assertion in debug builds,
// with NDEBUG a wild pointer (buffer + SIZE_MAX) instead of nullptr.
// (Never dereferences the pointer, so it runs without crashing on the unfixed headers with NDEBUG.)
#include <osmium/builder/attr.hpp>
#include <osmium/memory/buffer.hpp>
#include <osmium/relations/members_database.hpp>
#include <osmium/relations/relations_database.hpp>
#include <osmium/relations/relations_manager.hpp>
#include <osmium/storage/item_stash.hpp>
#include <osmium/visitor.hpp>

#include <iostream>
#include <vector>

static int fails = 0;

static void expect(bool condition, const char* what) {
    if (!condition) {
        std::cerr << "FAIL: " << what << '\n';
        ++fails;
    }
}

// Variant 1: the databases used directly
static void direct() {
    using namespace osmium::builder::attr; // NOLINT(google-build-using-namespace)
    osmium::memory::Buffer buffer{10240};
    osmium::builder::add_relation(buffer, _id(20), _member(osmium::item_type::way, 10, "outer"));
    osmium::builder::add_relation(buffer, _id(21), _member(osmium::item_type::way, 11, "outer"), _member(osmium::item_type::way, 12, "outer"));
    osmium::builder::add_relation(buffer, _id(22), _member(osmium::item_type::way, 12, "outer"), _member(osmium::item_type::way, 13, "outer"));
    osmium::builder::add_way(buffer, _id(10));
    osmium::builder::add_way(buffer, _id(11));
    osmium::builder::add_way(buffer, _id(12));

    osmium::ItemStash stash;
    osmium::relations::RelationsDatabase rdb{stash};
    osmium::relations::MembersDatabase<osmium::Way> mdb{stash, rdb};

    for (const auto& relation : buffer.select<osmium::Relation>()) {
        auto handle = rdb.add(relation);
        std::size_t n = 0;
        for (const auto& member : relation.members()) {
            mdb.track(handle, member.ref(), n++);
        }
    }
    mdb.prepare_for_lookup();

    expect(mdb.get(10) == nullptr, "direct: way 10 not available before it was added");
    expect(mdb.get(99) == nullptr, "direct: unknown way 99 is absent");

    std::vector<osmium::object_id_type> completed;
    for (const auto& way : buffer.select<osmium::Way>()) {
        mdb.add(way, [&](osmium::relations::RelationHandle& rel_handle) {
            completed.push_back(rel_handle->id());
            // available while the relation is being completed
            for (const auto& member : rel_handle->members()) {
                const auto* w = mdb.get(member.ref());
                expect(w != nullptr && w->id() == member.ref(), "direct: member available in completion callback");
            }
            // what RelationsManager::handle_complete_relation() does afterwards
            for (const auto& member : rel_handle->members()) {
                mdb.remove(member.ref(), rel_handle->id());
            }
            rel_handle.remove();
        });
    }

    expect(completed == std::vector<osmium::object_id_type>{20, 21}, "direct: relations 20 and 21 completed");
    expect(stash.size() == 2, "direct: stash contains relation 22 and way 12 only");

    const auto counts = mdb.count();
    expect(counts.removed == 3 && counts.available == 1 && counts.tracked == 1, "direct: counts are removed=3 available=1 tracked=1");

    // way 12 is still needed by the incomplete relation 22
    const auto* w12 = mdb.get(12);
    expect(w12 != nullptr && w12->id() == 12, "direct: way 12 still available");

    // ways 10 and 11 were released: must be reported as absent like any unknown id
    std::cout << "direct: get(10) after release: " << static_cast<const void*>(mdb.get(10)) << '\n';
    expect(mdb.get(10) == nullptr, "direct: get(10) after release must be nullptr");
    expect(mdb.get(11) == nullptr, "direct: get(11) after release must be nullptr");
    expect(mdb.get_object(10) == nullptr, "direct: get_object(10) after release must be nullptr");
}

// Variant 2: through a RelationsManager. When relation 31 is completed, it looks at way 10,
// which was a member of the already completed relation 30 only.
class Manager : public osmium::relations::RelationsManager<Manager, false, true, false> {

public:

    int completed = 0;
    bool looked_up = false;

    void complete_relation(const osmium::Relation& relation) {
        ++completed;
        for (const auto& member : relation.members()) {
            const auto* way = get_member_way(member.ref());
            expect(way != nullptr && way->id() == member.ref(), "manager: own member available in complete_relation()");
        }
        if (relation.id() == 31) {
            looked_up = true;
            const osmium::Way* way = get_member_way(10);
            std::cout << "manager: get_member_way(10) in complete_relation(31): " << static_cast<const void*>(way) << '\n';
            expect(way == nullptr, "manager: get_member_way(10) after relation 30 was completed must be nullptr");
            expect(get_member_way(99) == nullptr, "manager: unknown way 99 is absent");
        }
    }

}; // class Manager

static void manager() {
    using namespace osmium::builder::attr; // NOLINT(google-build-using-namespace)
    osmium::memory::Buffer buffer{10240};
    osmium::builder::add_way(buffer, _id(10));
    osmium::builder::add_way(buffer, _id(11));
    osmium::builder::add_relation(buffer, _id(30), _member(osmium::item_type::way, 10, "outer"));
    osmium::builder::add_relation(buffer, _id(31), _member(osmium::item_type::way, 11, "outer"));

    Manager mgr;
    osmium::apply(buffer, mgr); // first pass: relations
    mgr.prepare_for_lookup();
    osmium::apply(buffer, mgr.handler()); // second pass: members

    expect(mgr.completed == 2 && mgr.looked_up, "manager: both relations completed");
}

int main() {
    direct();
    manager();

    if (fails) {
        return 1;
    }
    std::cout << "OK\n";
    return 0;
}
