// F16: IdSetDense<uint32_t>::last() computes m_data.size() * chunk_size * 8 in T, which wraps
// to 0 once an id >= 0xfe000000 is set (128 chunks * 2^25 ids): begin() == end() and the
// iteration visits nothing although get() and size() are correct.
#include <osmium/index/id_set.hpp>

#include <cstdint>
#include <iostream>
#include <vector>

static int fails = 0;

template <typename T>
static void check(const char* what, const std::vector<T>& ids) {
    osmium::index::IdSetDense<T> set;
    for (const auto id : ids) {
        set.set(id);
    }
    std::vector<T> seen;
    for (const auto id : set) {
        seen.push_back(id);
        if (seen.size() > ids.size()) {
            break;
        }
    }
    bool all = true;
    for (const auto id : ids) {
        all = all && set.get(id);
    }
    std::cout << what << ": size()=" << set.size() << " get() finds all ids: " << (all ? "yes" : "no") << ", iteration visits " << seen.size() << " ids\n";
    if (seen != ids || !all || set.size() != ids.size()) {
        std::cerr << "FAIL: " << what << ": iteration does not give the ids in the set\n";
        ++fails;
    }
}

int main() {
    check<uint32_t>("uint32_t {1, 2, 1000000}", {1, 2, 1000000});
    check<uint32_t>("uint32_t {1, 0xfdffffff}", {1, 0xfdffffffU});
    check<uint32_t>("uint32_t {1, 0xfe000000}", {1, 0xfe000000U});
    check<uint32_t>("uint32_t {1, 0xffffffff}", {1, 0xffffffffU});
    check<uint32_t>("uint32_t {0, 7, 8, 0xfffffff7, 0xfffffff8, 0xfffffffe, 0xffffffff}", {0, 7, 8, 0xfffffff7U, 0xfffffff8U, 0xfffffffeU, 0xffffffffU});
    check<uint32_t>("uint32_t {0xffffffff}", {0xffffffffU});
    check<uint64_t>("uint64_t {1, 0xffffffff, 0x100000000, 0x100000009}", {1, 0xffffffffULL, 0x100000000ULL, 0x100000009ULL});

    {
        osmium::index::IdSetDense<uint32_t> set;
        if (set.begin() != set.end()) {
            std::cerr << "FAIL: empty set\n";
            ++fails;
        }
        set.set(0xffffffffU);
        auto it = set.begin();
        if (it == set.end() || *it != 0xffffffffU || ++it != set.end() || ++it != set.end()) {
            std::cerr << "FAIL: iterator on set with 0xffffffff\n";
            ++fails;
        }
    }

    if (fails) {
        return 1;
    }
    std::cout << "OK\n";
    return 0;
}
