// F2: O5mParser::ensure_bytes_available() returns false without re-pointing
// m_data/m_end after it erased from / appended to m_input. A valid o5m file whose
// last dataset is shorter than max_varint_length bytes is rejected.
#include <osmium/io/any_input.hpp>
#include <osmium/io/reader.hpp>
#include <osmium/memory/buffer.hpp>
#include <osmium/osm/node.hpp>

#include <cstdio>
#include <fstream>
#include <iostream>

int main() {
    // header "o5m2", one node dataset (length 7: id=1, no version info, lon=128, lat=16384), end marker
    static const unsigned char file[] = {0xff, 0xe0, 0x04, 0x6f, 0x35, 0x6d, 0x32,
                                         0x10, 0x07, 0x02, 0x00, 0x80, 0x02, 0x80, 0x80, 0x02,
                                         0xfe};
    const char* filename = "f2-replay.o5m";
    {
        std::ofstream out{filename, std::ios::binary};
        out.write(reinterpret_cast<const char*>(file), sizeof(file));
    }

    int nodes = 0;
    bool ok = true;
    try {
        osmium::io::Reader reader{filename};
        while (osmium::memory::Buffer buffer = reader.read()) {
            for (const auto& node : buffer.select<osmium::Node>()) {
                ++nodes;
                ok = ok && node.id() == 1 && node.location().x() == 128 && node.location().y() == 16384;
            }
        }
        reader.close();
    } catch (const std::exception& e) {
        std::cerr << "FAIL: valid o5m file rejected: " << e.what() << '\n';
        std::remove(filename);
        return 1;
    }
    std::remove(filename);

    if (nodes != 1 || !ok) {
        std::cerr << "FAIL: expected 1 node (id 1), got " << nodes << '\n';
        return 1;
    }
    std::cout << "OK\n";
    return 0;
}
