// F20: Bzip2Decompressor::read() (file based): when a bzip2 stream ends EXACTLY at the end of
// a 5000 byte block read by libbz2 (BZ_MAX_UNUSED), BZ2_bzReadGetUnused() reports 0 unused
// bytes although the file continues. The decompressor declares the end of the data and all
// following streams are silently dropped.
#include <osmium/io/bzip2_compression.hpp>
#include <osmium/io/detail/read_write.hpp>

#include <bzlib.h>

#include <cstdint>
#include <cstdio>
#include <fstream>
#include <iostream>
#include <string>

static std::string bz(const std::string& in) {
    std::string out(in.size() + in.size() / 50 + 700, '\0');
    unsigned int len = static_cast<unsigned int>(out.size());
    if (BZ2_bzBuffToBuffCompress(&out[0], &len, const_cast<char*>(in.data()), static_cast<unsigned int>(in.size()), 9, 0, 0) != BZ_OK) {
        std::cerr << "compress failed\n";
        std::exit(2);
    }
    out.resize(len);
    return out;
}

// Pseudo-random (nearly incompressible) printable data of the given length.
static std::string random_data(std::size_t length, uint32_t seed) {
    std::string data;
    data.reserve(length);
    uint32_t x = seed * 2654435761U + 12345U;
    while (data.size() < length) {
        x ^= x << 13U;
        x ^= x >> 17U;
        x ^= x << 5U;
        data += static_cast<char>('!' + (x % 90U));
    }
    return data;
}

// Find data that compresses to exactly the wanted number of bytes.
static std::string find_data(std::size_t wanted_compressed_size) {
    const std::size_t start = wanted_compressed_size * 8 / 10;
    for (uint32_t seed = 1; seed < 200; ++seed) {
        for (std::size_t length = start; length < wanted_compressed_size * 2; ++length) {
            const std::string data = random_data(length, seed);
            const std::size_t size = bz(data).size();
            if (size == wanted_compressed_size) {
                return data;
            }
            if (size > wanted_compressed_size + 20) {
                break;
            }
        }
    }
    std::cerr << "no data found that compresses to " << wanted_compressed_size << " bytes\n";
    std::exit(2);
}

static std::string read_file_with_decompressor(const char* filename) {
    const int fd = osmium::io::detail::open_for_reading(filename);
    osmium::io::Bzip2Decompressor decomp{fd};
    std::string all;
    while (true) {
        const std::string chunk = decomp.read();
        if (chunk.empty()) {
            break;
        }
        all += chunk;
    }
    decomp.close();
    return all;
}

static std::string read_buffer_with_decompressor(const std::string& compressed) {
    osmium::io::Bzip2BufferDecompressor decomp{compressed.data(), compressed.size()};
    std::string all;
    while (true) {
        const std::string chunk = decomp.read();
        if (chunk.empty()) {
            break;
        }
        all += chunk;
    }
    decomp.close();
    return all;
}

static int check(const char* what, const std::string& compressed, const std::string& expected) {
    const char* filename = "f20-replay.bz2";
    {
        std::ofstream out{filename, std::ios::binary};
        out << compressed;
    }
    const std::string from_file = read_file_with_decompressor(filename);
    const std::string from_buffer = read_buffer_with_decompressor(compressed);

    // reference: bzip2 -dc (if available)
    long reference = -1;
    if (FILE* p = popen((std::string{"bzip2 -dc "} + filename + " 2>/dev/null | wc -c").c_str(), "r")) {
        if (fscanf(p, "%ld", &reference) != 1) {
            reference = -1;
        }
        pclose(p);
    }
    std::remove(filename);

    std::cout << what << ": compressed " << compressed.size() << " bytes, expected " << expected.size()
              << ", bzip2 -dc " << reference << ", buffer decompressor " << from_buffer.size()
              << ", file decompressor " << from_file.size() << " bytes\n";
    if (from_file != expected) {
        std::cerr << "FAIL: " << what << ": file decompressor returned " << from_file.size() << " bytes instead of " << expected.size() << '\n';
        return 1;
    }
    return 0;
}

int main() {
    const std::string a5000 = find_data(5000);
    const std::string a10000 = find_data(10000);
    const std::string a4999 = find_data(4999);
    const std::string a5001 = find_data(5001);
    const std::string b = "second stream: n2 v1 dV c1 t i1 u T x2 y2\n";
    const std::string c = random_data(20000, 4711);

    int result = 0;
    result |= check("single stream of 5000 bytes", bz(a5000), a5000);
    result |= check("4999 byte stream + stream", bz(a4999) + bz(b), a4999 + b);
    result |= check("5001 byte stream + stream", bz(a5001) + bz(b), a5001 + b);
    result |= check("5000 byte stream + stream", bz(a5000) + bz(b), a5000 + b);
    result |= check("10000 byte stream + stream", bz(a10000) + bz(b), a10000 + b);
    result |= check("5000 + 5000 + 10000 byte streams + stream", bz(a5000) + bz(a5000) + bz(a10000) + bz(c), a5000 + a5000 + a10000 + c);
    result |= check("5000 byte stream + empty stream + stream", bz(a5000) + bz("") + bz(b), a5000 + b);

    if (result) {
        return 1;
    }
    std::cout << "OK\n";
    return 0;
}
