#!/bin/sh
# usage: build_replay.sh <include-dir>
set -e
cd "$(dirname "$0")"
g++ -std=c++14 -O1 -g -DOSMIUM_WITH_LZ4 -D_FILE_OFFSET_BITS=64 -I"$1" replay.cpp -o replay -pthread -lz -lbz2 -lexpat -llz4
