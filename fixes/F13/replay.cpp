// F13: double2string(): the result of snprintf() into buffer[20] is only checked with an
// assert. With NDEBUG a longer result is truncated, a NUL byte is copied to the output
// and (len > 20) the stripping loop and copy_n read beyond the buffer.
// F14: trailing zeros are stripped even if there is no decimal point (precision 0):
// double2string(s, 10.0, 0) == "1".
// (Build with -DNDEBUG, otherwise F13 shows up as assertion failure.)
#include <osmium/geom/mercator_projection.hpp>
#include <osmium/geom/wkt.hpp>
#include <osmium/osm/location.hpp>
#include <osmium/util/double.hpp>

#include <cstdio>
#include <iostream>
#include <limits>
#include <string>

static int fails = 0;

static void check(double value, int precision, const std::string& expected) {
    std::string s;
    osmium::double2string(s, value, precision);
    if (s != expected) {
        std::string printable;
        for (const char c : s) {
            if (c == '\0') {
                printable += "\\0";
            } else {
                printable += c;
            }
        }
        std::cerr << "FAIL: double2string(" << value << ", " << precision << ") gives '" << printable << "' (" << s.size() << " bytes), expected '" << expected << "'\n";
        ++fails;
    }
}

static void check_wkt(const char* what, const std::string& wkt, const std::string& expected) {
    if (wkt != expected) {
        std::cerr << "FAIL: " << what << " gives '" << wkt << "' (" << wkt.size() << " bytes), expected '" << expected << "'\n";
        ++fails;
    }
}

int main() {
    // unchanged behaviour
    check(1.123, 7, "1.123");
    check(1.0, 7, "1");
    check(0.0, 7, "0");
    check(0.02, 7, "0.02");
    check(-0.02, 7, "-0.02");
    check(-0.0, 7, "-0");
    check(100.0, 7, "100");
    check(100.5, 1, "100.5");
    check(-179.9999999, 7, "-179.9999999");

    // F14
    check(10.0, 0, "10");
    check(100.0, 0, "100");
    check(20.4, 0, "20");
    check(-1230.0, 0, "-1230");

    // F13
    check(-20037508.34, 10, "-20037508.3399999999");
    check(20037508.342789244, 10, "20037508.3427892439");
    check(1234.5, 17, "1234.5");
    check(-123456789012.25, 17, "-123456789012.25");
    check(1e22, 3, "10000000000000000000000");
    {
        // the double nearest to -1e300 is an integer, compare with the C library
        char buf[400];
        snprintf(buf, sizeof(buf), "%.0f", -1e300);
        check(-1e300, 17, buf);
    }
    {
        std::string s;
        osmium::double2string(s, std::numeric_limits<double>::lowest(), 17);
        if (s.size() != 310 || s.find('\0') != std::string::npos) {
            std::cerr << "FAIL: lowest double has " << s.size() << " bytes\n";
            ++fails;
        }
    }

    {
        osmium::geom::WKTFactory<osmium::geom::MercatorProjection> factory{10};
        check_wkt("mercator POINT(-180 0), precision 10", factory.create_point(osmium::Location{-180.0, 0.0}), "POINT(-20037508.3427892439 0)");
    }
    {
        osmium::geom::WKTFactory<> factory{0};
        check_wkt("POINT(10 20), precision 0", factory.create_point(osmium::Location{10.0, 20.0}), "POINT(10 20)");
    }

    // F14 again: "0" is stripped to the empty string, reads buffer[-1]
    check(0.0, 0, "0");

    if (fails) {
        return 1;
    }
    std::cout << "OK\n";
    return 0;
}
