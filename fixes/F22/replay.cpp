// F22 replay: tile numbers at the south pole / far south are 0 (top row) instead of 2^zoom-1 (bottom row)
#include <osmium/geom/tile.hpp>
#include <osmium/osm/location.hpp>
#include <cstdio>
int main() {
    int bad = 0;
    for (uint32_t zoom : {1U, 5U, 12U, 30U}) {
        const osmium::geom::Tile a{zoom, osmium::Location{0.0, -89.0}};
        const osmium::geom::Tile b{zoom, osmium::Location{0.0, -90.0}};
        const osmium::geom::Tile c{zoom, osmium::Location{0.0, -89.95}};
        std::printf("zoom %u: y(-89)=%u y(-89.95)=%u y(-90)=%u (max %u)\n", zoom, a.y, c.y, b.y, (1U << zoom) - 1);
        if (b.y < a.y || c.y < a.y) { ++bad; }
    }
    std::printf(bad ? "FAIL: tile y decreases moving south\n" : "OK\n");
    return bad ? 1 : 0;
}
