// F6: detail::string_to_location_coordinate(): the scale loop `result *= 10` is
// unbounded when an exponent is given. "1e63" overflows int64_t (UB), wraps to 0 and
// is accepted as coordinate 0 instead of throwing osmium::invalid_location.
#include <osmium/osm/location.hpp>

#include <iostream>
#include <string>

static int fails = 0;

static void expect_invalid(const char* str) {
    try {
        osmium::Location loc;
        loc.set_lon(str);
        std::cerr << "FAIL: '" << str << "' accepted as lon with x=" << loc.x() << '\n';
        ++fails;
    } catch (const osmium::invalid_location&) {
    }
}

static void expect_valid(const char* str, int32_t x) {
    try {
        osmium::Location loc;
        loc.set_lon(str);
        if (loc.x() != x) {
            std::cerr << "FAIL: '" << str << "' gives x=" << loc.x() << ", expected " << x << '\n';
            ++fails;
        }
    } catch (const osmium::invalid_location&) {
        std::cerr << "FAIL: '" << str << "' rejected\n";
        ++fails;
    }
}

int main() {
    expect_valid("1", 10000000);
    expect_valid("1e2", 1000000000);
    expect_valid("1.5e2", 1500000000);
    expect_valid("0.0000001e9", 1000000000);
    expect_valid("214.7483647", 2147483647);
    expect_valid("21e1", 2100000000);
    expect_valid("214.74836474e0", 2147483647);
    expect_valid("2147483647.4e-7", 2147483647);
    expect_valid("0e99999", 0);
    expect_valid("1e-3", 10000);
    expect_valid("-1.8e2", -1800000000);
    expect_valid("-214.7483648", -2147483647 - 1);

    expect_invalid("214.7483648");
    expect_invalid("22e1");
    expect_invalid("-214.7483649");
    expect_invalid("214.74836475e0");
    expect_invalid("2147483647.5e-7");
    expect_invalid("1e3");
    expect_invalid("1e12");
    expect_invalid("1e20");
    expect_invalid("1e63");
    expect_invalid("1e64");
    expect_invalid("-1e63");
    expect_invalid("5e99999");
    expect_invalid("1234567890.12345678e1");

    if (fails) {
        return 1;
    }
    std::cout << "OK\n";
    return 0;
}
