// F1: ChangesetDiscussionBuilder keeps a raw pointer to the comment across an
// append that can make the buffer grow -> heap-use-after-free in add_comment_text().
#include <osmium/builder/osm_object_builder.hpp>
#include <osmium/memory/buffer.hpp>
#include <osmium/osm/changeset.hpp>

#include <cstring>
#include <iostream>
#include <string>

int main() {
    // small buffer that is allowed to grow
    osmium::memory::Buffer buffer{256, osmium::memory::Buffer::auto_grow::yes};
    const std::string user(200, 'u');
    const std::string text(300, 't');
    {
        osmium::builder::ChangesetBuilder builder{buffer};
        builder.set_id(1);
        osmium::builder::ChangesetDiscussionBuilder dbuilder{buffer, &builder};
        // appending the 200 byte user name makes the buffer grow (realloc)
        dbuilder.add_comment(osmium::Timestamp{"2020-01-01T00:00:00Z"}, 17, user.c_str());
        dbuilder.add_comment_text(text);
        dbuilder.add_comment(osmium::Timestamp{"2020-01-02T00:00:00Z"}, 18, "foo");
        dbuilder.add_comment_text("bar");
    }
    buffer.commit();

    const auto& cs = buffer.get<osmium::Changeset>(0);
    int n = 0;
    bool ok = true;
    for (const auto& comment : cs.discussion()) {
        ++n;
        if (n == 1) {
            ok = ok && comment.user() == user && comment.text() == text && comment.uid() == 17;
        } else if (n == 2) {
            ok = ok && !std::strcmp(comment.user(), "foo") && !std::strcmp(comment.text(), "bar") && comment.uid() == 18;
        }
        if (n > 2) {
            break;
        }
    }
    if (n != 2 || !ok) {
        std::cerr << "FAIL: discussion corrupted (comments seen: " << n << ")\n";
        return 1;
    }
    std::cout << "OK\n";
    return 0;
}
