// F25 replay: a node/way with changeset id 4294967295 (largest changeset_id_type value) is written to PBF without
// error, but the Reader rejects the file ("object changeset_id must be between 0 and 2^32-1").
#include <osmium/builder/attr.hpp>
#include <osmium/io/pbf_input.hpp>
#include <osmium/io/pbf_output.hpp>
#include <osmium/io/reader.hpp>
#include <osmium/io/writer.hpp>
#include <osmium/memory/buffer.hpp>
#include <osmium/osm/node.hpp>
#include <osmium/osm/way.hpp>
#include <cstdio>
#include <string>
#include <unistd.h>

static int run(const char* opt) {
    using namespace osmium::builder::attr;
    const std::string fn = "/var/tmp/f25_replay_" + std::to_string(::getpid()) + ".osm.pbf";
    {
        osmium::memory::Buffer buffer{1024, osmium::memory::Buffer::auto_grow::yes};
        osmium::builder::add_node(buffer, _id(1), _version(1), _cid(4294967295U), _uid(1), _user("u"), _location(1.0, 2.0));
        osmium::builder::add_way(buffer, _id(2), _version(1), _cid(4294967295U), _uid(1), _user("u"), _nodes({1}));
        osmium::io::File file{fn};
        file.set("pbf_dense_nodes", opt);
        osmium::io::Writer writer{file, osmium::io::overwrite::allow};
        writer(std::move(buffer));
        writer.close();
    }
    int bad = 0;
    try {
        osmium::io::Reader reader{fn};
        unsigned n = 0;
        while (auto b = reader.read()) {
            for (const auto& o : b.select<osmium::OSMObject>()) {
                ++n;
                if (o.changeset() != 4294967295U) { std::printf("wrong changeset %u\n", o.changeset()); ++bad; }
            }
        }
        reader.close();
        if (n != 2) { std::printf("read %u objects\n", n); ++bad; }
    } catch (const std::exception& e) {
        std::printf("dense_nodes=%s: Reader rejects what the Writer wrote: %s\n", opt, e.what());
        ++bad;
    }
    ::unlink(fn.c_str());
    return bad;
}

int main() {
    const int bad = run("true") + run("false");
    std::printf(bad ? "FAIL\n" : "OK\n");
    return bad ? 1 : 0;
}
