// F10: PBFParser::parse_data_blobs() (reading from the fd) never checks whether the
// output queue has been shut down. After Reader::close() (or ~Reader) the parser thread
// keeps reading and decoding the whole rest of the file, ~Reader() blocks until EOF.
//
// Measured here with the rchar counter in /proc/self/io: bytes read by this process
// from the call of Reader::close() (after a single read()) until ~Reader() is done.
#include <osmium/builder/osm_object_builder.hpp>
#include <osmium/io/pbf_input.hpp>
#include <osmium/io/pbf_output.hpp>
#include <osmium/io/reader.hpp>
#include <osmium/io/writer.hpp>
#include <osmium/memory/buffer.hpp>
#include <osmium/util/file.hpp>

#include <chrono>
#include <cstdio>
#include <fstream>
#include <iostream>
#include <string>

static long long rchar() {
    std::ifstream in{"/proc/self/io"};
    std::string key;
    long long value = 0;
    while (in >> key >> value) {
        if (key == "rchar:") {
            return value;
        }
    }
    std::cerr << "can not read /proc/self/io\n";
    std::exit(2);
}

static void write_file(const char* filename, const int num_nodes) {
    osmium::io::File file{filename, "pbf,pbf_compression=none"};
    osmium::io::Writer writer{file, osmium::io::overwrite::allow};
    osmium::memory::Buffer buffer{1024UL * 1024UL};
    for (int i = 1; i <= num_nodes; ++i) {
        {
            osmium::builder::NodeBuilder builder{buffer};
            builder.set_id(i).set_version(1).set_location(osmium::Location{static_cast<int32_t>((i * 7919LL) % 1800000000LL), static_cast<int32_t>((i * 104729LL) % 900000000LL)});
        }
        buffer.commit();
        if (buffer.committed() > 900UL * 1024UL) {
            writer(std::move(buffer));
            buffer = osmium::memory::Buffer{1024UL * 1024UL};
        }
    }
    writer(std::move(buffer));
    writer.close();
}

int main() {
    const char* filename = "f10-replay.osm.pbf";

    write_file(filename, 2400000); // 300 blobs with 8000 nodes each
    const long long file_size = static_cast<long long>(osmium::file_size(filename));

    long long read_before_close = 0;
    long long read_after_close = 0;
    double seconds = 0;
    {
        const long long r0 = rchar();
        long long r1 = 0;
        std::chrono::steady_clock::time_point t1;
        {
            osmium::io::Reader reader{filename};
            const osmium::memory::Buffer buffer = reader.read();
            if (!buffer) {
                std::cerr << "FAIL: no data\n";
                return 1;
            }
            r1 = rchar();
            t1 = std::chrono::steady_clock::now();
            reader.close();
            // the destructor of the Reader joins the parser thread
        }
        const auto t2 = std::chrono::steady_clock::now();
        const long long r2 = rchar();
        read_before_close = r1 - r0;
        read_after_close = r2 - r1;
        seconds = std::chrono::duration<double>(t2 - t1).count();
    }
    std::remove(filename);

    std::cout << "file size: " << file_size << " bytes\n"
              << "read until first read() returned: " << read_before_close << " bytes\n"
              << "read in close() and ~Reader(): " << read_after_close << " bytes (" << (100 * read_after_close / file_size) << "% of file) in " << seconds << "s" << std::endl;

    if (read_after_close > file_size / 4) {
        std::cerr << "FAIL: parser kept reading the file after Reader::close() was called\n";
        return 1;
    }

    // reading the complete file still works
    write_file(filename, 100000);
    long long count = 0;
    {
        osmium::io::Reader reader{filename};
        while (osmium::memory::Buffer buffer = reader.read()) {
            for (auto it = buffer.begin(); it != buffer.end(); ++it) {
                ++count;
            }
        }
        reader.close();
    }
    std::remove(filename);
    if (count != 100000) {
        std::cerr << "FAIL: expected 100000 nodes when reading complete file, got " << count << '\n';
        return 1;
    }

    std::cout << "OK\n";
    return 0;
}
