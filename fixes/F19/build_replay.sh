#!/bin/sh
set -e
INC="${1:?usage: build_replay.sh <include-dir>}"
DIR="$(cd "$(dirname "$0")" && pwd)"
g++ -std=c++14 -O1 -g -DOSMIUM_WITH_LZ4 -D_FILE_OFFSET_BITS=64 -I"$INC" "$DIR/replay.cpp" -o "$DIR/replay" -pthread -lz -lbz2 -lexpat -llz4
cd "$DIR" && ./replay
