// F19: a PBF file written with file compression (.osm.pbf.gz / .osm.pbf.bz2) could not be read back from a file.
#include <osmium/io/any_input.hpp>
#include <osmium/io/any_output.hpp>
#include <osmium/builder/attr.hpp>
#include <iostream>
int main() {
    using namespace osmium::builder::attr;
    int bad = 0;
    for (const char* fn : {"f19.osm.pbf.gz", "f19.osm.pbf.bz2", "f19.osm.pbf"}) {
        {
            osmium::io::Writer w{fn, osmium::io::overwrite::allow};
            osmium::memory::Buffer b{1024};
            osmium::builder::add_node(b, _id(1), _location(1.0, 2.0));
            w(std::move(b));
            w.close();
        }
        try {
            osmium::io::Reader r{fn};
            std::size_t n = 0;
            while (auto b = r.read()) { for (auto& i : b) { (void)i; ++n; } }
            r.close();
            std::cout << fn << ": read " << n << "\n";
            if (n != 1) { ++bad; }
        } catch (const std::exception& e) {
            std::cout << fn << ": EXCEPTION " << e.what() << "\n";
            ++bad;
        }
        std::remove(fn);
    }
    return bad ? 1 : 0;
}
