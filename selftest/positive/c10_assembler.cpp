// Positive example for the C10 rules (never part of /repo): a miniature of libosmium's area assembler in which every
// structural clause that osmlint/rules/c10.py decides is broken once.  The names mirror libosmium's because the rules
// anchor on the qualified names of the structural entities; nothing from /repo is included.
#include <algorithm>
#include <cstdint>
#include <iterator>
#include <list>
#include <utility>
#include <vector>

namespace osmium {

    class Location {
        int32_t m_x = 0;
        int32_t m_y = 0;
    public:
        constexpr Location() noexcept = default;
        constexpr Location(int32_t x, int32_t y) noexcept : m_x(x), m_y(y) {}
        constexpr int32_t x() const noexcept { return m_x; }
        constexpr int32_t y() const noexcept { return m_y; }
    };

    constexpr bool operator==(const Location& lhs, const Location& rhs) noexcept { return lhs.x() == rhs.x() && lhs.y() == rhs.y(); }
    constexpr bool operator!=(const Location& lhs, const Location& rhs) noexcept { return !(lhs == rhs); }
    constexpr bool operator<(const Location& lhs, const Location& rhs) noexcept { return (lhs.x() == rhs.x() && lhs.y() < rhs.y()) || lhs.x() < rhs.x(); }

    class NodeRef {
        int64_t m_ref = 0;
        Location m_location;
    public:
        NodeRef() noexcept = default;
        NodeRef(int64_t ref, const Location& location) noexcept : m_ref(ref), m_location(location) {}
        int64_t ref() const noexcept { return m_ref; }
        Location location() const noexcept { return m_location; }
    };

    namespace memory {
        class Buffer {
        public:
            void commit();
            void rollback();
        };
    }

    class OuterRing {};
    class InnerRing {};

    namespace builder {
        class AreaBuilder {
        public:
            explicit AreaBuilder(osmium::memory::Buffer&) {}
        };
        template <typename T>
        class NodeRefListBuilder {
        public:
            explicit NodeRefListBuilder(AreaBuilder&) {}
        };
    }

    namespace area {

        struct area_stats {
            uint64_t duplicate_segments = 0;
            uint64_t intersections = 0;
            uint64_t open_rings = 0;
        };

        class ProblemReporter {
        public:
            virtual ~ProblemReporter() = default;
            virtual void report_duplicate_segment(const NodeRef&, const NodeRef&) {}
            virtual void report_intersection(const Location&) {}
            virtual void report_ring_not_closed(const NodeRef&) {}
        };

        struct AssemblerConfig {
            ProblemReporter* problem_reporter = nullptr;
            bool create_empty_areas = false;
        };

        namespace detail {

            class NodeRefSegment;

            class ProtoRing {
                std::vector<NodeRefSegment*> m_segments;
                std::vector<ProtoRing*> m_inner;
                ProtoRing* m_outer_ring = nullptr;
                int64_t m_sum = 0;
            public:
                bool is_outer() const noexcept { return !m_outer_ring; }
                const std::vector<ProtoRing*>& inner_rings() const noexcept { return m_inner; }
                void add_inner_ring(ProtoRing* ring) { m_inner.push_back(ring); }
                void set_outer_ring(ProtoRing* outer_ring) noexcept { m_outer_ring = outer_ring; }
                void reset() { m_outer_ring = nullptr; }                                          // A2: inner rings kept
                int64_t sum() const noexcept { return m_sum; }
                inline void add_segment_back(NodeRefSegment* segment);
                inline void join_backward(ProtoRing& other);
                inline void reverse();
            };

            class NodeRefSegment {
                NodeRef m_first;
                NodeRef m_second;
                ProtoRing* m_ring = nullptr;
                bool m_reverse = false;
                bool m_direction_done = false;
            public:
                NodeRefSegment() noexcept = default;
                NodeRefSegment(const NodeRef& nr1, const NodeRef& nr2) noexcept :
                    m_first(nr1.location() < nr2.location() ? nr1 : nr2),
                    m_second(nr1.location() < nr2.location() ? nr1 : nr2) {                      // G1: second end point lost
                }
                const NodeRef& first() const noexcept { return m_first; }
                const NodeRef& second() const noexcept { return m_second; }
                ProtoRing* ring() const noexcept { return m_ring; }
                bool is_reverse() const noexcept { return m_reverse; }
                bool is_done() const noexcept { return m_ring != nullptr; }
                void set_ring(ProtoRing* ring) noexcept { m_ring = ring; }
                bool is_direction_done() const noexcept { return m_direction_done; }
                void mark_direction_done() noexcept { m_direction_done = true; }
                void mark_direction_not_done() noexcept { m_direction_done = false; }
                void reverse() noexcept { m_reverse = !m_reverse; }
                int64_t det() const noexcept {
                    const Location a = m_reverse ? m_second.location() : m_first.location();
                    const Location b = m_reverse ? m_first.location() : m_second.location();
                    return static_cast<int64_t>(a.x()) * b.y() - static_cast<int64_t>(a.y()) * b.x();
                }
                void flip() noexcept {                                                           // S3: key fields written
                    const NodeRef tmp = m_first;
                    m_first = m_second;
                    m_second = tmp;
                }
            };

            inline void ProtoRing::add_segment_back(NodeRefSegment* segment) {
                m_segments.push_back(segment);
                segment->set_ring(this);
                m_sum += segment->det();
            }

            inline void ProtoRing::join_backward(ProtoRing& other) {
                for (auto it = other.m_segments.rbegin(); it != other.m_segments.rend(); ++it) {
                    add_segment_back(*it);
                    (*it)->reverse();                                                            // A1: reversed after det() was added
                }
            }

            inline void ProtoRing::reverse() {
                for (NodeRefSegment* segment : m_segments) {
                    segment->reverse();
                }
                std::reverse(m_segments.begin(), m_segments.end());                              // A1: sum not negated
            }

            inline bool operator==(const NodeRefSegment& lhs, const NodeRefSegment& rhs) noexcept {
                return lhs.first().location() == rhs.first().location() && lhs.second().location() == rhs.second().location();
            }

            inline bool operator<(const NodeRefSegment& lhs, const NodeRefSegment& rhs) noexcept {
                return lhs.second().location() < rhs.second().location();                         // G2: not keyed by first()
            }

            inline bool outside_x_range(const NodeRefSegment& s1, const NodeRefSegment& s2) noexcept {
                return s1.first().location().x() >= s2.second().location().x();                  // G3: closed ranges touch
            }

            bool calculate_intersection(const NodeRefSegment& s1, const NodeRefSegment& s2) noexcept;

            class SegmentList {
                std::vector<NodeRefSegment> m_segments;
            public:
                std::size_t size() const noexcept { return m_segments.size(); }
                NodeRefSegment& front() { return m_segments.front(); }
                NodeRefSegment& back() { return m_segments.back(); }
                const NodeRefSegment& operator[](std::size_t n) const noexcept { return m_segments[n]; }
                NodeRefSegment& operator[](std::size_t n) noexcept { return m_segments[n]; }
                void add(const NodeRef& a, const NodeRef& b) {
                    if (a.ref() != b.ref()) {                                                    // G5: ids differ, locations may not
                        m_segments.emplace_back(a, b);
                    }
                }
                void sort() { std::sort(m_segments.begin(), m_segments.end()); }

                void erase_duplicate_segments(ProblemReporter* problem_reporter, uint64_t& duplicate_segments) {
                    while (true) {
                        auto it = std::adjacent_find(m_segments.begin(), m_segments.end());
                        if (it == m_segments.end()) {
                            break;
                        }
                        ++duplicate_segments;                                                    // P3: counted, never reported
                        (void)problem_reporter;
                        m_segments.erase(it, it + 1);                                            // D1: one copy survives
                    }
                }

                uint32_t find_intersections(ProblemReporter* problem_reporter) const {
                    uint32_t found_intersections = 0;
                    for (auto it1 = m_segments.cbegin(); it1 != m_segments.cend(); ++it1) {
                        const NodeRefSegment& s1 = *it1;
                        for (auto it2 = it1 + 1; it2 != m_segments.cend(); ++it2) {
                            const NodeRefSegment& s2 = *it2;
                            if (outside_x_range(s2, s1)) {
                                break;
                            }
                            if (calculate_intersection(s1, s2)) {
                                ++found_intersections;
                                if (problem_reporter) {
                                    problem_reporter->report_intersection(s1.first().location());
                                }
                            }
                        }
                    }
                    return found_intersections;
                }
            };

            class BasicAssembler {

                struct slocation {
                    enum { invalid_item = 1U << 30U };
                    uint32_t item;
                    bool reverse;
                    slocation() noexcept : item(invalid_item), reverse(false) {}
                    slocation(uint32_t n, bool r) noexcept : item(n), reverse(r) {}
                    Location location(const SegmentList& segment_list) const noexcept {
                        const auto& segment = segment_list[item];
                        return reverse ? segment.second().location() : segment.first().location();
                    }
                    Location location(const SegmentList& segment_list, const Location& default_location) const noexcept {
                        if (item == invalid_item) {
                            return default_location;
                        }
                        return location(segment_list);
                    }
                };

                class rings_stack_element {
                    double m_y;
                    ProtoRing* m_ring_ptr;
                public:
                    rings_stack_element(double y, ProtoRing* ring_ptr) : m_y(y), m_ring_ptr(ring_ptr) {}
                    ProtoRing* ring_ptr() noexcept { return m_ring_ptr; }
                    bool operator==(const rings_stack_element& rhs) const noexcept { return m_ring_ptr == rhs.m_ring_ptr; }
                    bool operator<(const rings_stack_element& rhs) const noexcept { return m_y < rhs.m_y; }
                };

                const AssemblerConfig& m_config;
                SegmentList m_segment_list;
                std::list<ProtoRing> m_rings;
                std::vector<slocation> m_locations;
                std::vector<Location> m_split_locations;
                area_stats m_stats;

                void create_locations_list() {
                    for (uint32_t n = 0; n < static_cast<uint32_t>(m_segment_list.size()); ++n) {
                        m_locations.emplace_back(n, false);
                        m_locations.emplace_back(n, true);
                    }
                    std::stable_sort(m_locations.begin(), m_locations.end(), [](const slocation& lhs, const slocation& rhs) {
                        return lhs.item < rhs.item;                                              // S1: searched by location
                    });
                }

                bool find_split_locations() {
                    Location previous_location;
                    for (auto it = m_locations.cbegin(); it != m_locations.cend(); ++it) {
                        const Location loc = it->location(m_segment_list);
                        if (std::next(it) == m_locations.cend() || loc != std::next(it)->location(m_segment_list)) {
                            ++m_stats.open_rings;                                                // P3: not reported
                        } else if (loc == previous_location) {
                            m_split_locations.push_back(previous_location);
                        }
                        previous_location = loc;
                    }
                    return true;                                                                 // P2: open rings accepted
                }

                struct candidate {
                    int64_t sum;
                };

                void keep_extremes(std::vector<candidate>& candidates, const candidate& c) {
                    if (c.sum < candidates.front().sum) {
                        candidates.front() = c;
                    } else if (c.sum > candidates.front().sum) {                                 // A3: compares with the wrong slot
                        candidates.back() = c;
                    }
                }

                struct ring_end {
                    Location location;
                    int ring;
                    bool operator==(const ring_end& other) const noexcept { return location == other.location; }
                    bool operator<(const ring_end& other) const noexcept { return location < other.location; }
                };

                static std::vector<ring_end> sorted_ring_ends(const std::vector<ring_end>& in) {
                    std::vector<ring_end> ends{in};
                    std::stable_sort(ends.begin(), ends.end());
                    return ends;
                }

                bool try_to_merge(const std::vector<ring_end>& in) {
                    const std::vector<ring_end> ends = sorted_ring_ends(in);
                    auto it = ends.cbegin();
                    while (it != ends.cend()) {
                        it = std::adjacent_find(it, ends.cend());
                        if (it == ends.cend()) {
                            return false;
                        }
                        const auto after = std::next(it, 2);
                        if (after == ends.cend() || after->location != it->location) {
                            return true;
                        }
                        it = after;                                                              // S5: rest of the group looks like a pair
                    }
                    return false;
                }

                void add_new_ring(NodeRefSegment* segment) {                                      // A4: added, classified, never marked
                    ProtoRing* outer = find_enclosing_ring(segment);
                    m_rings.emplace_back();
                    m_rings.back().add_segment_back(segment);
                    if (outer) {
                        outer->add_inner_ring(&m_rings.back());
                    }
                }

                void search(std::vector<int>& visited, int node, int depth) {
                    if (depth > 3) {
                        return;
                    }
                    visited.push_back(node);
                    search(visited, node + 1, depth + 1);
                    if (depth == 0) {                                                            // A5: popped on one path only
                        visited.pop_back();
                    }
                }

                void classify_tentatively() {
                    for (auto& ring : m_rings) {
                        if (!ring.is_outer()) {
                            continue;
                        }
                        m_rings.front().add_inner_ring(&ring);
                        ring.set_outer_ring(&m_rings.front());
                    }
                    for (auto& ring : m_rings) {
                        ring.reset();
                    }
                    std::vector<candidate> candidates{candidate{0}, candidate{1}};
                    keep_extremes(candidates, candidate{2});
                }

                void create_rings_simple_case() {
                    for (const slocation& sl : m_locations) {
                        if (!m_segment_list[sl.item].is_done()) {
                            m_rings.emplace_back();
                            (void)get_next_segment(sl.location(m_segment_list));
                        }
                    }
                }

            public:

                explicit BasicAssembler(const AssemblerConfig& config) : m_config(config) {}

                NodeRefSegment* get_next_segment(const Location& location) {                      // S2: public search helper
                    auto it = std::lower_bound(m_locations.begin(), m_locations.end(), slocation{}, [this, &location](const slocation& lhs, const slocation& rhs) {
                        return lhs.location(m_segment_list, location) < rhs.location(m_segment_list, location);
                    });
                    return &m_segment_list[it->item];
                }

                ProtoRing* find_enclosing_ring(NodeRefSegment* segment) {
                    const Location location = segment->first().location();
                    int nesting = 0;
                    std::vector<rings_stack_element> outer_rings;
                    if (segment != &m_segment_list.back()) {                                     // G6: one step, not the whole group
                        ++segment;
                    }
                    while (segment >= &m_segment_list.front()) {
                        if (!segment->is_direction_done()) {
                            --segment;
                            continue;
                        }
                        const Location a = segment->first().location();
                        const Location b = segment->second().location();
                        if (segment->first().location() == location) {
                            nesting += segment->is_reverse() ? -1 : 1;
                        } else if (a.x() < location.x() && location.x() <= b.x()) {              // G4: closed at second()
                            const int64_t ax = a.x();
                            const int64_t bx = b.x();
                            const int64_t lx = location.x();
                            const int64_t ay = a.y();
                            const int64_t by = b.y();
                            const int64_t ly = location.y();
                            const auto z = ((bx - ax) * (ly - ay)) - ((by - ay) * (lx - ax));
                            if (z >= 0) {
                                nesting += segment->is_reverse() ? -1 : 1;
                                outer_rings.emplace_back(static_cast<double>(ay), segment->ring());
                            }
                        }
                        --segment;
                    }
                    if (nesting % 2 == 0) {
                        return nullptr;
                    }
                    std::stable_sort(outer_rings.begin(), outer_rings.end());                     // S4: ascending, front() is farthest
                    return outer_rings.front().ring_ptr();
                }

            protected:

                template <typename TBuilder>
                static void build_ring_from_proto_ring(osmium::builder::AreaBuilder& builder, const ProtoRing& ring) {
                    TBuilder ring_builder{builder};
                    (void)ring;
                }

                void add_rings_to_area(osmium::builder::AreaBuilder& builder) const {
                    for (const ProtoRing& ring : m_rings) {                                      // R4: roles swapped, is_outer() not tested
                        build_ring_from_proto_ring<osmium::builder::NodeRefListBuilder<osmium::InnerRing>>(builder, ring);
                        for (const ProtoRing* inner : ring.inner_rings()) {
                            build_ring_from_proto_ring<osmium::builder::NodeRefListBuilder<osmium::OuterRing>>(builder, *inner);
                        }
                    }
                }

                bool create_rings() {
                    m_segment_list.erase_duplicate_segments(m_config.problem_reporter, m_stats.duplicate_segments);
                    m_segment_list.sort();                                                       // P1: sorted after the duplicate scan
                    if (m_segment_list.size() > 3) {                                             // P1: sweep can be bypassed
                        m_stats.intersections = m_segment_list.find_intersections(m_config.problem_reporter);
                    }                                                                            // P2: count never tested
                    create_locations_list();
                    find_split_locations();
                    if (m_split_locations.size() >= 100) {                                       // P4: exactly 100 is inside the domain
                        return false;
                    }
                    create_rings_simple_case();
                    classify_tentatively();
                    add_new_ring(&m_segment_list.front());
                    (void)try_to_merge(std::vector<ring_end>{});
                    std::vector<int> visited;
                    search(visited, 0, 0);
                    return true;
                }
            };

        } // namespace detail

        class Assembler : public detail::BasicAssembler {

            bool create_area(osmium::memory::Buffer& out_buffer) {
                osmium::builder::AreaBuilder builder{out_buffer};
                const bool area_okay = create_rings();
                add_rings_to_area(builder);                                                      // R1: also after a rejection
                (void)area_okay;
                return true;                                                                     // R2
            }

        public:

            explicit Assembler(const AssemblerConfig& config) : detail::BasicAssembler(config) {}

            bool operator()(osmium::memory::Buffer& out_buffer) {
                const bool okay = create_area(out_buffer);
                out_buffer.commit();                                                             // R3: committed regardless
                return okay;
            }
        };

    } // namespace area

} // namespace osmium

void c10pos_driver(osmium::memory::Buffer& buffer) {
    osmium::area::AssemblerConfig config;
    osmium::area::Assembler assembler{config};
    (void)assembler(buffer);
    osmium::area::detail::NodeRefSegment s;
    s.flip();
    osmium::area::detail::ProtoRing r1;
    osmium::area::detail::ProtoRing r2;
    r1.join_backward(r2);
    r1.reverse();
    (void)assembler.get_next_segment(osmium::Location{});
    (void)assembler.find_enclosing_ring(&s);
}
