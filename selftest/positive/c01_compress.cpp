// Positive example for the C01 compression-layer rules: same qualified names as osmium/io/{reader,writer,compression}.hpp,
// deliberately wrong.  Never part of /repo, never executed; the rules must report it on every run.
#include <cstddef>
#include <memory>
#include <utility>

namespace osmium {

    namespace thread {

        class thread_handler {
        public:
            thread_handler() = default;
            template <typename TFunction, typename... TArgs>
            explicit thread_handler(TFunction&&, TArgs&&...) {}
        };

    } // namespace thread

    namespace io {

        enum class file_compression { none = 0, gzip = 1, bzip2 = 2 };
        enum class file_format { unknown = 0, xml = 1, pbf = 2 };

        class File {
        public:
            file_compression compression() const noexcept { return file_compression::none; }
            file_format format() const noexcept { return file_format::pbf; }
        };

        class Compressor {
        public:
            virtual ~Compressor() = default;
        };

        class NoCompressor final : public Compressor {
        public:
            explicit NoCompressor(int) {}
        };

        class Decompressor {
        public:
            virtual ~Decompressor() = default;
            virtual bool is_real() const noexcept { return true; }
        };

        class DummyDecompressor final : public Decompressor {
        public:
            bool is_real() const noexcept override { return false; }
        };

        class CompressionFactory {
        public:
            static CompressionFactory& instance() { static CompressionFactory f; return f; }
            std::unique_ptr<Compressor> create_compressor(file_compression, int) const { return nullptr; }
            std::unique_ptr<Decompressor> create_decompressor(file_compression, int) const { return nullptr; }
        };

        class Writer {

            std::unique_ptr<Compressor> m_compressor;

        public:

            Writer(const File& file, int fd) {
                if (file.format() == file_format::pbf) {
                    m_compressor = std::unique_ptr<Compressor>{new NoCompressor{fd}};  // writer-compressor-honours-compression
                } else {
                    m_compressor = CompressionFactory::instance().create_compressor(file_compression::none, fd);  // same rule: constant
                }
            }

        };

        class Reader {

            int m_fd;
            std::unique_ptr<Decompressor> m_decompressor;
            osmium::thread::thread_handler m_thread;

            static void parser_thread(int) {}

            static std::unique_ptr<Decompressor> make_decompressor(const File& file, int fd) {
                if (file.format() == file_format::pbf) {
                    return std::unique_ptr<Decompressor>{new DummyDecompressor{}};  // reader-decompressor-honours-compression
                }
                return CompressionFactory::instance().create_decompressor(file.compression(), fd);
            }

        public:

            Reader(const File& file, int fd) :
                m_fd(fd),
                m_decompressor(make_decompressor(file, m_fd)) {
                const int fd_for_parser = m_decompressor->is_real() ? m_fd : -1;  // reader-fd-for-parser-only-if-not-real
                m_thread = osmium::thread::thread_handler{parser_thread, fd_for_parser};
            }

        };

        inline void c01_positive_compress_driver(const File& file) {
            Writer w{file, 1};
            Reader r{file, 0};
        }

    } // namespace io

} // namespace osmium
