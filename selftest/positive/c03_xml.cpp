// Positive example for the C03 typestate rules of the XML state machine (same qualified names as the library,
// deliberately broken; never part of /repo, never executed).
#include <cstring>
#include <memory>
#include <vector>

namespace osmium {

namespace memory {
class Buffer {
public:
    void commit() {}
};
} // namespace memory

namespace builder {

class Builder {
    osmium::memory::Buffer* m_buffer;
    Builder* m_parent;
public:
    explicit Builder(osmium::memory::Buffer& buffer, Builder* parent = nullptr) : m_buffer(&buffer), m_parent(parent) {}
    osmium::memory::Buffer& buffer() noexcept { return *m_buffer; }
    void add_padding() {}
};

class WayBuilder : public Builder {
public:
    explicit WayBuilder(osmium::memory::Buffer& buffer) : Builder(buffer) {}
};

class TagListBuilder : public Builder {
public:
    explicit TagListBuilder(Builder& parent) : Builder(parent.buffer(), &parent) {}
    ~TagListBuilder() { add_padding(); }
    void add_tag(const char*, const char*) {}
};

class WayNodeListBuilder : public Builder {
public:
    explicit WayNodeListBuilder(Builder& parent) : Builder(parent.buffer(), &parent) {}
    ~WayNodeListBuilder() { add_padding(); }
    void add_node_ref(long) {}
};

class ChangesetDiscussionBuilder : public Builder {
public:
    explicit ChangesetDiscussionBuilder(Builder& parent) : Builder(parent.buffer(), &parent) {}
    void add_comment(long, unsigned, const char*) {}
    void add_comment_text(const char*) {}
};

} // namespace builder

namespace io { namespace detail {

class XMLParser {

    enum class context { osm, way, tag, nd, discussion, comment, text, other };

    std::vector<context> m_context_stack;
    osmium::memory::Buffer m_buffer;

    std::unique_ptr<osmium::builder::WayNodeListBuilder> m_wnl_builder;    // TS-order: declared before the builder it is constructed on
    std::unique_ptr<osmium::builder::WayBuilder> m_way_builder;
    std::unique_ptr<osmium::builder::TagListBuilder> m_tl_builder;
    std::unique_ptr<osmium::builder::ChangesetDiscussionBuilder> m_changeset_discussion_builder;

    osmium::memory::Buffer& buffer() noexcept { return m_buffer; }

    void get_tag(osmium::builder::Builder& builder, const char** attrs) {
        if (!m_tl_builder) {
            m_tl_builder = std::make_unique<osmium::builder::TagListBuilder>(builder);
        }
        m_tl_builder->add_tag(attrs[0], attrs[1]);
    }

    void data_level_element(const char* element) {
        if (!std::strcmp(element, "way")) {
            m_context_stack.push_back(context::way);
            m_way_builder = std::make_unique<osmium::builder::WayBuilder>(buffer());
            return;
        }
        m_context_stack.push_back(context::other);
    }

public:

    void start_element(const char* element, const char** attrs) {
        switch (m_context_stack.back()) {
            case context::osm:
                data_level_element(element);
                break;
            case context::way:
                if (!std::strcmp(element, "nd")) {
                    m_context_stack.push_back(context::nd);
                    m_tl_builder.reset();
                    if (!m_wnl_builder) {
                        m_wnl_builder = std::make_unique<osmium::builder::WayNodeListBuilder>(*m_way_builder);
                    }
                    m_wnl_builder->add_node_ref(1);
                } else {
                    m_context_stack.push_back(context::tag);
                    get_tag(*m_way_builder, attrs);         // TS-sibling: the node list builder may still be open
                }
                break;
            case context::discussion:
                m_context_stack.push_back(context::comment);
                m_changeset_discussion_builder->add_comment(0, 0, "");
                break;
            case context::comment:
                m_context_stack.push_back(context::text);
                break;
            case context::text:
            case context::tag:
            case context::nd:
            case context::other:
                break;
        }
    }

    void end_element(const char*) {
        switch (m_context_stack.back()) {
            case context::osm:
                break;
            case context::way:
                buffer().commit();                          // TS-end: commit before the builders are closed
                m_way_builder.reset();                      // TS-end: parent first
                m_wnl_builder.reset();
                break;                                      // TS-end: tag list builder never reset
            case context::discussion:
            case context::comment:                          // TS-comment: obligation not closed here ...
                break;
            case context::text:                             // ... but at the end of every <text>
                m_changeset_discussion_builder->add_comment_text("");
                break;
            case context::tag:
            case context::nd:
            case context::other:
                break;
        }
        m_context_stack.pop_back();
    }
};

}} // namespace io::detail

} // namespace osmium

void verif_c03_xml_positive(osmium::io::detail::XMLParser& p, const char** a) {
    p.start_element("way", a);
    p.end_element("way");
}
