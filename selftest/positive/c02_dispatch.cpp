// Positive example for the C02 PBF dispatch rules: switches over tag_and_type() that lose or double-consume fields.
// Never part of /repo, never executed; the rules must report it on every run.
#include <protozero/pbf_message.hpp>

#include <cstdint>
#include <string>

namespace c02_positive {

    enum class Msg : protozero::pbf_tag_type {
        required_sint64_id   = 1,
        optional_int32_ver   = 2,   // case consumes only when wanted            -> pbf-field-consumed-once
        optional_int64_ts    = 3,   // consumed twice on one path                 -> pbf-field-consumed-once
        optional_string_name = 4,   // dispatched by read_a only                  -> pbf-sibling-switches-agree
        optional_int32_never = 5    // declared by the format, never dispatched   -> pbf-spec-field-dispatched
    };

    enum class Sub : protozero::pbf_tag_type {
        repeated_bytes_s = 1
    };

    // no default at all                                                           -> pbf-unknown-field-skipped
    inline int64_t read_a(const std::string& data, bool want) {
        int64_t sum = 0;
        protozero::pbf_message<Msg> m{data};
        while (m.next()) {
            switch (m.tag_and_type()) {
                case protozero::tag_and_type(Msg::required_sint64_id, protozero::pbf_wire_type::varint):
                    sum += m.get_sint64();
                    break;
                case protozero::tag_and_type(Msg::optional_int32_ver, protozero::pbf_wire_type::varint):
                    if (want) {
                        sum += m.get_int32();
                    }
                    break;
                case protozero::tag_and_type(Msg::optional_int64_ts, protozero::pbf_wire_type::varint):
                    sum += m.get_int64();
                    if (!want) {
                        m.skip();
                    }
                    break;
                case protozero::tag_and_type(Msg::optional_string_name, protozero::pbf_wire_type::length_delimited):
                    sum += static_cast<int64_t>(m.get_view().size());
                    break;
            }
        }
        return sum;
    }

    // default decodes instead of skipping                                          -> pbf-unknown-field-skipped
    inline int64_t read_b(const std::string& data) {
        int64_t sum = 0;
        protozero::pbf_message<Msg> m{data};
        while (m.next()) {
            switch (m.tag_and_type()) {
                case protozero::tag_and_type(Msg::required_sint64_id, protozero::pbf_wire_type::varint):
                    sum += m.get_sint64();
                    break;
                case protozero::tag_and_type(Msg::optional_int32_ver, protozero::pbf_wire_type::varint):
                    sum += m.get_int32();
                    break;
                case protozero::tag_and_type(Msg::optional_int64_ts, protozero::pbf_wire_type::varint):
                    sum += m.get_int64();
                    break;
                default:
                    sum += static_cast<int64_t>(m.get_view().size());
            }
        }
        return sum;
    }

    // while (next(TAG, WIRE)) body that does not always consume                     -> pbf-field-consumed-once
    inline int64_t read_c(const std::string& data, bool want) {
        int64_t sum = 0;
        protozero::pbf_message<Sub> m{data};
        while (m.next(Sub::repeated_bytes_s, protozero::pbf_wire_type::length_delimited)) {
            if (want) {
                sum += static_cast<int64_t>(m.get_view().size());
            }
        }
        return sum;
    }

    inline int64_t driver(const std::string& d) {
        return read_a(d, true) + read_b(d) + read_c(d, false);
    }

} // namespace c02_positive
