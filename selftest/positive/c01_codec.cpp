// Positive example for the C01 PBF table / gate rules: a deliberately mismatched writer/reader pair.
// Never part of /repo, never executed; the rules must report it on every run.
#include <osmium/io/detail/pbf_decoder.hpp>  // varint_range
#include <osmium/osm/metadata_options.hpp>
#include <osmium/util/delta.hpp>

#include <protozero/pbf_builder.hpp>
#include <protozero/pbf_message.hpp>

#include <cstdint>
#include <string>
#include <vector>

namespace c01_positive {

    enum class Msg : protozero::pbf_tag_type {
        required_sint64_id  = 1,  // written with add_int64                 -> pbf-writer-kind-matches-proto
        packed_sint64_refs  = 2,  // written delta coded, read without      -> pbf-delta-agrees
        optional_int32_ver  = 3,  // never decoded                          -> pbf-emitted-field-decoded
        required_int64_ts   = 4,  // read with get_sint64                   -> pbf-reader-kind-matches-proto
        optional_Info_info  = 5,
        packed_sint64_wide  = 6   // delta computed in 32 bits                -> pbf-delta-width
    };

    enum class Info : protozero::pbf_tag_type {
        optional_int32_uid  = 1,  // gated by user()                        -> info-field-gated-by-own-option
        packed_sint64_col   = 2   // pushed under version(), serialised under timestamp() -> dense-column-gates-agree
    };

    struct options {
        osmium::metadata_options add_metadata;
        bool add_visible_flag = false;
    };

    class Writer {

        std::vector<int64_t> m_col;
        std::vector<int32_t> m_twice;
        options m_options;

    public:

        void add(int64_t v) {
            if (m_options.add_metadata.version()) {
                m_col.push_back(v);
            }
            m_twice.push_back(1);
            if (v > 3) {
                m_twice.push_back(2);  // dense-columns-parallel: second push for the same node
            }
        }

        std::string write(int64_t id, const std::vector<int64_t>& refs) {
            std::string data;
            protozero::pbf_builder<Msg> b{data};
            b.add_int64(Msg::required_sint64_id, id);
            {
                osmium::DeltaEncode<int64_t, int64_t> d;
                protozero::packed_field_sint64 f{b, static_cast<protozero::pbf_tag_type>(Msg::packed_sint64_refs)};
                for (const auto r : refs) {
                    f.add_element(d.update(r));
                }
            }
            {
                osmium::DeltaEncode<uint32_t, int32_t> narrow;
                protozero::packed_field_sint64 f{b, static_cast<protozero::pbf_tag_type>(Msg::packed_sint64_wide)};
                for (const auto r : refs) {
                    f.add_element(narrow.update(static_cast<uint32_t>(r)));
                }
            }
            b.add_int32(Msg::optional_int32_ver, 1);
            b.add_int64(Msg::required_int64_ts, 5);
            if (m_options.add_metadata.any() || m_options.add_visible_flag) {
                protozero::pbf_builder<Info> info{b, Msg::optional_Info_info};
                if (m_options.add_metadata.user()) {
                    info.add_int32(Info::optional_int32_uid, 7);
                }
                if (m_options.add_metadata.timestamp()) {
                    info.add_packed_sint64(Info::packed_sint64_col, m_col.cbegin(), m_col.cend());
                }
                info.add_packed_int32(static_cast<Info>(3), m_twice.cbegin(), m_twice.cend());
            }
            return data;
        }

    };

    inline int64_t read(const std::string& data) {
        int64_t sum = 0;
        osmium::io::detail::varint_range refs;
        protozero::pbf_message<Msg> m{data};
        while (m.next()) {
            switch (m.tag_and_type()) {
                case protozero::tag_and_type(Msg::required_sint64_id, protozero::pbf_wire_type::varint):
                    sum += m.get_sint64();
                    break;
                case protozero::tag_and_type(Msg::packed_sint64_refs, protozero::pbf_wire_type::length_delimited):
                    refs = osmium::io::detail::varint_range{m.get_view()};
                    break;
                case protozero::tag_and_type(Msg::required_int64_ts, protozero::pbf_wire_type::varint):
                    sum += m.get_sint64();
                    break;
                default:
                    m.skip();
            }
        }
        while (!refs.empty()) {
            sum += refs.next_sint64();
        }
        return sum;
    }

    inline int64_t driver() {
        Writer w;
        w.add(1);
        return read(w.write(1, {1, 2}));
    }

} // namespace c01_positive
