// Positive example for the C02 o5m rules (reset completeness, dataset framing, reference ring).  Never part of /repo, never executed.
#include <osmium/util/delta.hpp>

#include <protozero/varint.hpp>

#include <algorithm>
#include <array>
#include <cstddef>
#include <cstdint>
#include <stdexcept>
#include <string>

namespace c02_positive {

    class ReferenceTable {

        enum : uint64_t {
            number_of_entries = 10000UL,          // not the format's 15000       -> o5m-ring-constants
            entry_size = 256UL
        };

        enum {
            max_length = 250U + 2U
        };

        std::string m_table;
        unsigned int current_entry = 0;

    public:

        void clear() {
        }                                         // does not reset              -> o5m-reset-clears-all-state

        void add(const char* string, std::size_t size) {
            if (m_table.empty()) {
                m_table.resize(entry_size * number_of_entries);
            }
            if (size < max_length) {              // drops the longest pair       -> o5m-ring-add
                std::copy_n(string, size, &m_table[current_entry * entry_size]);
                if (++current_entry == number_of_entries) {
                    current_entry = 0;
                }
            }
        }

        const char* get(uint64_t index) const {
            if (m_table.empty() || index > number_of_entries) {      // accepts 0  -> o5m-ring-get
                throw std::runtime_error{"reference to non-existing string in table"};
            }
            const auto entry = (current_entry + number_of_entries - index + 1) % number_of_entries;   // off by one -> o5m-ring-get
            return &m_table[entry * entry_size];
        }

    };

    class Parser {

        std::string m_input;
        const char* m_data = nullptr;
        const char* m_end = nullptr;

        ReferenceTable m_reference_table;
        osmium::DeltaDecode<int64_t> m_delta_id;
        osmium::DeltaDecode<int64_t> m_delta_lon;
        std::array<osmium::DeltaDecode<int64_t>, 3> m_delta_member_ids;

        enum class dataset_type : unsigned char {
            node         = 0x10,
            way          = 0x11,
            relation     = 0x12,
            bounding_box = 0xdb,
            timestamp    = 0xdd,                  // 0xdc in the description      -> o5m-dataset-codes
            header       = 0xe0,
            sync         = 0xee,
            jump         = 0xef,
            reset        = 0xff
        };

        void reset() {
            m_reference_table.clear();
            m_delta_id.clear();
            m_delta_member_ids[0].clear();        // m_delta_lon, [1], [2] forgotten -> o5m-reset-clears-all-state
        }

        void decode_node(const char*, const char*) {
        }

    public:

        void decode_data() {
            while (m_data != m_end) {
                const auto ds_type = static_cast<dataset_type>(*m_data++);
                if (ds_type >= dataset_type::jump) {                 // 0xef treated as length-less -> o5m-dataset-length-framing
                    if (ds_type >= dataset_type::sync) {             // reset for 0xef..0xff         -> o5m-reset-on-marker
                        reset();
                    }
                } else {
                    uint64_t length = 0;
                    length = protozero::decode_varint(&m_data, m_end);
                    switch (ds_type) {
                        case dataset_type::node:
                            decode_node(m_data, m_data + length);
                            break;
                        default:
                            continue;                                // payload not skipped          -> o5m-dataset-length-framing
                    }
                    m_data += length;
                }
            }
        }

    };

    inline void driver() {
        Parser p;
        p.decode_data();
    }

} // namespace c02_positive
