// Positive example for the C04 rules (same qualified names as the library, deliberately broken; never part of /repo).
#include <algorithm>
#include <cstddef>
#include <cstring>
#include <memory>

namespace osmium { namespace memory {

class Item {
    unsigned m_size = 0;
public:
    void add_size(unsigned s) { m_size += s; }
    unsigned byte_size() const { return m_size; }
};

class Buffer {
    std::unique_ptr<unsigned char[]> m_memory;
    unsigned char* m_data = nullptr;
    std::size_t m_capacity = 0;
    std::size_t m_written = 0;
    std::size_t m_committed = 0;
public:
    unsigned char* data() const { return m_data; }
    std::size_t committed() const { return m_committed; }
    std::size_t written() const { return m_written; }
    void grow(std::size_t size) {
        if (m_capacity < size) {
            std::unique_ptr<unsigned char[]> memory{new unsigned char[size]};
            std::copy_n(m_memory.get(), m_capacity, memory.get());
            using std::swap;
            swap(m_memory, memory);  // B1: m_data is not re-pointed
            m_capacity = size;
        }
    }
    unsigned char* reserve_space(std::size_t size) {
        if (m_written + size > m_capacity) {
            grow(m_capacity * 2);
        }
        unsigned char* p = &m_data[m_written];
        m_written += size;
        return p;
    }
};

}  // namespace memory

namespace builder {

class Builder {
    osmium::memory::Buffer& m_buffer;
    Builder* m_parent;
protected:
    explicit Builder(osmium::memory::Buffer& buffer, Builder* parent) : m_buffer(buffer), m_parent(parent) {}
    unsigned char* item_pos() const { return m_buffer.data() + m_buffer.committed(); }
    osmium::memory::Item& item() const { return *reinterpret_cast<osmium::memory::Item*>(item_pos()); }
    unsigned char* reserve_space(std::size_t size) { return m_buffer.reserve_space(size); }
    void add_size(unsigned size) {
        item().add_size(size);
        if (m_parent) {
            m_parent->add_size(size);
        }
    }
};

class BadBuilder : public Builder {
    unsigned char* m_last = nullptr;  // STALE-F: pointer member into the buffer
public:
    explicit BadBuilder(osmium::memory::Buffer& buffer) : Builder(buffer, nullptr) {}
    void start(std::size_t n) {
        m_last = reserve_space(n);
        reserve_space(8);  // may relocate; m_last is not re-derived before the exit
    }
    void finish() { *m_last = 0; }
    void local_use(const char* text, std::size_t length) {
        osmium::memory::Item& it = item();
        unsigned char* target = reserve_space(length);  // relocates
        std::memcpy(target, text, length);
        it.add_size(static_cast<unsigned>(length));      // STALE-L: `it` used after the relocation
    }
};

}  // namespace builder
}  // namespace osmium
