// Positive example for C11 rules O1 (const/non-const twins) and B1 (buffer growth mode); never part of /repo.
#include <cstddef>

namespace c11pos4 {

    class Member {
        unsigned char m_data[16];
        int m_flags = 0;
        bool full() const noexcept { return m_flags == 1; }
        unsigned char* endpos() { return m_data + 8; }
        const unsigned char* endpos() const { return m_data + 8; }
    public:
        unsigned char* next() {                       // O1: lost the full-member skip its const twin has
            return endpos();
        }
        const unsigned char* next() const {
            if (full()) {
                return endpos() + 4;
            }
            return endpos();
        }
    };

    class List {
        Member m_members[4];
    public:
        const Member* cbegin() const { return m_members; }
        Member* begin() { return m_members; }
        const Member* begin() const { return cbegin(); }   // fine: delegates to the const spelling
    };

    class Buffer {
    public:
        enum class auto_grow : char { no = 0, yes = 1, internal = 2 };
        Buffer(std::size_t, auto_grow) {}
        bool has_nested_buffers() const { return false; }
        Buffer* get_last_nested() { return nullptr; }
    };

    class Output {
        Buffer m_buffer;
    public:
        Output() : m_buffer(1024, Buffer::auto_grow::yes) {}
        Buffer read() {                                // B1: different mode, and internal growth is never drained
            Buffer fresh{1024, Buffer::auto_grow::internal};
            return fresh;
        }
    };

    class Drained {
        Buffer m_buffer;
    public:
        Drained() : m_buffer(1024, Buffer::auto_grow::internal) {}
        Buffer* next() { return m_buffer.has_nested_buffers() ? m_buffer.get_last_nested() : nullptr; }
    };

}

void c11pos4_driver() {
    c11pos4::Member m;
    const c11pos4::Member& cm = m;
    (void)m.next();
    (void)cm.next();
    c11pos4::List l;
    const c11pos4::List& cl = l;
    (void)l.begin();
    (void)cl.begin();
    c11pos4::Output o;
    (void)o.read();
    c11pos4::Drained d;
    (void)d.next();
}
