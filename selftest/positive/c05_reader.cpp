// Positive example for the C05 rules: a deliberately broken reader pipeline that uses the library's qualified names.
// Never part of /repo, never executed or linked; every C05 rule must report something in here on every run.
#include <atomic>
#include <cstddef>
#include <cstring>
#include <exception>
#include <future>
#include <memory>
#include <string>
#include <thread>
#include <utility>
#include <vector>

namespace protozero {

    struct data_view {
        const char* d = nullptr;
        std::size_t n = 0;
        std::size_t size() const noexcept { return n; }
    };

    class pbf_reader {
    public:
        bool next() { return false; }
        void skip() {}
        data_view get_view() { return {}; }
        int get_int32() { return 0; }
        int tag_and_type() const { return 0; }
    };

    template <typename T>
    class pbf_message : public pbf_reader {
    public:
        explicit pbf_message(const data_view&) {}
        bool next() { return pbf_reader::next(); }
    };

} // namespace protozero

namespace osmium {

    namespace osm_entity_bits {
        enum type : unsigned char { nothing = 0, node = 1, way = 2, relation = 4, changeset = 8, all = 15 };
        inline type operator&(const type lhs, const type rhs) noexcept {
            return static_cast<type>(static_cast<int>(lhs) & static_cast<int>(rhs));
        }
    } // namespace osm_entity_bits

    class Node {
    public:
        Node& set_id(long) { return *this; }
        Node& set_version(unsigned) { return *this; }
    };

    namespace memory {

        class Buffer {
            std::unique_ptr<Buffer> m_next_buffer;
            std::unique_ptr<unsigned char[]> m_memory;
            unsigned char* m_data = nullptr;
            std::size_t m_capacity = 0;
            std::size_t m_written = 0;
            std::size_t m_committed = 0;

            void grow_internal() {
                std::unique_ptr<Buffer> old{new Buffer{std::move(m_memory), m_capacity, m_committed}};
                m_memory = std::unique_ptr<unsigned char[]>{new unsigned char[m_capacity]};
                m_data = m_memory.get();
                m_committed = 0;
                // B2: the previous chain is not hung below `old`
                m_next_buffer = std::move(old);
            }

        public:
            Buffer() noexcept = default;
            explicit Buffer(std::size_t capacity) : m_memory(new unsigned char[capacity]), m_data(m_memory.get()), m_capacity(capacity) {}
            Buffer(std::unique_ptr<unsigned char[]> data, std::size_t capacity, std::size_t committed) :
                m_memory(std::move(data)), m_data(m_memory.get()), m_capacity(capacity), m_written(committed), m_committed(committed) {}
            Buffer(const Buffer&) = delete;
            Buffer& operator=(const Buffer&) = delete;
            Buffer(Buffer&& other) noexcept :
                m_next_buffer(std::move(other.m_next_buffer)), m_memory(std::move(other.m_memory)), m_data(other.m_data),
                m_capacity(other.m_capacity), m_written(other.m_written), m_committed(other.m_committed) {
                other.m_data = nullptr;
            }
            Buffer& operator=(Buffer&& other) noexcept {
                // B4: the nested chain is not transferred
                m_memory = std::move(other.m_memory);
                m_data = other.m_data;
                m_capacity = other.m_capacity;
                m_written = other.m_written;
                m_committed = other.m_committed;
                other.m_data = nullptr;
                return *this;
            }
            void swap(Buffer& other) {
                using std::swap;
                swap(m_next_buffer, other.m_next_buffer);
                swap(m_memory, other.m_memory);
                swap(m_data, other.m_data);
                swap(m_committed, other.m_committed);
            }
            std::size_t committed() const noexcept { return m_committed; }
            std::size_t commit() { m_committed = m_written; return m_committed; }
            bool has_nested_buffers() const noexcept { return m_next_buffer != nullptr; }
            std::unique_ptr<Buffer> get_last_nested() {
                Buffer* buffer = this;
                if (buffer->m_next_buffer->has_nested_buffers()) {      // B1: one step only
                    buffer = buffer->m_next_buffer.get();
                }
                return std::move(buffer->m_next_buffer);
            }
            unsigned char* reserve_space(std::size_t size) {
                if (m_written + size > m_capacity) {
                    grow_internal();                                    // B3: even with nothing committed
                }
                unsigned char* p = &m_data[m_written];
                m_written += size;
                return p;
            }
            explicit operator bool() const noexcept { return m_data != nullptr && m_committed != 0; }   // R6
        };

        inline void swap(Buffer& a, Buffer& b) { a.swap(b); }

    } // namespace memory

    namespace builder {
        class Builder {};
        class NodeBuilder : public Builder {
            Node m_node;
        public:
            explicit NodeBuilder(osmium::memory::Buffer&, Builder* = nullptr) {}
            Node& object() { return m_node; }
        };
        class WayBuilder : public Builder {
        public:
            explicit WayBuilder(osmium::memory::Buffer&, Builder* = nullptr) {}
        };
        class RelationBuilder : public Builder {
        public:
            explicit RelationBuilder(osmium::memory::Buffer&, Builder* = nullptr) {}
            void add_tag(const char*, const char*) {}
        };
    } // namespace builder

    namespace thread {

        template <typename T>
        class Queue {
            std::atomic<bool> m_in_use{true};
        public:
            void push(T) {}
            void wait_and_pop(T&) {}
            bool try_pop(T&) { return false; }
            bool in_use() const noexcept { return m_in_use; }
            void shutdown() { m_in_use = false; }
        };

        class Pool {
        public:
            template <typename TFunction>
            std::future<decltype(std::declval<TFunction>()())> submit(TFunction&& func) {
                std::packaged_task<decltype(std::declval<TFunction>()())()> task{std::forward<TFunction>(func)};
                return task.get_future();
            }
        };

    } // namespace thread

    namespace io {

        enum class read_meta { no = 0, yes = 1 };

        namespace detail {

            template <typename T>
            using future_queue_type = osmium::thread::Queue<std::future<T>>;
            using future_buffer_queue_type = future_queue_type<osmium::memory::Buffer>;
            using future_string_queue_type = future_queue_type<std::string>;

            template <typename T>
            inline void add_to_queue(future_queue_type<T>& queue, T&& data) {
                std::promise<T> promise;
                queue.push(promise.get_future());
                promise.set_value(std::forward<T>(data));
            }

            template <typename T>
            inline void add_end_of_data_to_queue(future_queue_type<T>& queue) {
                add_to_queue<T>(queue, T{});
            }

            inline bool at_end_of_data(const std::string& data) noexcept { return data.empty(); }

            inline bool at_end_of_data(const osmium::memory::Buffer& buffer) noexcept {
                return buffer.committed() == 0;                         // R6: emptiness instead of validity
            }

            template <typename T>
            class queue_wrapper {
                future_queue_type<T>& m_queue;
            public:
                explicit queue_wrapper(future_queue_type<T>& queue) : m_queue(queue) {}
                T pop() {
                    T data;
                    if (m_queue.in_use()) {
                        std::future<T> data_future;
                        m_queue.try_pop(data_future);                   // R5: does not wait for an element
                        if (data_future.valid()) {
                            data = std::move(data_future.get());
                        }
                    }
                    return data;
                }
            };

            class ReadThreadManager {
                future_string_queue_type& m_queue;
                future_buffer_queue_type* m_other = nullptr;
                std::thread m_thread;
                void run_in_thread() {
                    add_to_queue(m_queue, std::string{"x"});
                    if (m_other) {
                        m_other->push(std::future<osmium::memory::Buffer>{});   // W2: second producer for the osmdata queue
                    }
                    add_end_of_data_to_queue(m_queue);
                }
            public:
                explicit ReadThreadManager(future_string_queue_type& queue) :
                    m_queue(queue), m_thread(std::thread(&ReadThreadManager::run_in_thread, this)) {}
                ~ReadThreadManager() { if (m_thread.joinable()) { m_thread.join(); } }
            };

            class PBFPrimitiveBlockDecoder {
                protozero::data_view m_data;
                osmium::osm_entity_bits::type m_read_types;
                osmium::io::read_meta m_read_metadata;
                osmium::memory::Buffer m_buffer{1024};

                void decode_info(const protozero::data_view&, osmium::Node& node) { node.set_version(1); }

                void decode_node(const protozero::data_view& data) {
                    osmium::builder::NodeBuilder builder{m_buffer};
                    protozero::pbf_message<int> pbf_node{data};
                    while (pbf_node.next()) {
                        switch (pbf_node.tag_and_type()) {
                            case 1:
                                if (m_read_metadata == osmium::io::read_meta::yes) {
                                    builder.object().set_id(1);         // M4: content decoded only with metadata
                                    decode_info(pbf_node.get_view(), builder.object());
                                } else {
                                    pbf_node.skip();
                                }
                                break;
                            default:
                                pbf_node.skip();
                        }
                    }
                }

                void decode_way(const protozero::data_view&) {
                    osmium::builder::WayBuilder builder{m_buffer};
                }

            public:
                PBFPrimitiveBlockDecoder(const protozero::data_view& data, osmium::osm_entity_bits::type read_types, osmium::io::read_meta meta) :
                    m_data(data), m_read_types(read_types), m_read_metadata(meta) {}

                osmium::memory::Buffer operator()() {
                    protozero::pbf_message<long> pbf_primitive_group{m_data};
                    while (pbf_primitive_group.next()) {
                        switch (pbf_primitive_group.tag_and_type()) {
                            case 1:
                                if (m_read_types & osmium::osm_entity_bits::node) {
                                    decode_node(pbf_primitive_group.get_view());
                                    m_buffer.commit();
                                }                                       // M2: unselected field is not skipped
                                break;
                            case 2:
                                if (m_read_types & osmium::osm_entity_bits::node) {     // M1: ways under the node mask
                                    decode_way(pbf_primitive_group.get_view());
                                } else {                                // M5: the way is never committed
                                    pbf_primitive_group.skip();
                                }
                                break;
                            default:
                                pbf_primitive_group.skip();
                        }
                    }
                    return std::move(m_buffer);
                }
            };

            class PBFDataBlobDecoder {
                std::shared_ptr<std::string> m_input_buffer;
                future_buffer_queue_type* m_out = nullptr;
                osmium::osm_entity_bits::type m_read_types;
                osmium::io::read_meta m_read_metadata;
            public:
                PBFDataBlobDecoder(std::string&& input, osmium::osm_entity_bits::type read_types, osmium::io::read_meta meta) :
                    m_input_buffer(std::make_shared<std::string>(std::move(input))), m_read_types(read_types), m_read_metadata(meta) {}
                osmium::memory::Buffer operator()() {
                    static std::string output;                          // W4: one decompression buffer shared by all workers
                    output.clear();
                    PBFPrimitiveBlockDecoder decoder{protozero::data_view{}, m_read_types, m_read_metadata};
                    if (m_out) {
                        add_to_queue(*m_out, decoder());                // W1: a pool task enqueues its own result
                        return osmium::memory::Buffer{};
                    }
                    return decoder();
                }
            };

            struct parser_arguments {
                osmium::thread::Pool& pool;
                future_buffer_queue_type& output_queue;
                osmium::osm_entity_bits::type read_which_entities;
            };

            class Parser {
                osmium::thread::Pool& m_pool;
                future_buffer_queue_type& m_output_queue;
                osmium::osm_entity_bits::type m_read_which_entities;
            protected:
                osmium::thread::Pool& get_pool() { return m_pool; }
                osmium::osm_entity_bits::type read_types() const noexcept { return m_read_which_entities; }
                void send_to_output_queue(osmium::memory::Buffer&& buffer) { add_to_queue(m_output_queue, std::move(buffer)); }
                void send_to_output_queue(std::future<osmium::memory::Buffer>&& future) { m_output_queue.push(std::move(future)); }
            public:
                explicit Parser(parser_arguments& args) : m_pool(args.pool), m_output_queue(args.output_queue), m_read_which_entities(args.read_which_entities) {}
                virtual ~Parser() noexcept = default;
                virtual void run() = 0;
                void parse() {
                    try {
                        run();
                    } catch (...) {
                    }
                    add_end_of_data_to_queue(m_output_queue);
                }
            };

            class ParserWithBuffer : public Parser {
                osmium::memory::Buffer m_buffer{1024};
            protected:
                explicit ParserWithBuffer(parser_arguments& args) : Parser(args) {}
                osmium::memory::Buffer& buffer() noexcept { return m_buffer; }
                void flush_nested_buffer() {
                    if (m_buffer.has_nested_buffers()) {
                        std::unique_ptr<osmium::memory::Buffer> buffer_ptr{m_buffer.get_last_nested()};
                        if (buffer_ptr->committed() > 64) {             // F1: small buffers are dropped
                            send_to_output_queue(std::move(*buffer_ptr));
                        }
                    }
                }
                void flush_final_buffer() {
                    if (m_buffer.committed() > 0 && !m_buffer.has_nested_buffers()) {   // F3
                        send_to_output_queue(std::move(m_buffer));
                    }
                }
                void maybe_new_buffer() {
                    osmium::memory::Buffer new_buffer{1024};
                    using std::swap;
                    swap(new_buffer, m_buffer);                         // F4: swapped out and dropped
                }
            };

            class XMLParser final : public ParserWithBuffer {
                std::unique_ptr<osmium::builder::NodeBuilder> m_node_builder;
                std::unique_ptr<osmium::builder::WayBuilder> m_way_builder;
                std::unique_ptr<osmium::builder::RelationBuilder> m_relation_builder;
                std::unique_ptr<osmium::builder::RelationBuilder> m_relation_builder2;

                void start_element(const char* element) {
                    if (!std::strcmp(element, "node")) {
                        if (read_types() & osmium::osm_entity_bits::way) {          // M1: nodes under the way mask
                            maybe_new_buffer();
                            m_node_builder = std::make_unique<osmium::builder::NodeBuilder>(buffer());
                        }
                        return;
                    }
                    if (!std::strcmp(element, "tag")) {
                        m_relation_builder->add_tag("k", "v");                      // M3: no mask at all
                    }
                }

                void end_element() {
                    if (read_types() & osmium::osm_entity_bits::node) {
                        m_node_builder.reset();                                     // M5: no commit
                        flush_nested_buffer();
                    }
                }

            public:
                explicit XMLParser(parser_arguments& args) : ParserWithBuffer(args) {}
                void run() override {
                    start_element("node");
                    end_element();
                    if (read_types() == osmium::osm_entity_bits::nothing) {
                        return;                                                     // F2: leaves without the final flush
                    }
                    flush_final_buffer();
                }
            };

            class PBFParser final : public Parser {
                std::vector<std::future<osmium::memory::Buffer>> m_parked;
                std::size_t next_blob() { return 0; }

                void parse_data_blobs() {
                    const bool use_pool = true;
                    while (const auto size = next_blob()) {
                        std::string input_buffer(size, ' ');
                        PBFDataBlobDecoder data_blob_parser{std::move(input_buffer), read_types(), osmium::io::read_meta::yes};
                        if (use_pool) {
                            m_parked.push_back(get_pool().submit(std::move(data_blob_parser)));     // O1: parked, sent later in another order
                            if (m_parked.size() > 3) {
                                send_to_output_queue(std::move(m_parked.back()));
                                m_parked.pop_back();
                            }
                        } else if (size > 8) {                                                      // O1: small blobs are dropped
                            send_to_output_queue(data_blob_parser());
                        }
                    }
                }
            public:
                explicit PBFParser(parser_arguments& args) : Parser(args) {}
                void run() override { parse_data_blobs(); }
            };

        } // namespace detail

        class File {
            bool m_has_multiple_object_versions = false;
        public:
            bool has_multiple_object_versions() const noexcept { return m_has_multiple_object_versions; }
        };

        class Reader {
            osmium::memory::Buffer m_back_buffers;
            File m_file;
            osmium::io::read_meta m_read_metadata = osmium::io::read_meta::yes;
            osmium::thread::Pool* m_pool = nullptr;
            enum class status { okay = 0, error = 1, closed = 2, eof = 3 } m_status = status::okay;
            detail::future_string_queue_type m_input_queue;
            detail::ReadThreadManager m_read_thread_manager;
            detail::future_buffer_queue_type m_osmdata_queue;
            detail::queue_wrapper<osmium::memory::Buffer> m_osmdata_queue_wrapper;
            std::thread m_thread;
            osmium::osm_entity_bits::type m_read_which_entities = osmium::osm_entity_bits::all;

            static void parser_thread(osmium::thread::Pool& pool, detail::future_buffer_queue_type& osmdata_queue, osmium::osm_entity_bits::type which) {
                detail::parser_arguments args = {pool, osmdata_queue, which};
                detail::XMLParser parser{args};
                parser.parse();
                detail::PBFParser pbf{args};
                pbf.parse();
            }

        public:
            void set_option(osmium::io::read_meta value) noexcept {
                m_read_metadata = value;                                            // M7: also for history files
            }

            Reader() :
                m_read_thread_manager(m_input_queue),
                m_osmdata_queue_wrapper(m_osmdata_queue) {
                for (int i = 0; i < 2; ++i) {                                       // W3: two producers
                    m_thread = std::thread{parser_thread, std::ref(*m_pool), std::ref(m_osmdata_queue), m_read_which_entities};
                }
            }

            osmium::memory::Buffer read() {
                osmium::memory::Buffer buffer;
                if (m_back_buffers && m_status != status::okay) {                   // R1: the pop is possible with back buffers waiting
                    if (!m_back_buffers.has_nested_buffers()) {                     // R2: branches swapped
                        buffer = std::move(*m_back_buffers.get_last_nested());
                    } else {
                        buffer = std::move(m_back_buffers);
                    }
                    return buffer;
                }
                if (m_read_which_entities == osmium::osm_entity_bits::nothing) {
                    detail::add_end_of_data_to_queue(m_osmdata_queue);              // W2: the consumer enqueues on its own queue
                    return buffer;
                }
                while (true) {                                                      // R4: no status gate
                    buffer = m_osmdata_queue_wrapper.pop();
                    if (detail::at_end_of_data(buffer)) {
                        return buffer;                                              // R4: eof is not recorded
                    }
                    if (buffer.committed() > 0) {                                   // R3: nested buffers are never unwound
                        return buffer;
                    }
                }
            }
        };

        template <typename TSource, typename TItem = int>
        class InputIterator {
            TSource* m_source;
            std::shared_ptr<osmium::memory::Buffer> m_buffer;
            struct item_iterator {
                int p = 0;
                item_iterator& operator++() { ++p; return *this; }
                bool operator==(const item_iterator& o) const noexcept { return p == o.p; }
                bool operator!=(const item_iterator& o) const noexcept { return p != o.p; }
            } m_iter{};
            item_iterator end() const { return item_iterator{static_cast<int>(m_buffer->committed())}; }

            void update_buffer() {
                do {
                    m_buffer = std::make_shared<osmium::memory::Buffer>(std::move(m_source->read()));
                    if (!m_buffer || !*m_buffer) {
                        m_source = nullptr;
                        return;
                    }
                    m_iter = item_iterator{};
                } while (m_iter != end());                                          // I1: discards buffers that have data
            }
        public:
            explicit InputIterator(TSource& source) : m_source(&source) { update_buffer(); }
            InputIterator& operator++() {
                ++m_iter;
                update_buffer();                                                    // I1: refills on every step
                return *this;
            }
        };

        template class InputIterator<Reader, int>;

    } // namespace io

} // namespace osmium

void verif_positive_c05(osmium::thread::Pool& pool) {
    osmium::io::Reader reader;
    (void)reader.read();
    osmium::io::detail::future_buffer_queue_type q;
    osmium::io::detail::parser_arguments args = {pool, q, osmium::osm_entity_bits::all};
    osmium::io::detail::XMLParser x{args};
    x.parse();
    osmium::memory::Buffer b{64};
    (void)b.reserve_space(128);
    osmium::memory::Buffer c{std::move(b)};
    b = std::move(c);
    auto f = pool.submit(osmium::io::detail::PBFDataBlobDecoder{std::string{}, osmium::osm_entity_bits::all, osmium::io::read_meta::yes});
    (void)f;
}
