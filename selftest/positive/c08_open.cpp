// Positive / negative examples for C08 rule O1 (must-bits of the open(2) flags word).  Never part of /repo, never executed.
// bad_* must be reported, ok_* must stay silent.
// (the enum is repeated here because the extractor only emits declarations from this directory)
namespace osmium { namespace io { enum class overwrite : bool { no = 0, allow = 1 }; } }

#include <fcntl.h>
#include <string>

namespace c08pos {

using osmium::io::overwrite;

// ---------------------------------------------------------------- must fire

inline int bad_no_trunc(const std::string& name, const overwrite allow_overwrite) {
    int flags = O_WRONLY | O_CREAT;
    if (allow_overwrite != overwrite::allow) {
        flags |= O_EXCL;
    }
    return ::open(name.c_str(), flags, 0666);       // allow: old tail of a longer file survives
}

inline int bad_swapped(const std::string& name, const overwrite allow_overwrite) {
    const int flags = O_WRONLY | O_CREAT | (allow_overwrite == overwrite::allow ? O_EXCL : O_TRUNC);
    return ::open(name.c_str(), flags, 0666);
}

inline int bad_trunc_lost(const std::string& name, const overwrite allow_overwrite) {
    int flags = O_WRONLY | O_CREAT | O_TRUNC;
    if (allow_overwrite == overwrite::no) {
        flags = O_WRONLY | O_CREAT | O_EXCL;
    } else {
        flags &= ~O_TRUNC;                            // bit cleared again
    }
    return ::open(name.c_str(), flags, 0666);
}

// ---------------------------------------------------------------- must stay silent

inline int ok_ternary(const std::string& name, const overwrite allow_overwrite) {
    const int flags = O_WRONLY | O_CREAT | (allow_overwrite == overwrite::allow ? O_TRUNC : O_EXCL);
    return ::open(name.c_str(), flags, 0666);
}

inline int mode_bits(const overwrite allow_overwrite) {
    if (allow_overwrite == overwrite::allow) {
        return O_TRUNC;
    }
    return O_EXCL;
}

inline int ok_helper(const std::string& name, const overwrite allow_overwrite) {
    return ::open(name.c_str(), O_WRONLY | O_CREAT | mode_bits(allow_overwrite), 0666);
}

inline int ok_named_bool(const std::string& name, const overwrite allow_overwrite) {
    const bool truncate = allow_overwrite == overwrite::allow;
    int flags = O_CREAT;
    flags |= O_WRONLY;
    if (truncate) {
        flags |= O_TRUNC;
    }
    if (!truncate) {
        flags |= O_EXCL;
    }
    return ::open(name.c_str(), flags, 0666);
}

inline int ok_early_stdout(const std::string& name, const overwrite allow_overwrite) {
    if (name.empty()) {
        return 1;
    }
    int flags = O_WRONLY | O_CREAT | O_EXCL;
    if (allow_overwrite == overwrite::allow) {
        flags = O_WRONLY | O_CREAT | O_TRUNC;
    }
    return ::open(name.c_str(), flags, 0666);
}

inline void use(const std::string& n, overwrite o) {
    (void)bad_no_trunc(n, o); (void)bad_swapped(n, o); (void)bad_trunc_lost(n, o);
    (void)ok_ternary(n, o); (void)ok_helper(n, o); (void)ok_named_bool(n, o); (void)ok_early_stdout(n, o);
}

} // namespace c08pos
