// Positive example for the C17 rules: a deliberately broken geometry factory / WKB / WKT back end with the library's
// qualified names.  Never part of /repo, never executed; every C17 rule listed in SELFTESTS must report something here.
#include <algorithm>
#include <cstddef>
#include <cstdint>
#include <cstdio>
#include <iterator>
#include <limits>
#include <stdexcept>
#include <string>
#include <utility>

namespace osmium {

using object_id_type = int64_t;

class geometry_error : public std::runtime_error {
public:
    explicit geometry_error(const std::string& message, const char* = "", object_id_type = 0) : std::runtime_error(message) {}
    void set_id(const char*, object_id_type) {}
};

struct invalid_location : public std::range_error {
    explicit invalid_location(const char* what) : std::range_error(what) {}
};

class Location {
    int32_t m_x;
    int32_t m_y;

public:
    Location() noexcept : m_x(2147483647), m_y(2147483647) {}
    Location(int32_t x, int32_t y) noexcept : m_x(x), m_y(y) {}
    bool valid() const noexcept { return m_x > -1800000000 && m_x < 1800000000 && m_y > -900000000 && m_y < 900000000; }
    static double fix_to_double(int32_t c) noexcept { return static_cast<double>(c) / 10000000.0; }
    // P1: no validity check
    double lon() const { return fix_to_double(m_x); }
    // P1: checks, but returns the wrong field
    double lat() const {
        if (!valid()) {
            throw osmium::invalid_location{"invalid location"};
        }
        return fix_to_double(m_x);
    }
    double lon_without_check() const noexcept { return fix_to_double(m_x); }
    double lat_without_check() const noexcept { return fix_to_double(m_y); }
    int32_t x() const noexcept { return m_x; }
    int32_t y() const noexcept { return m_y; }
};

inline bool operator==(const Location& lhs, const Location& rhs) noexcept { return lhs.x() == rhs.x() && lhs.y() == rhs.y(); }
inline bool operator!=(const Location& lhs, const Location& rhs) noexcept { return !(lhs == rhs); }

enum class item_type : uint16_t { undefined = 0, outer_ring = 0x40, inner_ring = 0x41 };

namespace memory {
    class Item {
        item_type m_type = item_type::undefined;

    public:
        item_type type() const noexcept { return m_type; }
    };
}  // namespace memory

class NodeRef {
    object_id_type m_ref = 0;
    Location m_location;

public:
    object_id_type ref() const noexcept { return m_ref; }
    Location location() const noexcept { return m_location; }
};

class NodeRefList : public memory::Item {
    const NodeRef* m_begin = nullptr;
    const NodeRef* m_end = nullptr;

public:
    using const_iterator = const NodeRef*;
    using const_reverse_iterator = std::reverse_iterator<const NodeRef*>;
    std::size_t size() const noexcept { return static_cast<std::size_t>(m_end - m_begin); }
    const_iterator cbegin() const noexcept { return m_begin; }
    const_iterator cend() const noexcept { return m_end; }
    const_iterator begin() const noexcept { return cbegin(); }
    const_iterator end() const noexcept { return cend(); }
    // D2: wraps the wrong end
    const_reverse_iterator crbegin() const noexcept { return const_reverse_iterator(cbegin()); }
    const_reverse_iterator crend() const noexcept { return const_reverse_iterator(cbegin()); }
};

class WayNodeList : public NodeRefList {};
class OuterRing : public NodeRefList {};
class InnerRing : public NodeRefList {};

class Way {
    WayNodeList m_nodes;

public:
    object_id_type id() const noexcept { return 1; }
    const WayNodeList& nodes() const { return m_nodes; }
};

class Area {
    const memory::Item* m_begin = nullptr;
    const memory::Item* m_end = nullptr;

public:
    object_id_type id() const noexcept { return 1; }
    const memory::Item* begin() const { return m_begin; }
    const memory::Item* end() const { return m_end; }
};

// N1: result of snprintf used unchecked, size argument larger than the buffer; N2: zeros trimmed without a fractional part
template <typename T>
inline T double2string(T iterator, double value, int precision) {
    enum { max_double_length = 20 };
    static char buffer[max_double_length - 4];   // Z1: shared between all factories / threads
    int len = snprintf(buffer, max_double_length, "%.*f", precision, value);
    while (buffer[len - 1] == '0') {
        --len;
    }
    if (buffer[len - 1] == '.') {
        --len;
    }
    return std::copy_n(buffer, len, iterator);
}

inline void double2string(std::string& out, double value, int precision) {
    double2string(std::back_inserter(out), value, precision);
}

namespace geom {

struct Coordinates {
    double x;
    double y;
    explicit Coordinates(double cx, double cy) noexcept : x(cx), y(cy) {}
    // P1: axes swapped
    Coordinates(const osmium::Location& location) : x(location.lat()), y(location.lon()) {}
    bool valid() const noexcept { return x == x && y == y; }
    // X1: y before x
    void append_to_string(std::string& s, const char infix, int precision) const {
        if (valid()) {
            s += std::to_string(precision);
            s += infix;
        }
    }
    // X1: suffix written before the coordinates
    void append_to_string(std::string& s, const char prefix, const char infix, const char suffix, int precision) const {
        s += prefix;
        s += suffix;
        append_to_string(s, infix, precision);
    }
};

enum class use_nodes : bool { unique = true, all = false };
enum class direction : bool { backward = true, forward = false };

class IdentityProjection {
public:
    // P1: unchecked accessors
    Coordinates operator()(osmium::Location location) const { return Coordinates{location.lon_without_check(), location.lat_without_check()}; }
    static int epsg() noexcept { return 4326; }
};

template <typename TGeomImpl, typename TProjection = IdentityProjection>
class GeometryFactory {
    // E3: unique mode that keeps duplicates; E2: no projection
    void add_points(const osmium::NodeRefList& nodes) {
        for (const osmium::NodeRef& node_ref : nodes) {
            m_impl.multipolygon_add_location(Coordinates{node_ref.location()});
        }
    }

    TProjection m_projection;
    TGeomImpl m_impl;

public:
    GeometryFactory() : m_projection(), m_impl(m_projection.epsg()) {}

    // C1: the settings given together with a projection object are dropped
    template <typename... TArgs>
    explicit GeometryFactory(TProjection&& projection, TArgs&&... args) : m_projection(std::move(projection)), m_impl(m_projection.epsg()) {}

    using linestring_type = typename TGeomImpl::linestring_type;
    using polygon_type = typename TGeomImpl::polygon_type;
    using multipolygon_type = typename TGeomImpl::multipolygon_type;

    void linestring_start() { m_impl.linestring_start(); }

    // E1: counts twice per emitted point
    template <typename TIter>
    size_t fill_linestring(TIter it, TIter end) {
        size_t num_points = 0;
        for (; it != end; ++it, ++num_points) {
            m_impl.linestring_add_location(m_projection(it->location()));
            ++num_points;
        }
        return num_points;
    }

    // E2: emits the previous location; E1: counter outside the test
    template <typename TIter>
    size_t fill_linestring_unique(TIter it, TIter end) {
        size_t num_points = 0;
        osmium::Location last_location;
        for (; it != end; ++it) {
            if (last_location != it->location()) {
                m_impl.linestring_add_location(m_projection(last_location));
                last_location = it->location();
            }
            ++num_points;
        }
        return num_points;
    }

    // W1: forwards to the wrong back-end method
    linestring_type linestring_finish(size_t num_points) { return m_impl.polygon_finish(num_points); }

    // G1: threshold 1; D1: unique/backward walks forward, all/backward missing; T1: count is the list size
    linestring_type create_linestring(const osmium::WayNodeList& wnl, use_nodes un = use_nodes::unique, direction dir = direction::forward) {
        linestring_start();
        size_t num_points = 0;
        if (un == use_nodes::unique) {
            switch (dir) {
                case direction::forward:
                    num_points = fill_linestring_unique(wnl.cbegin(), wnl.cend());
                    break;
                case direction::backward:
                    num_points = fill_linestring_unique(wnl.cbegin(), wnl.cend());
                    break;
            }
        } else {
            switch (dir) {
                case direction::forward:
                    num_points = fill_linestring(wnl.cbegin(), wnl.cend());
                    break;
                case direction::backward:
                    num_points = fill_linestring(wnl.crbegin(), wnl.crend());
                    break;
            }
        }
        if (num_points < 1) {
            throw osmium::geometry_error{"need at least two points for linestring"};
        }
        return linestring_finish(wnl.size());
    }

    linestring_type create_linestring(const osmium::Way& way, use_nodes un = use_nodes::unique, direction dir = direction::forward) {
        return create_linestring(way.nodes(), un, dir);
    }

    void polygon_start() { m_impl.polygon_start(); }

    // E3: "all" mode that skips invalid locations
    template <typename TIter>
    size_t fill_polygon(TIter it, TIter end) {
        size_t num_points = 0;
        for (; it != end; ++it) {
            if (it->location().valid()) {
                m_impl.polygon_add_location(m_projection(it->location()));
                ++num_points;
            }
        }
        return num_points;
    }

    template <typename TIter>
    size_t fill_polygon_unique(TIter it, TIter end) {
        size_t num_points = 0;
        osmium::Location last_location;
        for (; it != end; ++it) {
            if (last_location != it->location()) {
                last_location = it->location();
                m_impl.polygon_add_location(m_projection(last_location));
                ++num_points;
            }
        }
        return num_points;
    }

    polygon_type polygon_finish(size_t num_points) { return m_impl.polygon_finish(num_points); }

    polygon_type create_polygon(const osmium::WayNodeList& wnl, use_nodes un = use_nodes::unique, direction dir = direction::forward) {
        polygon_start();
        size_t num_points = 0;
        if (un == use_nodes::unique) {
            num_points = (dir == direction::forward) ? fill_polygon_unique(wnl.cbegin(), wnl.cend()) : fill_polygon_unique(wnl.crbegin(), wnl.crend());
        } else {
            num_points = fill_polygon(wnl.cbegin(), wnl.cend());
        }
        if (num_points < 4) {
            throw osmium::geometry_error{"need at least four points for polygon"};
        }
        return polygon_finish(num_points);
    }

    polygon_type create_polygon(const osmium::Way& way, use_nodes un = use_nodes::unique, direction dir = direction::forward) {
        return create_polygon(way.nodes(), un);
    }

    // T1: polygons are never closed before the next one opens
    multipolygon_type create_multipolygon(const osmium::Area& area) {
        size_t num_polygons = 0;
        size_t num_rings = 0;
        m_impl.multipolygon_start();
        for (const auto& item : area) {
            if (item.type() == osmium::item_type::outer_ring) {
                const auto& ring = static_cast<const osmium::OuterRing&>(item);
                m_impl.multipolygon_polygon_start();
                m_impl.multipolygon_outer_ring_start();
                add_points(ring);
                m_impl.multipolygon_outer_ring_finish();
                ++num_rings;
                ++num_polygons;
            } else if (item.type() == osmium::item_type::inner_ring) {
                const auto& ring = static_cast<const osmium::InnerRing&>(item);
                m_impl.multipolygon_inner_ring_start();
                add_points(ring);
                m_impl.multipolygon_inner_ring_finish();
                ++num_rings;
            }
        }
        if (num_rings == 0) {
            throw osmium::geometry_error{"invalid area"};
        }
        m_impl.multipolygon_polygon_finish();
        return m_impl.multipolygon_finish();
    }
};

enum class wkb_type : bool { wkb = false, ewkb = true };
enum class out_type : bool { binary = false, hex = true };

namespace detail {

template <typename T>
inline void str_push(std::string& str, T data) {
    str.append(reinterpret_cast<const char*>(&data), sizeof(T));
}

// H1: high nibble masked with 7, digits swapped in the table
inline std::string convert_to_hex(const std::string& str) {
    static const char* lookup_hex = "0123456789ABCDFE";
    std::string out;
    for (const char c : str) {
        out += lookup_hex[(static_cast<unsigned int>(c) >> 4U) & 0x7U];
        out += lookup_hex[static_cast<unsigned int>(c) & 0xfU];
    }
    return out;
}

class WKBFactoryImpl {
    enum wkbGeometryType : uint32_t { wkbPoint = 1, wkbLineString = 2, wkbPolygon = 3, wkbMultiPolygon = 6, wkbSRID = 0x20000000 };
    enum class wkb_byte_order_type : uint8_t { XDR = 0, NDR = 1 };

    std::string m_data;
    uint16_t m_points = 0;   // B8: narrower than the uint32 count field it is written into
    int m_srid;
    wkb_type m_wkb_type = wkb_type::wkb;
    out_type m_out_type = out_type::binary;
    std::size_t m_linestring_size_offset = 0;
    std::size_t m_polygons = 0;
    std::size_t m_rings = 0;
    std::size_t m_multipolygon_size_offset = 0;
    std::size_t m_polygon_size_offset = 0;
    std::size_t m_ring_size_offset = 0;

    // B5: EWKB srid written without the SRID flag in the type
    std::size_t header(std::string& str, wkbGeometryType type, bool add_length) const {
        str_push(str, wkb_byte_order_type::NDR);
        str_push(str, type);
        if (m_wkb_type == wkb_type::ewkb) {
            str_push(str, m_srid);
        }
        const std::size_t offset = str.size();
        if (add_length) {
            str_push(str, static_cast<uint32_t>(0));
        }
        return offset;
    }

    // B4: no range check before narrowing
    void set_size(const std::size_t offset, const std::size_t size) {
        const auto s = static_cast<uint32_t>(size);
        std::copy_n(reinterpret_cast<const char*>(&s), sizeof(uint32_t), &m_data[offset]);
    }

public:
    using point_type = std::string;
    using linestring_type = std::string;
    using polygon_type = std::string;
    using multipolygon_type = std::string;

    explicit WKBFactoryImpl(int srid) : m_srid(srid) {}

    // B7: hex exactly when it was not requested
    point_type make_point(const osmium::geom::Coordinates& xy) const {
        std::string data;
        header(data, wkbPoint, false);
        str_push(data, xy.x);
        str_push(data, xy.y);
        if (m_out_type != out_type::hex) {
            return convert_to_hex(data);
        }
        return data;
    }

    // B6: no clear
    void linestring_start() { m_linestring_size_offset = header(m_data, wkbLineString, true); }

    void linestring_add_location(const osmium::geom::Coordinates& xy) {
        str_push(m_data, xy.x);
        str_push(m_data, xy.y);
    }

    linestring_type linestring_finish(std::size_t num_points) {
        set_size(m_linestring_size_offset, num_points);
        std::string data;
        using std::swap;
        swap(data, m_data);
        if (m_out_type == out_type::hex) {
            return convert_to_hex(data);
        }
        return data;
    }

    void polygon_start() {
        m_data.clear();
        set_size(header(m_data, wkbPolygon, true), 1);
        m_ring_size_offset = m_data.size();
        str_push(m_data, static_cast<uint32_t>(0));
    }

    // X1: y before x
    void polygon_add_location(const osmium::geom::Coordinates& xy) {
        str_push(m_data, xy.y);
        str_push(m_data, xy.x);
    }

    polygon_type polygon_finish(std::size_t num_points) {
        set_size(m_ring_size_offset, num_points);
        std::string data;
        using std::swap;
        swap(data, m_data);
        if (m_out_type == out_type::hex) {
            return convert_to_hex(data);
        }
        return data;
    }

    void multipolygon_start() {
        m_data.clear();
        m_polygons = 0;
        m_multipolygon_size_offset = header(m_data, wkbMultiPolygon, true);
    }

    // B1: the polygon level shares the ring level's slot
    void multipolygon_polygon_start() {
        ++m_polygons;
        m_rings = 0;
        m_ring_size_offset = header(m_data, wkbPolygon, true);
    }

    void multipolygon_polygon_finish() { set_size(m_ring_size_offset, m_rings); }

    void multipolygon_outer_ring_start() {
        ++m_rings;
        m_points = 0;
        m_ring_size_offset = m_data.size();
        str_push(m_data, static_cast<uint32_t>(0));
    }

    void multipolygon_outer_ring_finish() { set_size(m_ring_size_offset, m_points); }

    // B1: inner rings are not counted
    void multipolygon_inner_ring_start() {
        m_points = 0;
        m_ring_size_offset = m_data.size();
        str_push(m_data, static_cast<uint32_t>(0));
    }

    void multipolygon_inner_ring_finish() { set_size(m_ring_size_offset, m_points); }

    void multipolygon_add_location(const osmium::geom::Coordinates& xy) {
        str_push(m_data, xy.x);
        str_push(m_data, xy.y);
        ++m_points;
    }

    multipolygon_type multipolygon_finish() {
        set_size(m_multipolygon_size_offset, m_polygons);
        std::string data;
        using std::swap;
        swap(data, m_data);
        if (m_out_type == out_type::hex) {
            return convert_to_hex(data);
        }
        return data;
    }
};

// S1: polygons of a multipolygon are not separated, polygon coordinates use a fixed precision; B6: linestring_start appends
class WKTFactoryImpl {
    std::string m_srid_prefix;
    std::string m_str;
    int m_precision;

public:
    using point_type = std::string;
    using linestring_type = std::string;
    using polygon_type = std::string;
    using multipolygon_type = std::string;

    explicit WKTFactoryImpl(int srid, int precision = 7) : m_precision(precision) {
        if (srid != 4326) {
            m_srid_prefix = "SRID=x;";
        }
    }

    point_type make_point(const osmium::geom::Coordinates& xy) const {
        std::string str{m_srid_prefix};
        str += "POINT";
        xy.append_to_string(str, '(', ' ', ')', m_precision);
        return str;
    }
    void linestring_start() {
        m_str += m_srid_prefix;
        m_str += "LINESTRING(";
    }
    void linestring_add_location(const osmium::geom::Coordinates& xy) {
        xy.append_to_string(m_str, ' ', m_precision);
        m_str += ',';
    }
    linestring_type linestring_finish(size_t) {
        std::string str;
        using std::swap;
        swap(str, m_str);
        str.back() = ')';
        return str;
    }
    void polygon_start() {
        m_str = m_srid_prefix;
        m_str += "POLYGON((";
    }
    void polygon_add_location(const osmium::geom::Coordinates& xy) {
        xy.append_to_string(m_str, ' ', 7);
        m_str += ',';
    }
    polygon_type polygon_finish(size_t) {
        std::string str;
        using std::swap;
        swap(str, m_str);
        str.back() = ')';
        str += ')';
        return str;
    }
    // M1: the configured prefix is moved out of the factory
    void multipolygon_start() {
        m_str = std::move(m_srid_prefix);
        m_str += "MULTIPOLYGON(";
    }
    void multipolygon_polygon_start() { m_str += '('; }
    void multipolygon_polygon_finish() { m_str += ")"; }
    void multipolygon_outer_ring_start() { m_str += '('; }
    void multipolygon_outer_ring_finish() { m_str.back() = ')'; }
    void multipolygon_inner_ring_start() { m_str += ",("; }
    void multipolygon_inner_ring_finish() { m_str.back() = ')'; }
    void multipolygon_add_location(const osmium::geom::Coordinates& xy) {
        xy.append_to_string(m_str, ' ', m_precision);
        m_str += ',';
    }
    multipolygon_type multipolygon_finish() {
        std::string str;
        using std::swap;
        swap(str, m_str);
        str.back() = ')';
        return str;
    }
};

}  // namespace detail
}  // namespace geom
}  // namespace osmium

template class osmium::geom::GeometryFactory<osmium::geom::detail::WKBFactoryImpl, osmium::geom::IdentityProjection>;
template class osmium::geom::GeometryFactory<osmium::geom::detail::WKTFactoryImpl, osmium::geom::IdentityProjection>;

void c17_positive_use(const osmium::geom::detail::WKBFactoryImpl& wkb, const osmium::geom::detail::WKTFactoryImpl& wkt, const osmium::Location& l) {
    osmium::geom::GeometryFactory<osmium::geom::detail::WKTFactoryImpl, osmium::geom::IdentityProjection> with_settings{osmium::geom::IdentityProjection{}, 3};
    (void)with_settings;
    (void)wkb.make_point(osmium::geom::Coordinates{l});
    (void)wkt.make_point(osmium::geom::Coordinates{1.0, 2.0});
    (void)l.lon();
    (void)l.lat();
}
