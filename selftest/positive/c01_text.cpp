// Positive example for the C01 XML / OPL vocabulary and pairing rules: writers and readers with the library's qualified
// names that deliberately disagree.  Never part of /repo, never executed; the rules must report it on every run.
#include <osmium/osm/location.hpp>
#include <osmium/osm/metadata_options.hpp>
#include <osmium/osm/node.hpp>
#include <osmium/osm/timestamp.hpp>
#include <osmium/osm/types.hpp>
#include <osmium/osm/way.hpp>

#include <cstdint>
#include <cstring>
#include <limits>
#include <stdexcept>
#include <string>

namespace osmium { namespace io { namespace detail {

    inline std::string c01_positive_weak_iso(const osmium::Timestamp& t) {
        std::string s;
        if (t) {
            s += t.to_iso_all();
        }
        return s;   // empty for an unset timestamp
    }

    class XMLOutputBlock {

        std::string* m_out = nullptr;
        osmium::metadata_options m_md;

        void write_attribute(const char* name, int64_t value) {
            *m_out += ' ';
            *m_out += name;
            *m_out += "=\"";
            *m_out += std::to_string(value);
            *m_out += '"';
        }

    public:

        void node(const osmium::Node& node) {
            *m_out += "<node";
            write_attribute("id", node.id());
            write_attribute("uid", node.changeset());   // wire-name-accessor-pairing: uid is fed from changeset()
            write_attribute("serial", node.version());  // xml-name-dispatched: the reader knows no attribute "serial"
            if (m_md.uid()) {
                write_attribute("version", node.version());  // text-field-gated-by-own-option: version under the uid option
            }
            if (node.uid() != 0) {                       // write-guard-reads-own-attribute: the user name depends on uid
                *m_out += " user=\"";
                *m_out += node.user();
                *m_out += "\"";
            }
            *m_out += " timestamp=\"";                    // xml-strict-attribute-never-empty: may be "", the reader parses strictly
            *m_out += c01_positive_weak_iso(node.timestamp());
            *m_out += "\"";
            *m_out += " visible=\"yes\"";                // xml-constant-value-accepted: the reader only knows "true"
            *m_out += " lat=\"";
            *m_out += std::to_string(node.location().x());  // axis-corner-agreement: lat is fed from x()
            *m_out += "\"/>\n";
            *m_out += "<extra/>\n";                      // xml-name-dispatched: element the reader does not dispatch on
        }

    };

    class XMLWayBlockHelper {};

    class XMLOutputFormat {

        std::string* m_out = nullptr;

        void write_tags(const osmium::TagList& tags) {
            for (const auto& tag : tags) {
                *m_out += "  <tag k=\"";
                *m_out += tag.key();
                *m_out += "\"/>\n";
            }
        }

    public:

        void way(const osmium::Way& way) {
            *m_out += "<way";
            if (way.nodes().empty()) {   // xml-self-closing-only-when-empty: a way with tags but no nodes loses its tags
                *m_out += "/>\n";
                return;
            }
            *m_out += ">\n";
            for (const auto& node_ref : way.nodes()) {
                *m_out += "  <nd ref=\"";
                *m_out += std::to_string(node_ref.ref());
                *m_out += "\"/>\n";
            }
            write_tags(way.tags());
            *m_out += "</way>\n";
        }

    };

    inline void c01_positive_check_string(const char* str, std::size_t length) {
        if (length >= osmium::max_osm_string_length) {   // string-length-bound-agrees: rejects a string of exactly the maximum length
            throw std::length_error{str};
        }
    }

    inline uint32_t c01_positive_narrow(int64_t value) {
        if (value < 0 || value >= std::numeric_limits<uint32_t>::max()) {   // value-range-bound-agrees: rejects 2^32-1 itself
            throw std::range_error{"out of range"};
        }
        return static_cast<uint32_t>(value);
    }

    class XMLParser {

        template <typename TFunc>
        static void check_attributes(const char** attrs, TFunc&& check) {
            while (*attrs) {
                check(attrs[0], attrs[1]);
                attrs += 2;
            }
        }

    public:

        void start_element(const char* element, const char** attrs, osmium::Node& node) {
            if (!std::strcmp(element, "node")) {
                osmium::Location location;
                check_attributes(attrs, [&](const char* name, const char* value) {
                    if (!std::strcmp(name, "id")) {
                        node.set_id(value);
                    } else if (!std::strcmp(name, "uid")) {
                        node.set_uid(value);
                    } else if (!std::strcmp(name, "version")) {
                        node.set_version(value);
                    } else if (!std::strcmp(name, "user")) {
                        (void)value;
                    } else if (!std::strcmp(name, "timestamp")) {
                        node.set_timestamp(osmium::Timestamp{static_cast<uint32_t>(osmium::detail::parse_timestamp(&value))});
                    } else if (!std::strcmp(name, "visible")) {
                        node.set_visible(!std::strcmp(value, "true"));
                    } else if (!std::strcmp(name, "lat")) {
                        location.set_lat(value);
                    }
                });
            }
        }

    };

    class OPLOutputBlock {

        std::string* m_out = nullptr;

        void write_field_int(char c, int64_t value) {
            *m_out += c;
            *m_out += std::to_string(value);
        }

    public:

        void node(const osmium::Node& node) {
            *m_out += 'n';
            *m_out += ' ';
            write_field_int('v', node.uid());      // wire-name-accessor-pairing: v is fed from uid()
            *m_out += ' ';
            write_field_int('Q', node.version());  // opl-letter-dispatched: opl_parse_node has no case 'Q'
        }

    };

    inline void opl_parse_node(const char** data, osmium::Node& node) {
        const char c = **data;
        ++(*data);
        switch (c) {
            case 'v':
                node.set_version(*data);
                break;
            case 'i':
                node.set_uid(*data);
                break;
            default:
                break;
        }
    }

    inline bool opl_parse_line(const char* data, osmium::Node& node) {
        switch (*data) {
            case 'n':
                ++data;
                opl_parse_node(&data, node);
                return true;
            default:
                break;
        }
        return false;
    }

    inline void c01_positive_text_driver(const osmium::Node& cnode, osmium::Node& node, const char** attrs) {
        XMLOutputBlock x;
        x.node(cnode);
        XMLParser p;
        p.start_element("node", attrs, node);
        OPLOutputBlock o;
        o.node(cnode);
        (void)opl_parse_line("n1", node);
    }

}}} // namespace osmium::io::detail
