// Positive example for C11 rule L1 (never part of /repo): the update is written to a copy of what the accessor designates.
#include <cstddef>
#include <vector>

namespace c11pos2 {

    class Slots {
        std::vector<std::size_t> m_index;

        std::size_t& slot_ref(std::size_t n) noexcept { return m_index[n]; }

    public:
        void release(std::size_t n) {
            auto slot = slot_ref(n);          // by value: a copy of the slot
            slot = static_cast<std::size_t>(-1);   // lost update (L1)
        }
        void release_ok(std::size_t n) {
            auto& slot = slot_ref(n);
            slot = static_cast<std::size_t>(-1);
        }
        std::size_t bump(std::size_t n) {
            auto v = slot_ref(n);             // working copy that is read after the write: fine
            v = v + 1;
            return v;
        }
    };

}

void c11pos2_driver() {
    c11pos2::Slots s;
    s.release(0);
    s.release_ok(0);
    (void)s.bump(0);
}
