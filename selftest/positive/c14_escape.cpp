// Positive example for the C14 rules: deliberately broken copies of the escaping / unescaping functions with the
// same qualified names.  Never part of /repo, never executed; the rules must report it on every run.
#include <cassert>
#include <cstdint>
#include <cstring>
#include <iterator>
#include <memory>
#include <stdexcept>
#include <string>

namespace osmium {

    class RelationMember {
    public:
        const char* role() const noexcept;
    };

    class Tag {
    public:
        const char* key() const noexcept;
        const char* value() const noexcept;
    };

    namespace io {

        namespace detail {

            inline uint8_t utf8_sequence_length(uint32_t first) noexcept {
                if (first <= 0x80U) {  // N3: 0x80 is a continuation byte
                    return 1U;
                }
                if ((first >> 5U) == 0x6U) {
                    return 2U;
                }
                if ((first >> 4U) == 0xeU) {
                    return 3U;
                }
                if ((first >> 3U) == 0x1eU) {
                    return 4U;
                }
                return 0;
            }

            inline uint32_t next_utf8_codepoint(char const** begin, const char* end) {
                const auto* it = reinterpret_cast<const uint8_t*>(*begin);
                uint32_t cp = 0xffU & *it;
                const auto length = utf8_sequence_length(cp);
                if (length == 0) {
                    throw std::runtime_error{"invalid Unicode codepoint"};
                }
                // N2: no test of the remaining length
                (void)end;
                switch (length) {
                    case 1:
                        break;
                    case 2:
                        ++it;
                        cp = ((cp << 6U) & 0x3ffU) + ((*it) & 0x3fU);  // U2: loses payload bit 10
                        break;
                    case 3:
                        ++it;
                        cp = ((cp << 12U) & 0xffffU) + (((0xffU & *it) << 6U) & 0xfffU);
                        ++it;
                        cp += (*it) & 0x3fU;
                        ++it;  // N2: one advance too many
                        break;
                    case 4:
                        ++it;
                        cp = ((cp << 18U) & 0x1fffffU) + (((0xffU & *it) << 12U) & 0x3ffffU);
                        ++it;
                        cp += ((0xffU & *it) << 6U) & 0xfffU;
                        ++it;
                        cp += (*it) & 0x3fU;
                        break;
                    default:
                        break;
                }
                ++it;
                *begin = reinterpret_cast<const char*>(it);
                return cp;
            }

            inline void append_2_hex_digits(std::string& out, uint32_t value, const char* const hex_digits) {
                out += hex_digits[ value        & 0xfU];  // O4: least significant digit first
                out += hex_digits[(value >> 4U) & 0xfU];
            }

            inline void append_min_4_hex_digits(std::string& out, uint32_t value, const char* const hex_digits) {
                if (value >> 20U) { out += hex_digits[(value >> 20U) & 0xfU]; }
                if (value >> 16U) { out += hex_digits[(value >> 16U) & 0xfU]; }
                out += hex_digits[(value >> 12U) & 0xfU];
                out += hex_digits[(value >>  8U) & 0xfU];
                out += hex_digits[(value >>  4U) & 0xfU];
                out += hex_digits[ value         & 0xfU];
            }

            inline void append_utf8_encoded_string(std::string& out, const char* data) {
                static const char* lookup_hex = "0123456789abcdeg";  // O3: 'g' is not a hex digit for the reader
                const char* end_ptr = data + std::strlen(data) + 1;  // N4
                while (data != end_ptr) {
                    const char* prev = data;
                    const uint32_t c = next_utf8_codepoint(&data, end_ptr);
                    if ((0x0021 <= c && c <= 0x0024) ||
                        (0x0026 <= c && c <= 0x002c) ||  // O1: lets ',' through
                        (0x002d <= c && c <= 0x003c) ||
                        (0x003e <= c && c <= 0x003f) ||
                        (0x0041 <= c && c <= 0x007e)) {
                        out.append(prev, data - 1);  // O6
                    } else {
                        out += '%';
                        if (c <= 0xff) {
                            append_2_hex_digits(out, c, lookup_hex);
                        } else {
                            append_min_4_hex_digits(out, static_cast<uint8_t>(*prev), lookup_hex);  // O8: first byte, not the code point
                        }
                        out += ';';  // O2: the reader ends an escape on '%'
                    }
                }
            }

            inline void append_xml_encoded_string(std::string& out, const char* data) {
                if (!std::strpbrk(data, "&\"<>\r\n")) {  // X1: the fast path lets '\t' (and '\'') through
                    out.append(data);
                    return;
                }
                for (; *data != '\0'; ++data) {
                    switch (*data) {
                        case '&':  out += "&amp;";  break;
                        case '\"': out += "&quot;"; break;
                        // X1: no case for '\''
                        case '<':  out += "&gt;";   break;  // X1: wrong entity
                        case '>':  out += "&gt;";   break;
                        case '\n': out += "&#xA;";  break;
                        case '\r': out += "&#xD;";  break;
                        case '\t': out += "&#x9;";  break;
                        default:   out += *data;    break;
                    }
                }
            }

            template <typename TOutputIterator>
            TOutputIterator append_codepoint_as_utf8(uint32_t cp, TOutputIterator out) {
                if (cp < 0x80UL) {
                    *(out++) = static_cast<char>(cp);
                } else if (cp < 0x7ffUL) {  // R2: U+07FF gets three bytes
                    *(out++) = static_cast<char>( (cp >>  6U)          | 0xc0U);
                    *(out++) = static_cast<char>(( cp         & 0x3fU) | 0x80U);
                } else if (cp < 0x10000UL) {
                    *(out++) = static_cast<char>( (cp >> 12U)          | 0xe0U);
                    *(out++) = static_cast<char>(((cp >>  6U) & 0x3fU) | 0x80U);
                    *(out++) = static_cast<char>(( cp         & 0x3fU) | 0x80U);
                } else {
                    *(out++) = static_cast<char>( (cp >> 18U)          | 0xf0U);
                    *(out++) = static_cast<char>(((cp >> 12U) & 0x3fU) | 0x80U);
                    *(out++) = static_cast<char>(((cp >>  6U) & 0x3fU) | 0x80U);
                    *(out++) = static_cast<char>(( cp         & 0x3fU) | 0x80U);
                }
                return out;
            }

            inline void opl_parse_space(const char** s) {
                if (**s != ' ' && **s != '\t') {
                    throw std::runtime_error{"expected space or tab character"};
                }
                do {
                    ++*s;
                } while (**s == ' ' || **s == '\t');
            }

            inline bool opl_non_empty(const char* s) {
                return *s != '\0' && *s != ' ' && *s != '\t';
            }

            inline void opl_parse_escaped(const char** data, std::string& result) {
                const char* s = *data;
                uint32_t value = 0;
                const int max_length = 4;  // O5: the writer emits up to 6 digits
                int length = 0;
                while (++length <= max_length) {
                    if (*s == '\0') {
                        throw std::runtime_error{"eol"};
                    }
                    if (*s == '%') {
                        ++s;
                        if (value == 0) {
                            result += '%';
                        } else {
                            if (value > 0x10ffffU || (value >= 0xd800U && value <= 0xe000U)) {  // R4: refuses U+E000
                                throw std::runtime_error{"not a Unicode scalar value"};
                            }
                            append_codepoint_as_utf8(value, std::back_inserter(result));
                        }
                        *data = s;
                        return;
                    }
                    value <<= 3U;  // R1
                    if (*s >= '0' && *s <= '9') {
                        value += *s - '0';
                    } else if (*s >= 'a' && *s <= 'f') {
                        value += *s - 'a' + 10;
                    } else if (*s >= 'A' && *s <= 'F') {
                        value += *s - 'A' + 10;
                    } else {
                        throw std::runtime_error{"not a hex char"};
                    }
                    ++s;
                }
                throw std::runtime_error{"hex escape too long"};
            }

            inline void opl_parse_string(const char** data, std::string& result) {
                const char* s = *data;
                while (true) {
                    if (*s == ' ' || *s == '\t' || *s == ',' || *s == '=') {  // N1: NUL is copied and skipped
                        break;
                    }
                    if (*s == '%') {
                        ++s;
                        opl_parse_escaped(&s, result);
                    } else {
                        result += *s;
                        ++s;
                    }
                }
                *data = s;
            }

            inline void opl_parse_char(const char** data, char c) {
                if (**data == c) {
                    ++*data;
                    return;
                }
                throw std::runtime_error{"expected char"};
            }

            inline void opl_parse_tags(const char* s, std::string& key, std::string& value) {
                opl_parse_string(&s, key);
                opl_parse_char(&s, '=');
                opl_parse_string(&s, value);
                if (opl_non_empty(s)) {
                    opl_parse_char(&s, ',');
                }
            }

            template <typename T>
            void line_by_line(T& worker) {
                std::string input{worker.get_input()};
                const auto pos = input.find_first_of("\n\r");
                if (pos != std::string::npos) {
                    input[pos] = '\0';
                }
                worker.parse_line(input.data());
            }

            struct positive_worker {
                std::string get_input();
                void parse_line(const char* data);
            };

            template void line_by_line<positive_worker>(positive_worker&);

            class OPLOutputBlock {
                std::shared_ptr<std::string> m_out;

                void append_encoded_string(const char* data) noexcept {  // E1: a cut-off sequence ends in std::terminate
                    osmium::io::detail::append_utf8_encoded_string(*m_out, data);
                }

            public:
                void relation_member(const osmium::RelationMember& member) {
                    *m_out += '@';
                    *m_out += member.role();  // O7: unescaped
                }

                void tag(const osmium::Tag& tag) {
                    append_encoded_string(tag.key());
                    *m_out += '=';
                    append_encoded_string(tag.value());
                }
            };

            class XMLParser {
                std::string m_comment_text;

            public:
                void characters(const char* text, int len) {
                    m_comment_text.assign(text, len);  // X3: keeps only the last chunk
                }
            };

            class XMLOutputBlock {
                std::shared_ptr<std::string> m_out;

            public:
                void relation(const osmium::RelationMember& member) {
                    *m_out += " role=\"";
                    *m_out += member.role();  // X2: unescaped
                    *m_out += "\"/>\n";
                }

                void tag(const osmium::Tag& tag) {
                    append_xml_encoded_string(*m_out, tag.key());
                    append_xml_encoded_string(*m_out, tag.value());
                }
            };

            inline void verif_positive_c14(std::string& out, const char* data, OPLOutputBlock& o, XMLOutputBlock& x,
                                           const osmium::RelationMember& m, const osmium::Tag& t, XMLParser& xp) {
                xp.characters(data, 1);
                append_utf8_encoded_string(out, data);
                append_xml_encoded_string(out, data);
                std::string k;
                std::string v;
                opl_parse_tags(data, k, v);
                opl_parse_space(&data);
                o.relation_member(m);
                o.tag(t);
                x.relation(m);
                x.tag(t);
            }

        } // namespace detail

    } // namespace io

} // namespace osmium
