// Positive example for the C01 Writer ordering rules: same qualified names as osmium/io/writer.hpp, deliberately wrong.
// Never part of /repo, never executed; the rules must report it on every run.
#include <cstddef>
#include <memory>
#include <stdexcept>
#include <utility>

namespace osmium {

    struct buffer_is_full : public std::runtime_error {
        buffer_is_full() : std::runtime_error("full") {}
    };

    namespace memory {

        class Item {};

        class Buffer {
            std::size_t m_committed = 0;
        public:
            Buffer() = default;
            explicit Buffer(std::size_t) {}
            explicit operator bool() const noexcept { return true; }
            std::size_t committed() const noexcept { return m_committed; }
            void push_back(const Item&) { ++m_committed; }
            void add_item(const Item&) {}
            void commit() { ++m_committed; }
            friend void swap(Buffer& a, Buffer& b) noexcept { std::swap(a.m_committed, b.m_committed); }
        };

    } // namespace memory

    namespace io {

        namespace detail {

            class OutputFormat {
            public:
                virtual ~OutputFormat() = default;
                virtual void write_buffer(osmium::memory::Buffer&&) = 0;
                virtual void write_end() {}
            };

        } // namespace detail

        class Writer {

            std::unique_ptr<detail::OutputFormat> m_output;
            osmium::memory::Buffer m_buffer;
            bool m_ok = true;

            void do_write(osmium::memory::Buffer&& buffer) {
                if (buffer && buffer.committed() > 0) {
                    m_output->write_buffer(std::move(buffer));
                }
            }

            void do_flush() {
                if (m_buffer && m_buffer.committed() > 0) {
                    osmium::memory::Buffer buffer{100};
                    using std::swap;
                    swap(m_buffer, buffer);
                    m_output->write_buffer(std::move(buffer));
                }
            }

            template <typename TFunction>
            void ensure_cleanup(TFunction func) {
                if (m_ok) {
                    return;  // writer-flush-entry-points: returns without running the function
                }
                func();
            }

        public:

            void flush() {
                ensure_cleanup([&]() {
                    if (m_ok) {
                        return;  // writer-flush-entry-points: a path without do_flush
                    }
                    do_flush();
                });
            }

            void operator()(osmium::memory::Buffer&& buffer) {
                ensure_cleanup([&]() {
                    do_write(std::move(buffer));  // writer-flush-before-foreign-buffer: pending items come out after it
                    do_flush();
                });
            }

            void operator()(const osmium::memory::Item& item) {
                ensure_cleanup([&]() {
                    try {
                        m_buffer.push_back(item);
                    } catch (const osmium::buffer_is_full&) {
                        m_buffer.add_item(item);  // writer-full-buffer-flushed-before-retry, writer-item-committed (no commit)
                        do_flush();
                    }
                });
            }

            void close() {
                ensure_cleanup([&]() {
                    m_output->write_end();  // writer-pending-flushed-before-end
                    do_write(std::move(m_buffer));
                });
            }

        };

        inline void c01_positive_writer_driver(Writer& w, osmium::memory::Buffer&& b, const osmium::memory::Item& i) {
            w(i);
            w(std::move(b));
            w.flush();
            w.close();
        }

    } // namespace io

} // namespace osmium
