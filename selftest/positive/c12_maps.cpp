// Positive example for the C12 rules: deliberately broken index classes carrying the library's qualified names.
// Never part of /repo, never executed; the rules must report it on every run.
#include <algorithm>
#include <fcntl.h>
#include <sys/mman.h>
#include <unistd.h>
#include <cstddef>
#include <cstdint>
#include <limits>
#include <map>
#include <stdexcept>
#include <utility>
#include <vector>

namespace osmium {

struct not_found : public std::runtime_error {
    explicit not_found(uint64_t) : std::runtime_error("not found") {}
    explicit not_found(const char* w) : std::runtime_error(w) {}
};

struct Location {
    int32_t x = 2147483647;
    int32_t y = 2147483647;
    explicit operator bool() const noexcept { return x != 2147483647; }
};
inline bool operator==(const Location& a, const Location& b) noexcept { return a.x == b.x && a.y == b.y; }
inline bool operator<(const Location& a, const Location& b) noexcept { return a.x < b.x; }

namespace index {

template <typename T>
constexpr T empty_value() { return T{}; }

namespace map {

template <typename TId, typename TValue>
class Map {
public:
    virtual ~Map() = default;
    virtual void set(TId id, TValue value) = 0;
    virtual TValue get(TId id) const = 0;
    virtual TValue get_noexcept(TId id) const noexcept = 0;
    virtual void sort() {}
};

// dense: no empty test in get (G1), bounds test off by one (B1), get_noexcept returns a default value (G2), set resizes too little (B1)
template <typename TId, typename TValue>
class BadDense : public Map<TId, TValue> {
    std::vector<TValue> m_vector;
public:
    void reserve(const std::size_t size) { m_vector.resize(size); }     // P1: cuts the vector down
    void set(const TId id, const TValue value) final {
        if (m_vector.size() <= id) {
            m_vector.resize(id);
        }
        m_vector[id] = value;
    }
    TValue get(const TId id) const final {
        if (id > m_vector.size()) {
            throw osmium::not_found{id};
        }
        return m_vector[id];
    }
    TValue get_noexcept(const TId id) const noexcept final {
        if (id >= m_vector.size()) {
            return TValue{};
        }
        return m_vector[id];
    }
};

// sparse: search comparator looks at the value (S1), no key test (G1), end() not tested (G2)
template <typename TId, typename TValue>
class BadSparse : public Map<TId, TValue> {
    using element_type = std::pair<TId, TValue>;
    std::vector<element_type> m_vector;
    typename std::vector<element_type>::const_iterator find_id(const TId id) const noexcept {
        const element_type element{id, osmium::index::empty_value<TValue>()};
        return std::lower_bound(m_vector.begin(), m_vector.end(), element, [](const element_type& a, const element_type& b) {
            return a.second < b.second;
        });
    }
public:
    void set(const TId id, const TValue value) final {
        m_vector.push_back(element_type(id, value));
    }
    void sort() final { std::sort(m_vector.begin(), m_vector.end()); }
    TValue get(const TId id) const final {
        const auto result = find_id(id);
        if (result == m_vector.end()) {
            throw std::out_of_range{"no"};
        }
        return result->second;
    }
    TValue get_noexcept(const TId id) const noexcept final {
        const auto result = find_id(id);
        if (result->first != id) {
            return osmium::index::empty_value<TValue>();
        }
        return result->second;
    }
};

// self-switching: blocks are allocated too short and read without an allocation test (F1), the switch clears before it copies and
// skips entries (F2), dispatch inverted (F3), sort() does not sort the searched vector (S2)
template <typename TId, typename TValue>
class FlexMem : public Map<TId, TValue> {
    enum { bits = 16 };
    enum : uint64_t { block_size = 1ULL << bits };
    struct entry {
        uint64_t id;
        TValue value;
        entry(uint64_t i, TValue v) : id(i), value(v) {}
        bool operator<(const entry other) const noexcept { return id < other.id; }
    };
    std::vector<entry> m_sparse_entries;
    std::vector<std::vector<TValue>> m_dense_blocks;
    bool m_dense = false;
    static uint64_t block(const uint64_t id) noexcept { return id >> bits; }
    static uint64_t offset(const uint64_t id) noexcept { return id & (block_size - 1); }
    void assure_block(const uint64_t num) {
        if (num >= m_dense_blocks.size()) {
            m_dense_blocks.resize(num + 1);
        }
        if (m_dense_blocks[num].empty()) {
            m_dense_blocks[num].assign(block_size / 2, osmium::index::empty_value<TValue>());
        }
    }
    void set_sparse(const uint64_t id, const TValue value) { m_sparse_entries.emplace_back(id, value); }
    TValue get_sparse(const uint64_t id) const noexcept {
        const auto it = std::lower_bound(m_sparse_entries.begin(), m_sparse_entries.end(), entry{id, osmium::index::empty_value<TValue>()});
        if (it == m_sparse_entries.end() || it->id != id) {
            return osmium::index::empty_value<TValue>();
        }
        return it->value;
    }
    void set_dense(const uint64_t id, const TValue value) {
        assure_block(block(id));
        m_dense_blocks[block(id)][offset(id)] = value;
    }
    TValue get_dense(const uint64_t id) const noexcept {
        if (m_dense_blocks.size() <= block(id)) {
            return osmium::index::empty_value<TValue>();
        }
        return m_dense_blocks[block(id)][offset(id)];
    }
public:
    void set(const TId id, const TValue value) final {
        if (m_dense) {
            set_sparse(id, value);
        } else {
            set_dense(id, value);
        }
    }
    TValue get_noexcept(const TId id) const noexcept final {
        if (m_dense) {
            return get_dense(id);
        }
        return get_sparse(id);
    }
    TValue get(const TId id) const final {
        const auto value = get_noexcept(id);
        if (value == osmium::index::empty_value<TValue>()) {
            throw osmium::not_found{id};
        }
        return value;
    }
    void sort() final {}
    void switch_to_dense() {
        if (m_dense) {
            return;
        }
        m_sparse_entries.clear();
        for (const auto& entry : m_sparse_entries) {
            if (entry.id == 7) {
                continue;
            }
            set_dense(entry.id, entry.value);
        }
        m_dense = true;
    }
};

template class BadDense<uint64_t, osmium::Location>;
template class BadSparse<uint64_t, osmium::Location>;
template class FlexMem<uint64_t, osmium::Location>;

} // namespace map
} // namespace index

namespace detail {

template <typename T>
struct TypedMemoryMappingStub {
    std::size_t m_n = 0;
    T* m_p = nullptr;
    void resize(std::size_t n) { m_n = n; }
    std::size_t size() const noexcept { return m_n; }
    T* begin() noexcept { return m_p; }
};

} // namespace detail

template <typename T>
using TypedMemoryMapping = detail::TypedMemoryMappingStub<T>;

namespace detail {

// growth without fill (V1), size may exceed capacity (V2), push_back writes one past the end (V2)
template <typename T>
class mmap_vector_base {
protected:
    std::size_t m_size = 0;
    osmium::TypedMemoryMapping<T> m_mapping;
public:
    std::size_t capacity() const noexcept { return m_mapping.size(); }
    T* data() { return m_mapping.begin(); }
    void reserve(const std::size_t new_capacity) {
        if (new_capacity > capacity()) {
            m_mapping.resize(new_capacity);
            const std::size_t old_capacity = capacity();
            std::fill(data() + old_capacity, data() + new_capacity, osmium::index::empty_value<T>());
        }
    }
    void resize(const std::size_t new_size) {
        if (new_size > capacity()) {
            reserve(capacity() + 1024);
        }
        m_size = new_size;
    }
    void push_back(const T& value) {
        resize(m_size + 1);
        data()[m_size] = value;
    }
};

template class mmap_vector_base<osmium::Location>;

} // namespace detail

namespace handler {

// flag never set on a descent (N2), only one storage sorted (N1), no sentinel reset (N3), negative ids looked up in the wrong storage (N4)
template <typename TPos, typename TNeg>
class NodeLocationsForWays {
    TPos& m_storage_pos;
    TNeg& m_storage_neg;
    uint64_t m_last_id = 0;
    bool m_ignore_errors = false;
    bool m_must_sort = false;
public:
    NodeLocationsForWays(TPos& p, TNeg& n) : m_storage_pos(p), m_storage_neg(n) {}
    void node(int64_t id, uint64_t positive_id, osmium::Location loc) {
        if (positive_id > m_last_id) {
            m_must_sort = true;
        }
        m_last_id = positive_id;
        if (id >= 0) {
            m_storage_pos.set(static_cast<uint64_t>(id), loc);
        } else {
            m_storage_neg.set(static_cast<uint64_t>(-id), loc);
        }
    }
    osmium::Location get_node_location(const int64_t id) const {
        if (id >= 0) {
            return m_storage_pos.get_noexcept(static_cast<uint64_t>(id));
        }
        return m_storage_pos.get_noexcept(static_cast<uint64_t>(-id));
    }
    void way(std::vector<std::pair<int64_t, osmium::Location>>& refs) {
        bool error = false;
        for (auto& r : refs) {
            r.second = get_node_location(r.first);
            if (!r.second) {
                error = true;
            }
        }
        if (m_must_sort) {
            m_storage_pos.sort();
            m_must_sort = false;
        }
        if (!m_ignore_errors && error) {
            throw osmium::not_found{"location for one or more nodes not found in node location index"};
        }
    }
};

using map_t = osmium::index::map::Map<uint64_t, osmium::Location>;
template class NodeLocationsForWays<map_t, map_t>;

} // namespace handler

} // namespace osmium

// O1: the index file is truncated when it is re-opened; M1: the file is grown with the old size, and only after the new size is mapped
namespace osmium {

namespace index { namespace detail {

template <typename T>
inline T* create_map_with_fd(const char* filename) {
    const int fd = ::open(filename, O_CREAT | O_RDWR | O_TRUNC, 0644);
    if (fd == -1) {
        throw osmium::not_found{"open"};
    }
    return new T{fd};
}

struct fd_map { explicit fd_map(int) {} };
template fd_map* create_map_with_fd<fd_map>(const char*);

}} // namespace index::detail

class MemoryMapping {
    std::size_t m_size = 0;
    off_t m_offset = 0;
    int m_fd = 0;
    void* m_addr = nullptr;
    void resize_fd(int fd) const {
        if (::ftruncate(fd, static_cast<off_t>(m_size + m_offset)) != 0) {
            throw osmium::not_found{"ftruncate"};
        }
    }
    void unmap() {
        if (m_addr != nullptr) {
            ::munmap(m_addr, m_size);
        }
    }
public:
    MemoryMapping() = default;
    // L1: m_fd is not taken over; L2: the moved-from mapping stays valid and the own mapping is not released first
    MemoryMapping& operator=(MemoryMapping&& other) noexcept {
        m_size = other.m_size;
        m_offset = other.m_offset;
        m_addr = other.m_addr;
        return *this;
    }
    void close() { unmap(); }
    void resize(std::size_t new_size) {
        resize_fd(m_fd);
        m_size = new_size;
        m_addr = ::mmap(nullptr, new_size, PROT_READ, MAP_SHARED, m_fd, m_offset);
    }
};

} // namespace osmium
