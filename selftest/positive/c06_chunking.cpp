// Positive example for the C06 rules: deliberately broken piece/carry-over handling with the same qualified anchor names
// (osmium::io::detail::Parser::get_input / input_done, osmium::io::Decompressor::read, add_to_queue, at_end_of_data,
// reliable_read, XML_Parse).  Never part of /repo, never executed; the rules must report it on every run.
#include <cstddef>
#include <cstdint>
#include <string>
#include <utility>

extern "C" int XML_Parse(void* parser, const char* s, int len, int isFinal);
extern "C" void XML_SetCharacterDataHandler(void* parser, void (*handler)(void*, const char*, int));

namespace protozero { uint64_t decode_varint(const char** data, const char* end); }

namespace osmium { namespace io {

class Decompressor {
public:
    virtual ~Decompressor() = default;
    virtual std::string read() = 0;
};

namespace detail {

struct queue_t {};
void add_to_queue(queue_t& queue, std::string&& data);
inline bool at_end_of_data(const std::string& data) noexcept { return data.empty(); }
int64_t reliable_read(int fd, char* buffer, unsigned int size);

class Parser {
public:
    virtual ~Parser() = default;
    std::string get_input();
    bool input_done() const;
};

// W1 (stale window on `return false`), W2 (ignored result, unbounded read), M3 (erase is not the consumed prefix),
// M5 (single `if` instead of a refill loop), E2 (failure decided from the piece, not from the queue state)
class BadWindowParser : public Parser {
    std::string m_input;
    const char* m_data = nullptr;
    const char* m_end = nullptr;

    bool refill(std::size_t need) {
        if (static_cast<std::size_t>(m_end - m_data) >= need) {
            return true;
        }
        m_input.erase(0, m_end - m_input.data());
        if (m_input.size() < need) {
            const std::string piece{get_input()};
            if (piece.empty()) {
                return false;
            }
            m_input.append(piece);
        }
        m_data = m_input.data();
        m_end = m_input.data() + m_input.size();
        return true;
    }

public:
    char next() {
        refill(1);
        return *m_data++;
    }

    bool more() {
        return refill(1);
    }

    // W4: only one byte requested before a varint of up to 10 bytes is decoded from the window
    uint64_t length() {
        if (!refill(1)) {
            return 0;
        }
        return protozero::decode_varint(&m_data, m_end);
    }
};

// M1 (assignment instead of append), M2 (piece not kept), M4 (pop with another length, read after pop), E1 (no end-of-input test)
class BadQueueParser : public Parser {
    std::string m_buffer;

    void ensure(std::size_t size) {
        while (m_buffer.size() < size) {
            const std::string piece{get_input()};
            m_buffer = piece;
        }
    }

    void pop(std::size_t size) {
        m_buffer.erase(0, size);
    }

public:
    std::string take(std::size_t size) {
        ensure(size);
        std::string out;
        pop(size + 1);
        out.append(m_buffer, 0, size);
        return out;
    }

    void skip(std::size_t size) {
        ensure(size);
        pop(size);
    }
};

class LineParser : public Parser {
public:
    void parse_line(const char* line);
};

// W3 (pointer into the piece used after the piece was grown), M1 (clear without consumption), M6 (remainder never delivered)
template <typename T>
void bad_lines(T& worker) {
    std::string rest;
    while (!worker.input_done()) {
        std::string input{worker.get_input()};
        const char* p = input.data();
        input.append("\n");
        worker.parse_line(p);
        rest.append(input);
        if (input.size() > 10) {
            rest.clear();
        }
        if (input.size() > 100) {
            break;  // E3: piece loop left although input is not done
        }
    }
}
template void bad_lines<LineParser>(LineParser&);

// X2 (final flag evaluated before the pop), X3 (isFinal constant)
class BadXml : public Parser {
    void* m_parser = nullptr;

    void feed(const std::string& data, bool last) {
        XML_Parse(m_parser, data.data(), static_cast<int>(data.size()), last);
    }

    void feed_never_final(const std::string& data, bool last) {
        (void)last;
        XML_Parse(m_parser, data.data(), static_cast<int>(data.size()), 0);
    }

public:
    void run() {
        while (!input_done()) {
            const bool last = input_done();
            const std::string data{get_input()};
            feed(data, last);
        }
    }

    void run2() {
        while (!input_done()) {
            const std::string data{get_input()};
            feed_never_final(data, input_done());
        }
    }
};

// M1 (XML text accumulator assigned instead of appended in the character-data callback)
class BadText : public Parser {
    std::string m_text;

    void characters(const char* text, int len) {
        m_text.assign(text, static_cast<std::size_t>(len));
    }

    static void character_data(void* data, const char* text, int len) {
        static_cast<BadText*>(data)->characters(text, len);
    }

public:
    void init(void* parser) {
        XML_SetCharacterDataHandler(parser, character_data);
    }
};

// T1 (a one-byte piece ends the stream)
class BadReadThread {
    Decompressor& m_decompressor;
    queue_t& m_queue;

public:
    BadReadThread(Decompressor& d, queue_t& q) : m_decompressor(d), m_queue(q) {}

    void run() {
        for (;;) {
            std::string data{m_decompressor.read()};
            if (data.size() < 2) {
                break;
            }
            add_to_queue(m_queue, std::move(data));
        }
    }
};

// F1 (a short read is taken for truncation)
class BadFdParser : public Parser {
    int m_fd = 0;

public:
    unsigned read_len() {
        char buf[4];
        if (reliable_read(m_fd, buf, 4) < 4) {
            throw 1;
        }
        return static_cast<unsigned char>(buf[0]);
    }
};

// F3 (a short read is remembered as "last block": the next call returns the empty end-of-data piece without reading)
class BadProducer : public Decompressor {
    int m_fd = 0;
    const char* m_buffer = nullptr;
    bool m_last_block_seen = false;

public:
    std::string read() override {
        std::string buffer;
        if (m_buffer) {
            buffer.append(m_buffer);
        } else if (!m_last_block_seen) {
            buffer.resize(1024);
            const auto nread = detail::reliable_read(m_fd, &*buffer.begin(), 1024);
            buffer.resize(static_cast<std::string::size_type>(nread));
            m_last_block_seen = buffer.size() < 1024;
        }
        return buffer;
    }
};

// F2 (every read stores at the start of the buffer)
inline bool bad_read_exactly(int fd, char* buffer, unsigned int size) {
    unsigned int to_read = size;
    while (to_read > 0) {
        const int64_t n = reliable_read(fd, buffer, to_read);
        if (n == 0) {
            return false;
        }
        to_read -= static_cast<unsigned int>(n);
    }
    return true;
}

inline bool use_bad_read_exactly(char* b) {
    return bad_read_exactly(0, b, 4);
}

} // namespace detail

} } // namespace osmium::io
