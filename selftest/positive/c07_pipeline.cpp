// Positive example for the C07 rules: a deliberately broken reader pipeline with the library's qualified names.
// Never part of /repo, never executed or linked; the rules must report it on every run.
#include <atomic>
#include <exception>
#include <functional>
#include <future>
#include <memory>
#include <stdexcept>
#include <string>
#include <system_error>
#include <thread>
#include <vector>
#include <cerrno>
#include <cstdlib>
#include <sys/types.h>
#include <sys/wait.h>
#include <unistd.h>

namespace osmium {

namespace memory {
    class Buffer {
        int m_size = 0;
    public:
        explicit operator bool() const noexcept { return m_size != 0; }
        int committed() const noexcept { return m_size; }
    };
}

namespace thread {

    template <typename T>
    class Queue {
        std::atomic<bool> m_in_use{true};
    public:
        void push(T) {}
        void wait_and_pop(T&) {}
        bool in_use() const noexcept { return m_in_use; }
        void shutdown() { m_in_use = false; }
    };

    class thread_handler {
        std::thread m_thread;
    public:
        thread_handler() = default;
        template <typename TFunction, typename... TArgs>
        explicit thread_handler(TFunction&& f, TArgs&&... args) : m_thread(std::forward<TFunction>(f), std::forward<TArgs>(args)...) {}
        thread_handler(thread_handler&&) noexcept = default;
        thread_handler& operator=(thread_handler&&) noexcept = default;
        ~thread_handler() {
            m_thread.detach();  // J1: never joined
        }
    };

}  // namespace thread

namespace io {

    struct Header {};
    struct io_error : public std::runtime_error { using std::runtime_error::runtime_error; };

    class Decompressor {
    public:
        virtual ~Decompressor() = default;
        virtual std::string read() = 0;
        virtual void close() = 0;
    };

    class FailingDecompressor : public Decompressor {
    public:
        std::string read() override { throw io_error{"read failed"}; }
        void close() override { throw io_error{"close failed"}; }
    };

    namespace detail {

        template <typename T>
        using future_queue_type = osmium::thread::Queue<std::future<T>>;

        template <typename T>
        inline void add_to_queue(future_queue_type<T>& queue, T&& data) {
            std::promise<T> promise;
            if (!queue.in_use()) {
                return;  // P1: a path without the push and without fulfilling the promise
            }
            queue.push(promise.get_future());
            promise.set_value(std::forward<T>(data));
        }

        template <typename T>
        inline void add_to_queue(future_queue_type<T>& queue, std::exception_ptr&& exception) {
            std::promise<T> promise;
            queue.push(promise.get_future());
            promise.set_exception(std::move(exception));
        }

        template <typename T>
        inline void add_end_of_data_to_queue(future_queue_type<T>& queue) {
            add_to_queue<T>(queue, T{});
        }

        inline bool at_end_of_data(const std::string& data) noexcept { return data.empty(); }
        inline bool at_end_of_data(const osmium::memory::Buffer& buffer) noexcept { return !buffer; }

        template <typename T>
        class queue_wrapper {
            future_queue_type<T>& m_queue;
        public:
            explicit queue_wrapper(future_queue_type<T>& queue) : m_queue(queue) {}
            ~queue_wrapper() noexcept {
                try {
                    shutdown();
                } catch (...) {
                }
            }
            void shutdown() { m_queue.shutdown(); }
            T pop() {
                T data;
                if (m_queue.in_use()) {
                    std::future<T> data_future;
                    m_queue.wait_and_pop(data_future);
                    if (data_future.valid()) {
                        data = std::move(data_future.get());
                        if (at_end_of_data(data)) {
                            m_queue.shutdown();
                        }
                    }
                }
                return data;
            }
        };

        class ReadThreadManager {
            std::thread m_thread;  // L1 (init): started from the initialiser list before what it touches exists
            osmium::io::Decompressor& m_decompressor;
            future_queue_type<std::string>& m_queue;
            std::atomic<bool> m_done;

            void run_in_thread() {
                std::string first{m_decompressor.read()};  // E1: work call outside the try; S3: not under the stop-flag test
                try {
                    while (!m_done) {
                        std::string data{m_decompressor.read()};
                        if (at_end_of_data(data)) {
                            break;
                        }
                        add_to_queue(m_queue, std::move(data));
                    }
                    m_decompressor.close();
                    add_end_of_data_to_queue(m_queue);  // E2: end-of-data only on the normal path
                } catch (...) {
                    // E2: exception not forwarded
                }
            }

        public:
            ReadThreadManager(osmium::io::Decompressor& decompressor, future_queue_type<std::string>& queue) :
                m_thread(std::thread(&ReadThreadManager::run_in_thread, this)),
                m_decompressor(decompressor),
                m_queue(queue),
                m_done(false) {
            }
            ~ReadThreadManager() noexcept {
                try {
                    close();
                } catch (...) {
                }
            }
            void stop() noexcept { m_done = true; }
            void close() {
                m_thread.join();  // S3: not guarded by joinable(), stop flag raised only afterwards
                stop();
            }
        };

        struct parser_arguments {
            future_queue_type<std::string>& input_queue;
            future_queue_type<osmium::memory::Buffer>& output_queue;
            std::promise<osmium::io::Header>& header_promise;
            int fd = -1;
        };

        inline bool read_exactly(int fd, char* buffer, unsigned int size) {
            return ::read(fd, buffer, size) == static_cast<long>(size);
        }

        inline void reliable_close(int fd) {
            if (fd >= 0 && ::close(fd) != 0) {
                throw std::system_error{errno, std::system_category(), "Close failed"};
            }
        }

        class Parser {
            future_queue_type<osmium::memory::Buffer>& m_output_queue;
            std::promise<osmium::io::Header>& m_header_promise;
            queue_wrapper<std::string> m_input_queue;
            bool m_header_is_done = false;

        protected:
            void set_header_value(const osmium::io::Header& header) {
                m_header_promise.set_value(header);  // H1: no test-and-set
            }
            void set_header_exception(const std::exception_ptr& exception) {
                if (!m_header_is_done) {
                    m_header_is_done = true;
                    m_header_promise.set_exception(exception);
                }
            }

        public:
            explicit Parser(parser_arguments& args) :
                m_output_queue(args.output_queue),
                m_header_promise(args.header_promise),
                m_input_queue(args.input_queue) {
            }
            virtual ~Parser() noexcept = default;
            virtual void run() = 0;
            void send_to_output_queue(osmium::memory::Buffer&& buffer) { add_to_queue(m_output_queue, std::move(buffer)); }
            std::string get_input() { return m_input_queue.pop(); }
            bool output_in_use() const noexcept { return m_output_queue.in_use(); }
            void parse() {
                try {
                    run();
                } catch (...) {
                    add_end_of_data_to_queue(m_output_queue);
                    add_to_queue(m_output_queue, std::current_exception());  // E2: after the end-of-data marker; header promise forgotten
                    return;
                }
                add_end_of_data_to_queue(m_output_queue);
            }
        };

        class SomeParser final : public Parser {
            bool m_skip = false;
        public:
            explicit SomeParser(parser_arguments& args) : Parser(args) {}
            void run() override {
                std::string data;
                try {
                    data = get_input();
                } catch (const std::runtime_error&) {
                    // X1: swallows the io_error the read thread put into the input queue
                }
                if (m_skip) {
                    return;  // H2: normal exit without the header
                }
                send_to_output_queue(osmium::memory::Buffer{});  // H3: object data before the header
                set_header_value(osmium::io::Header{});
            }
        };

        class FdParser final : public Parser {
            int m_fd;
        public:
            explicit FdParser(parser_arguments& args) : Parser(args), m_fd(args.fd) {}
            void run() override {
                char buffer[4];
                set_header_value(osmium::io::Header{});
                while (read_exactly(m_fd, buffer, 4)) {  // S4: never looks at a queue or a stop flag
                    if (buffer[0] == 0) {
                        throw io_error{"corrupt"};  // F1: leaves without closing the descriptor
                    }
                    if (buffer[0] == 1) {
                        return;  // F1: normal exit without closing the descriptor
                    }
                }
                reliable_close(m_fd);
            }
        };

        class TwiceClosingParser final : public Parser {
            int m_fd;
        public:
            explicit TwiceClosingParser(parser_arguments& args) : Parser(args), m_fd(args.fd) {}
            ~TwiceClosingParser() noexcept override {
                try {
                    reliable_close(m_fd);
                } catch (...) {
                }
            }
            void run() override {
                set_header_value(osmium::io::Header{});
                reliable_close(m_fd);  // F1: member stays valid, the destructor closes the same number again
            }
        };

        // conforming twin: must NOT be reported by S4 / F1
        class GoodFdParser final : public Parser {
            int m_fd;
        public:
            explicit GoodFdParser(parser_arguments& args) : Parser(args), m_fd(args.fd) {}
            ~GoodFdParser() noexcept override {
                try {
                    reliable_close(m_fd);
                } catch (...) {
                }
            }
            void run() override {
                char buffer[4];
                set_header_value(osmium::io::Header{});
                while (output_in_use() && read_exactly(m_fd, buffer, 4)) {
                    if (buffer[0] == 0) {
                        throw io_error{"corrupt"};
                    }
                }
                const int fd = m_fd;
                m_fd = -1;
                reliable_close(fd);
            }
        };

    }  // namespace detail

    class Reader {
        osmium::thread::thread_handler m_thread;  // L1 (destroy): joins only after the queues below are gone
        detail::future_queue_type<std::string> m_input_queue;
        std::unique_ptr<osmium::io::Decompressor> m_decompressor;
        detail::ReadThreadManager m_read_thread_manager;
        detail::future_queue_type<osmium::memory::Buffer> m_osmdata_queue;
        detail::queue_wrapper<osmium::memory::Buffer> m_osmdata_queue_wrapper;
        std::future<osmium::io::Header> m_header_future;
        osmium::io::Header m_header;
        enum class status { okay = 0, error = 1, closed = 2, eof = 3 } m_status = status::okay;
        int m_childpid = 0;

        static void parser_thread(detail::future_queue_type<std::string>& input_queue,
                                  detail::future_queue_type<osmium::memory::Buffer>& osmdata_queue,
                                  std::promise<osmium::io::Header>&& header_promise) {
            std::promise<osmium::io::Header> promise{std::move(header_promise)};
            detail::parser_arguments args = {input_queue, osmdata_queue, promise};
            detail::SomeParser parser{args};
            parser.parse();
        }

        static int execute(const char* command, int* childpid) {
            int pipefd[2];
            if (pipe(pipefd) < 0) {
                throw std::system_error{errno, std::system_category(), "opening pipe failed"};
            }
            const pid_t pid = fork();
            if (pid < 0) {
                throw std::system_error{errno, std::system_category(), "fork failed"};
            }
            if (pid == 0) {
                for (int i = 0; i < 32; ++i) {
                    if (i != pipefd[0] && i != pipefd[1]) {  // W2: the child keeps the read end of its own output pipe
                        ::close(i);
                    }
                }
                if (dup2(pipefd[1], 1) < 0) {
                    std::exit(1);
                }
                if (::execlp(command, command, nullptr) < 0) {
                    std::exit(1);
                }
            }
            *childpid = pid;
            return pipefd[0];  // W2: the parent never closes the write end
        }

    public:
        Reader() :
            m_decompressor(new FailingDecompressor{}),
            m_read_thread_manager(*m_decompressor, m_input_queue),
            m_osmdata_queue_wrapper(m_osmdata_queue) {
            std::promise<osmium::io::Header> header_promise;
            m_header_future = header_promise.get_future();
            (void)execute("curl", &m_childpid);
            m_thread = osmium::thread::thread_handler{parser_thread, std::ref(m_input_queue), std::ref(m_osmdata_queue), std::move(header_promise)};
        }

        ~Reader() {
            close();  // D1: close() throws
        }

        void close() {
            m_read_thread_manager.stop();
            m_read_thread_manager.close();       // S3: joined before the result queue is shut down
            m_osmdata_queue_wrapper.shutdown();
            if (m_childpid) {
                int status = 0;
                const pid_t pid = ::waitpid(m_childpid, &status, 0);
                if (pid < 0) {
                    throw std::system_error{errno, std::system_category(), "subprocess returned error"};  // S3: status not yet closed
                }
                // S3: m_childpid never reset
            }
            m_status = status::closed;
        }

        osmium::io::Header header() {
            try {
                if (m_header_future.valid()) {
                    m_header = m_header_future.get();  // S1: reachable in status error
                }
            } catch (...) {
                close();
                throw;  // S2: status error never stored
            }
            return m_header;
        }

        osmium::memory::Buffer read() {
            osmium::memory::Buffer buffer;
            if (m_status == status::closed) {  // S1: error and eof pass
                throw io_error{"closed"};
            }
            try {
                buffer = m_osmdata_queue_wrapper.pop();
            } catch (...) {
                m_status = status::error;
                close();  // S2: close() overwrites the status; no rethrow
            }
            return buffer;
        }
    };

}  // namespace io

}  // namespace osmium

void verif_positive_c07() {
    osmium::io::Reader reader;
    (void)reader.header();
    (void)reader.read();
    reader.close();
    osmium::thread::Queue<std::future<std::string>> q;
    osmium::io::detail::add_to_queue(q, std::string{});
    osmium::io::detail::add_to_queue<std::string>(q, std::exception_ptr{});
}
