// Positive example for the C09 rules: decompressors with the library's qualified base class name, some conforming
// ("Good...": multi-stream aware, truncation detected -- the rules must stay silent on them), some deliberately broken
// ("Bad...": every C09 rule must report at least one of them).  Never part of /repo, never executed or linked.
#include <atomic>
#include <cstddef>
#include <cstdio>
#include <exception>
#include <stdexcept>
#include <string>
#include <utility>

#include <bzlib.h>
#include <zlib.h>

namespace osmium {

struct gzip_error : public std::runtime_error {
    int code;
    gzip_error(const std::string& what, int c = 0) : std::runtime_error(what), code(c) {}
};

struct bzip2_error : public std::runtime_error {
    int code;
    bzip2_error(const std::string& what, int c = 0) : std::runtime_error(what), code(c) {}
};

namespace io {

    class Decompressor {
    public:
        enum { input_buffer_size = 1024U * 1024U };
        Decompressor() = default;
        virtual ~Decompressor() noexcept = default;
        virtual std::string read() = 0;
        virtual void close() = 0;
        virtual bool is_real() const noexcept { return true; }
        void set_offset(const std::size_t) noexcept {}
    };

    // ------------------------------------------------------------------------------------------------ conforming twins

    // memory buffer, concatenated gzip members are decoded one after the other, truncated input throws
    class GoodGzipBufferDecompressor final : public Decompressor {
        const char* m_buffer;
        std::size_t m_buffer_size;
        z_stream m_zstream;

    public:
        GoodGzipBufferDecompressor(const char* buffer, const std::size_t size) : m_buffer(buffer), m_buffer_size(size), m_zstream() {
            m_zstream.next_in = reinterpret_cast<unsigned char*>(const_cast<char*>(buffer));
            m_zstream.avail_in = static_cast<unsigned int>(size);
            const int result = inflateInit2(&m_zstream, MAX_WBITS | 32);
            if (result != Z_OK) {
                throw gzip_error{"init failed", result};
            }
        }

        std::string read() override {
            std::string output;
            while (m_buffer) {
                const std::size_t buffer_size = 10240;
                output.resize(buffer_size);
                m_zstream.next_out = reinterpret_cast<unsigned char*>(&*output.begin());
                m_zstream.avail_out = buffer_size;
                const int result = inflate(&m_zstream, Z_SYNC_FLUSH);
                if (result != Z_OK && result != Z_STREAM_END) {
                    m_buffer = nullptr;
                    throw gzip_error{"inflate failed", result};
                }
                if (result == Z_STREAM_END) {
                    if (m_zstream.avail_in == 0) {
                        m_buffer = nullptr;
                    } else if (inflateReset(&m_zstream) != Z_OK) {
                        throw gzip_error{"reset failed"};
                    }
                }
                output.resize(static_cast<std::size_t>(m_zstream.next_out - reinterpret_cast<const unsigned char*>(output.data())));
                if (!output.empty()) {
                    break;
                }
                if (result == Z_OK && m_zstream.avail_in == 0) {
                    throw gzip_error{"truncated"};
                }
            }
            return output;
        }

        void close() override {
            inflateEnd(&m_zstream);
        }
    };

    // file descriptor, asks for the unused bytes before it believes the end; never returns an empty chunk while it continues
    class GoodBzip2Decompressor final : public Decompressor {
        FILE* m_file;
        BZFILE* m_bzfile = nullptr;
        bool m_stream_end = false;

    public:
        explicit GoodBzip2Decompressor(FILE* file) : m_file(file) {
            int bzerror = BZ_OK;
            m_bzfile = ::BZ2_bzReadOpen(&bzerror, m_file, 0, 0, nullptr, 0);
            if (!m_bzfile) {
                throw bzip2_error{"read open failed", bzerror};
            }
        }

        ~GoodBzip2Decompressor() noexcept override {
            try {
                close();
            } catch (...) {
            }
        }

        std::string read() override {
            std::string buffer;
            while (!m_stream_end) {
                buffer.resize(input_buffer_size);
                int bzerror = BZ_OK;
                const int nread = ::BZ2_bzRead(&bzerror, m_bzfile, &*buffer.begin(), static_cast<int>(buffer.size()));
                if (bzerror != BZ_OK && bzerror != BZ_STREAM_END) {
                    throw bzip2_error{"read failed", bzerror};
                }
                if (bzerror == BZ_STREAM_END) {
                    void* unused = nullptr;
                    int num_unused = 0;
                    ::BZ2_bzReadGetUnused(&bzerror, m_bzfile, &unused, &num_unused);
                    if (bzerror != BZ_OK) {
                        throw bzip2_error{"get unused failed", bzerror};
                    }
                    const bool input_left = num_unused != 0;
                    if (input_left) {
                        std::string unused_data{static_cast<const char*>(unused), static_cast<std::string::size_type>(num_unused)};
                        ::BZ2_bzReadClose(&bzerror, m_bzfile);
                        if (bzerror != BZ_OK) {
                            throw bzip2_error{"read close failed", bzerror};
                        }
                        m_bzfile = ::BZ2_bzReadOpen(&bzerror, m_file, 0, 0, &*unused_data.begin(), static_cast<int>(unused_data.size()));
                        if (!m_bzfile) {
                            throw bzip2_error{"read open failed", bzerror};
                        }
                    } else {
                        // libbz2 reads the file in blocks: nothing unused does not mean nothing left
                        const int c = fgetc(m_file);
                        if (c == EOF) {
                            m_stream_end = true;
                        } else {
                            ungetc(c, m_file);
                            ::BZ2_bzReadClose(&bzerror, m_bzfile);
                            if (bzerror != BZ_OK) {
                                throw bzip2_error{"read close failed", bzerror};
                            }
                            m_bzfile = ::BZ2_bzReadOpen(&bzerror, m_file, 0, 0, nullptr, 0);
                            if (!m_bzfile) {
                                throw bzip2_error{"read open failed", bzerror};
                            }
                        }
                    }
                }
                buffer.resize(static_cast<std::string::size_type>(nread));
                if (nread != 0) {
                    break;
                }
            }
            const long pos = ftell(m_file);
            set_offset(static_cast<std::size_t>(pos));
            return buffer;
        }

        void close() override {
            if (m_bzfile) {
                int bzerror = BZ_OK;
                ::BZ2_bzReadClose(&bzerror, m_bzfile);
                m_bzfile = nullptr;
                if (bzerror != BZ_OK) {
                    throw bzip2_error{"read close failed", bzerror};
                }
            }
        }
    };

    // ------------------------------------------------------------------------------------------------ broken ones

    // E1: gzread error untested; S1 / N1: chunk not cut to the count when nread <= 0; K1: close() forgets gzclose_r
    class BadGzipDecompressor final : public Decompressor {
        gzFile m_gzfile = nullptr;

    public:
        explicit BadGzipDecompressor(const int fd) {
            m_gzfile = ::gzdopen(fd, "rb");
            if (!m_gzfile) {
                throw gzip_error{"read initialization failed"};
            }
        }

        std::string read() override {
            std::string buffer(static_cast<std::size_t>(input_buffer_size), '\0');
            const int nread = ::gzread(m_gzfile, &*buffer.begin(), static_cast<unsigned int>(buffer.size()));
            if (nread > 0) {
                buffer.resize(static_cast<std::string::size_type>(nread));
            }
            set_offset(static_cast<std::size_t>(::gztell(m_gzfile)));     // O1: uncompressed position
            return buffer;
        }

        void close() override {
            if (m_gzfile) {
                const int result = Z_OK;
                m_gzfile = nullptr;
                if (result != Z_OK) {
                    throw gzip_error{"read close failed", result};
                }
            }
        }
    };

    // X3: unused pointer read after the handle was closed; K2: handle reset only after the throw; E1-nothrow: fclose in a noexcept dtor
    class BadBzip2Decompressor final : public Decompressor {
        FILE* m_file;
        BZFILE* m_bzfile = nullptr;
        bool m_stream_end = false;

    public:
        explicit BadBzip2Decompressor(FILE* file) : m_file(file) {
            int bzerror = BZ_OK;
            m_bzfile = ::BZ2_bzReadOpen(&bzerror, m_file, 0, 0, nullptr, 0);
            if (!m_bzfile) {
                throw bzip2_error{"read open failed", bzerror};
            }
        }

        ~BadBzip2Decompressor() noexcept override {
            fclose(m_file);
        }

        std::string read() override {
            std::string buffer;
            if (!m_stream_end) {
                buffer.resize(input_buffer_size);
                int bzerror = BZ_OK;
                const int nread = ::BZ2_bzRead(&bzerror, m_bzfile, &*buffer.begin(), static_cast<int>(buffer.size()));
                if (bzerror != BZ_OK && bzerror != BZ_STREAM_END) {
                    throw bzip2_error{"read failed", bzerror};
                }
                if (bzerror == BZ_STREAM_END) {
                    void* unused = nullptr;
                    int num_unused = 0;
                    ::BZ2_bzReadGetUnused(&bzerror, m_bzfile, &unused, &num_unused);
                    if (bzerror != BZ_OK) {
                        throw bzip2_error{"get unused failed", bzerror};
                    }
                    if (num_unused > 100) {      // X2: up to 100 unused bytes are dropped
                        ::BZ2_bzReadClose(&bzerror, m_bzfile);
                        if (bzerror != BZ_OK) {
                            throw bzip2_error{"read close failed", bzerror};
                        }
                        m_bzfile = ::BZ2_bzReadOpen(&bzerror, m_file, 0, 0, unused, num_unused);   // X3: dangling
                        if (!m_bzfile) {
                            throw bzip2_error{"read open failed", bzerror};
                        }
                    } else {
                        m_stream_end = true;
                    }
                }
                buffer.resize(static_cast<std::string::size_type>(nread));
            }
            return buffer;
        }

        void close() override {
            if (m_bzfile) {
                int bzerror = BZ_OK;
                ::BZ2_bzReadClose(&bzerror, m_bzfile);
                if (bzerror != BZ_OK) {
                    throw bzip2_error{"read close failed", bzerror};
                }
                m_bzfile = nullptr;
            }
        }
    };

    // X4: the reopen is not given the unused bytes
    class BadReopenBzip2Decompressor final : public Decompressor {
        FILE* m_file;
        BZFILE* m_bzfile = nullptr;
        bool m_stream_end = false;

    public:
        explicit BadReopenBzip2Decompressor(FILE* file) : m_file(file) {
            int bzerror = BZ_OK;
            m_bzfile = ::BZ2_bzReadOpen(&bzerror, m_file, 0, 0, nullptr, 0);
            if (!m_bzfile) {
                throw bzip2_error{"read open failed", bzerror};
            }
        }

        std::string read() override {
            std::string buffer;
            while (!m_stream_end) {
                buffer.resize(input_buffer_size);
                int bzerror = BZ_OK;
                const int nread = ::BZ2_bzRead(&bzerror, m_bzfile, &*buffer.begin(), static_cast<int>(buffer.size()));
                if (bzerror != BZ_OK && bzerror != BZ_STREAM_END) {
                    throw bzip2_error{"read failed", bzerror};
                }
                if (bzerror == BZ_STREAM_END) {
                    void* unused = nullptr;
                    int num_unused = 0;
                    ::BZ2_bzReadGetUnused(&bzerror, m_bzfile, &unused, &num_unused);
                    if (bzerror != BZ_OK) {
                        throw bzip2_error{"get unused failed", bzerror};
                    }
                    if (num_unused != 0 || fgetc(m_file) != EOF) {      // X5: the probed byte is never pushed back
                        ::BZ2_bzReadClose(&bzerror, m_bzfile);
                        if (bzerror != BZ_OK) {
                            throw bzip2_error{"read close failed", bzerror};
                        }
                        m_bzfile = ::BZ2_bzReadOpen(&bzerror, m_file, 0, 0, nullptr, 0);
                        if (!m_bzfile) {
                            throw bzip2_error{"read open failed", bzerror};
                        }
                    } else {
                        m_stream_end = true;
                    }
                }
                buffer.resize(static_cast<std::string::size_type>(nread));
                if (nread != 0) {
                    break;
                }
            }
            return buffer;
        }

        void close() override {
            if (m_bzfile) {
                int bzerror = BZ_OK;
                ::BZ2_bzReadClose(&bzerror, m_bzfile);
                m_bzfile = nullptr;
                if (bzerror != BZ_OK) {
                    throw bzip2_error{"read close failed", bzerror};
                }
            }
        }
    };

    // The defects of today's Bzip2Decompressor behind an extracted private helper, a switch over the status, an early return and a
    // named condition: the rules run on the inlined normal form, so they must report X2 (feof only) and N1 (empty chunk after the
    // reopen) here exactly as on the in-line spelling, and accept the BZ2_bzRead error handling done by the switch (E1).
    class BadHelperBzip2Decompressor final : public Decompressor {
        FILE* m_file;
        BZFILE* m_bzfile = nullptr;
        bool m_stream_end = false;

        void handle_stream_end() {
            if (feof(m_file)) {
                m_stream_end = true;
                return;
            }
            int bzerror = BZ_OK;
            void* unused = nullptr;
            int num_unused = 0;
            ::BZ2_bzReadGetUnused(&bzerror, m_bzfile, &unused, &num_unused);
            if (bzerror != BZ_OK) {
                throw bzip2_error{"get unused failed", bzerror};
            }
            const bool more = num_unused != 0;
            if (!more) {
                m_stream_end = true;
                return;
            }
            std::string unused_data{static_cast<const char*>(unused), static_cast<std::string::size_type>(num_unused)};
            ::BZ2_bzReadClose(&bzerror, m_bzfile);
            if (bzerror != BZ_OK) {
                throw bzip2_error{"read close failed", bzerror};
            }
            m_bzfile = ::BZ2_bzReadOpen(&bzerror, m_file, 0, 0, &*unused_data.begin(), static_cast<int>(unused_data.size()));
            if (!m_bzfile) {
                throw bzip2_error{"read open failed", bzerror};
            }
        }

        int pull(std::string& out, int& status) {
            return ::BZ2_bzRead(&status, m_bzfile, &*out.begin(), static_cast<int>(out.size()));
        }

    public:
        explicit BadHelperBzip2Decompressor(FILE* file) : m_file(file) {
            int bzerror = BZ_OK;
            m_bzfile = ::BZ2_bzReadOpen(&bzerror, m_file, 0, 0, nullptr, 0);
            if (!m_bzfile) {
                throw bzip2_error{"read open failed", bzerror};
            }
        }

        std::string read() override {
            std::string buffer;
            if (m_stream_end) {
                return buffer;
            }
            buffer.resize(input_buffer_size);
            int bzerror = BZ_OK;
            const int nread = pull(buffer, bzerror);
            switch (bzerror) {
            case BZ_OK:
                break;
            case BZ_STREAM_END:
                handle_stream_end();
                break;
            default:
                throw bzip2_error{"read failed", bzerror};
            }
            const auto produced = static_cast<std::string::size_type>(nread);
            buffer.resize(produced);
            return buffer;
        }

        void close() override {
            release();
        }

    private:
        void release() {
            if (m_bzfile) {
                BZFILE* const handle = m_bzfile;
                m_bzfile = nullptr;
                int bzerror = BZ_OK;
                ::BZ2_bzReadClose(&bzerror, handle);
                if (bzerror != BZ_OK) {
                    throw bzip2_error{"read close failed", bzerror};
                }
            }
        }
    };

    // N2: loops on "OK without output" but never asks whether input is left: a truncated buffer spins forever instead of throwing
    class BadLoopGzipBufferDecompressor final : public Decompressor {
        const char* m_buffer;
        z_stream m_zstream;

    public:
        BadLoopGzipBufferDecompressor(const char* buffer, const std::size_t size) : m_buffer(buffer), m_zstream() {
            m_zstream.next_in = reinterpret_cast<unsigned char*>(const_cast<char*>(buffer));
            m_zstream.avail_in = static_cast<unsigned int>(size);
            const int result = inflateInit2(&m_zstream, MAX_WBITS | 32);
            if (result != Z_OK) {
                throw gzip_error{"init failed", result};
            }
        }

        std::string read() override {
            std::string output;
            while (m_buffer) {
                const std::size_t buffer_size = 10240;
                output.resize(buffer_size);
                m_zstream.next_out = reinterpret_cast<unsigned char*>(&*output.begin());
                m_zstream.avail_out = buffer_size;
                const int result = inflate(&m_zstream, Z_SYNC_FLUSH);
                if (result != Z_OK && result != Z_STREAM_END) {
                    m_buffer = nullptr;
                    throw gzip_error{"inflate failed", result};
                }
                if (result == Z_STREAM_END) {
                    if (m_zstream.avail_in == 0) {
                        m_buffer = nullptr;
                    } else if (inflateReset(&m_zstream) != Z_OK) {
                        throw gzip_error{"reset failed"};
                    }
                }
                output.resize(static_cast<std::size_t>(m_zstream.next_out - reinterpret_cast<const unsigned char*>(output.data())));
                if (!output.empty()) {
                    break;
                }
            }
            return output;
        }

        void close() override {
            inflateEnd(&m_zstream);
        }
    };

    // S2: keeps pulling until the stream ends; every chunk but the last is overwritten by the next call
    class BadOverwriteGzipDecompressor final : public Decompressor {
        gzFile m_gzfile = nullptr;
        bool m_done = false;

    public:
        explicit BadOverwriteGzipDecompressor(const int fd) {
            m_gzfile = ::gzdopen(fd, "rb");
            if (!m_gzfile) {
                throw gzip_error{"read initialization failed"};
            }
        }

        std::string read() override {
            std::string buffer;
            while (!m_done) {
                buffer.resize(input_buffer_size);
                const int nread = ::gzread(m_gzfile, &*buffer.begin(), static_cast<unsigned int>(buffer.size()));
                if (nread < 0) {
                    throw gzip_error{"read failed"};
                }
                if (nread == 0) {
                    m_done = true;
                }
                buffer.resize(static_cast<std::string::size_type>(nread));
            }
            return buffer;
        }

        void close() override {
            if (m_gzfile) {
                const int result = ::gzclose_r(m_gzfile);
                m_gzfile = nullptr;
                if (result != Z_OK) {
                    throw gzip_error{"read close failed", result};
                }
            }
        }
    };

    // P1: the next member is started with a second inflateInit2 on the live stream (old state leaked), close() never releases it;
    // P2: Z_FINISH with a 10 KiB window; Z1: all objects decompress into one function-local static buffer
    class BadStateGzipBufferDecompressor final : public Decompressor {
        const char* m_buffer;
        z_stream m_zstream;

    public:
        BadStateGzipBufferDecompressor(const char* buffer, const std::size_t size) : m_buffer(buffer), m_zstream() {
            m_zstream.next_in = reinterpret_cast<unsigned char*>(const_cast<char*>(buffer));
            m_zstream.avail_in = static_cast<unsigned int>(size);
            const int result = inflateInit2(&m_zstream, MAX_WBITS | 32);
            if (result != Z_OK) {
                throw gzip_error{"init failed", result};
            }
        }

        std::string read() override {
            static std::string scratch;
            std::string output;
            while (m_buffer && output.empty()) {
                const std::size_t buffer_size = 10240;
                output.resize(buffer_size);
                scratch.resize(buffer_size);
                m_zstream.next_out = reinterpret_cast<unsigned char*>(&*output.begin());
                m_zstream.avail_out = buffer_size;
                int result = inflate(&m_zstream, Z_FINISH);
                if (result == Z_STREAM_END && m_zstream.avail_in != 0) {
                    result = inflateInit2(&m_zstream, MAX_WBITS | 32);
                } else if (result == Z_OK && m_zstream.avail_in == 0 && m_zstream.avail_out != 0) {
                    result = Z_BUF_ERROR;
                }
                if (result != Z_OK) {
                    m_buffer = nullptr;
                }
                if (result != Z_OK && result != Z_STREAM_END) {
                    throw gzip_error{"inflate failed", result};
                }
                output.resize(static_cast<std::size_t>(m_zstream.next_out - reinterpret_cast<const unsigned char*>(output.data())));
            }
            return output;
        }

        void close() override {
        }
    };

    // G1: the loop is guarded by the remaining-size member, which the constructor takes from an integral parameter: an object over
    // 0 bytes (a compressed buffer truncated to nothing) returns a clean end of data without inflate ever having been asked
    class BadSizeGuardGzipBufferDecompressor final : public Decompressor {
        const char* m_buffer;
        std::size_t m_buffer_size;
        z_stream m_zstream;

    public:
        BadSizeGuardGzipBufferDecompressor(const char* buffer, const std::size_t size) : m_buffer(buffer), m_buffer_size(size), m_zstream() {
            m_zstream.next_in = reinterpret_cast<unsigned char*>(const_cast<char*>(buffer));
            m_zstream.avail_in = static_cast<unsigned int>(size);
            const int result = inflateInit2(&m_zstream, MAX_WBITS | 32);
            if (result != Z_OK) {
                throw gzip_error{"init failed", result};
            }
        }

        std::string read() override {
            std::string output;
            while (m_buffer_size != 0 && output.empty()) {
                const std::size_t buffer_size = 10240;
                output.resize(buffer_size);
                m_zstream.next_out = reinterpret_cast<unsigned char*>(&*output.begin());
                m_zstream.avail_out = buffer_size;
                int result = inflate(&m_zstream, Z_SYNC_FLUSH);
                if (result == Z_STREAM_END && m_zstream.avail_in != 0) {
                    result = inflateReset(&m_zstream);
                } else if (result == Z_OK && m_zstream.avail_in == 0 && m_zstream.avail_out != 0) {
                    result = Z_BUF_ERROR;
                }
                if (result != Z_OK) {
                    m_buffer = nullptr;
                    m_buffer_size = 0;
                }
                if (result != Z_OK && result != Z_STREAM_END) {
                    throw gzip_error{"inflate failed", result};
                }
                output.resize(static_cast<std::size_t>(m_zstream.next_out - reinterpret_cast<const unsigned char*>(output.data())));
            }
            return output;
        }

        void close() override {
            inflateEnd(&m_zstream);
        }
    };

    // X1 / X2 / N1: single stream only, BZ_OK with zero output returns an empty chunk (today's shape of the buffer decompressors)
    class BadBzip2BufferDecompressor final : public Decompressor {
        const char* m_buffer;
        bz_stream m_bzstream;

    public:
        BadBzip2BufferDecompressor(const char* buffer, const std::size_t size) : m_buffer(buffer), m_bzstream() {
            m_bzstream.next_in = const_cast<char*>(buffer);
            m_bzstream.avail_in = static_cast<unsigned int>(size);
            const int result = BZ2_bzDecompressInit(&m_bzstream, 0, 0);
            if (result != BZ_OK) {
                throw bzip2_error{"init failed", result};
            }
        }

        std::string read() override {
            std::string output;
            if (m_buffer) {
                const std::size_t buffer_size = 10240;
                output.resize(buffer_size);
                m_bzstream.next_out = &*output.begin();
                m_bzstream.avail_out = buffer_size;
                const int result = BZ2_bzDecompress(&m_bzstream);
                if (result != BZ_OK) {
                    m_buffer = nullptr;
                }
                if (result != BZ_OK && result != BZ_STREAM_END) {
                    throw bzip2_error{"decompress failed", result};
                }
                output.resize(static_cast<std::size_t>(m_bzstream.next_out - output.data()));
            }
            return output;
        }

        void close() override {
            BZ2_bzDecompressEnd(&m_bzstream);
        }
    };

    namespace detail {

        struct string_queue {
            void push(std::string) {}
            void push(std::exception_ptr) {}
        };

        inline void add_to_queue(string_queue& queue, std::string&& data) {
            queue.push(std::move(data));
        }

        inline void add_to_queue(string_queue& queue, std::exception_ptr&& e) {
            queue.push(std::move(e));
        }

        inline void add_end_of_data_to_queue(string_queue& queue) {
            queue.push(std::string{});
        }

        inline bool at_end_of_data(const std::string& data) noexcept {
            return data.empty();
        }

        // T1: close() outside the forwarding try; T2: one-byte chunks are dropped
        class ReadThreadManager {
            osmium::io::Decompressor& m_decompressor;
            string_queue& m_queue;
            std::atomic<bool> m_done{false};

        public:
            ReadThreadManager(osmium::io::Decompressor& decompressor, string_queue& queue) : m_decompressor(decompressor), m_queue(queue) {}

            void run_in_thread() {
                try {
                    while (!m_done) {
                        std::string data{m_decompressor.read()};
                        if (at_end_of_data(data)) {
                            break;
                        }
                        if (data.size() > 1) {
                            add_to_queue(m_queue, std::move(data));
                        }
                    }
                } catch (...) {
                    add_to_queue(m_queue, std::current_exception());
                }
                m_decompressor.close();
                add_end_of_data_to_queue(m_queue);
            }
        };

    }  // namespace detail

}  // namespace io

}  // namespace osmium

void c09_positive_driver(FILE* f, const char* p, std::size_t n) {
    osmium::io::GoodGzipBufferDecompressor a{p, n};
    osmium::io::GoodBzip2Decompressor b{f};
    osmium::io::BadGzipDecompressor c{0};
    osmium::io::BadBzip2Decompressor d{f};
    osmium::io::BadReopenBzip2Decompressor e{f};
    osmium::io::BadBzip2BufferDecompressor g{p, n};
    osmium::io::BadStateGzipBufferDecompressor y{p, n};
    (void)y.read();
    osmium::io::BadSizeGuardGzipBufferDecompressor z{p, n};
    (void)z.read();
    osmium::io::BadOverwriteGzipDecompressor w{0};
    (void)w.read();
    osmium::io::BadLoopGzipBufferDecompressor l{p, n};
    (void)l.read();
    osmium::io::BadHelperBzip2Decompressor h{f};
    (void)h.read();
    osmium::io::detail::string_queue q;
    osmium::io::detail::ReadThreadManager m{a, q};
    m.run_in_thread();
    (void)b.read(); (void)c.read(); (void)d.read(); (void)e.read(); (void)g.read();
}
