// Positive example for C11 rule R4 (never part of /repo): the stash item is released but the elements keep its handle.
#include <algorithm>
#include <cstddef>
#include <vector>

namespace c11pos3 {

    struct handle_type {
        std::size_t value = 0;
        handle_type() = default;
        explicit handle_type(std::size_t v) : value(v) {}
        bool valid() const noexcept { return value != 0; }
    };

    class Stash {
        std::vector<int> m_items;
    public:
        void remove_item(handle_type h) { m_items[h.value - 1] = 0; }
    };

    struct element {
        long id;
        handle_type object_handle;
        bool operator<(const element& o) const noexcept { return id < o.id; }
    };

    struct range_type {
        std::vector<element>::iterator b, e;
        std::vector<element>::iterator begin() const { return b; }
        std::vector<element>::iterator end() const { return e; }
    };

    class Db {
        std::vector<element> m_elements;
        Stash& m_stash;

        range_type find(long id) {
            auto p = std::equal_range(m_elements.begin(), m_elements.end(), element{id, handle_type{}});
            return range_type{p.first, p.second};
        }

    public:
        explicit Db(Stash& s) : m_stash(s) {}

        void remove_keeps_handle(long id) {               // R4: released, every element keeps the handle
            const auto range = find(id);
            m_stash.remove_item(range.begin()->object_handle);
        }

        void remove_resets_first_only(long id) {          // R4: only the first element is invalidated
            const auto range = find(id);
            m_stash.remove_item(range.begin()->object_handle);
            range.begin()->object_handle = handle_type{};
        }

        void remove_ok(long id) {
            const auto range = find(id);
            m_stash.remove_item(range.begin()->object_handle);
            for (auto& elem : range) {
                elem.object_handle = handle_type{};
            }
        }
    };

}

void c11pos3_driver() {
    c11pos3::Stash s;
    c11pos3::Db db{s};
    db.remove_keeps_handle(1);
    db.remove_resets_first_only(1);
    db.remove_ok(1);
}
