// Positive example for the C01 block-limit rules: same qualified names as pbf_output_format.hpp / pbf.hpp, deliberately wrong.
// Never part of /repo, never executed; the rules must report it on every run.
#include <cstddef>
#include <cstdint>
#include <memory>
#include <stdexcept>
#include <string>

namespace osmium {

    class metadata_options {

        enum options : unsigned int {
            md_none      = 0x00,
            md_version   = 0x01,
            md_timestamp = 0x02,
            md_changeset = 0x04,
            md_uid       = 0x08,
            md_user      = 0x10,
            md_all       = 0x1f
        } m_options = md_all;

    public:

        bool any() const noexcept {
            return m_options != 0;
        }

        bool version() const noexcept {
            return (m_options & options::md_timestamp) != 0;  // metadata-option-accessors: tests the wrong bit
        }

        bool timestamp() const noexcept {
            return (m_options & options::md_timestamp) != 0;
        }

        bool changeset() const noexcept {
            return (m_options & options::md_changeset) != 0;
        }

        bool uid() const noexcept {
            return (m_options & options::md_uid) != 0;
        }

        bool user() const noexcept {
            return (m_options & options::md_user) != 0;
        }

    };

} // namespace osmium

namespace osmium { namespace io { namespace detail {

    const uint64_t max_uncompressed_blob_size = 32UL * 1024UL * 1024UL;

    enum {
        max_entities_per_block = 8000
    };

    class EntryTable {

        int m_entries = 0;

    public:

        void add(const char*) {
            ++m_entries;
        }

        std::size_t size() const noexcept {
            return m_entries + 1;   // number of entries, not bytes
        }

    };

    class PrimitiveBlock {

        std::string m_data;
        EntryTable m_table;
        std::string m_unaccounted;
        int m_type = 0;
        int m_count = 0;

    public:

        enum {
            max_used_blob_size = max_uncompressed_blob_size * 105U / 100U  // blob-size-constants: above the hard limit
        };

        int count() const noexcept {
            return m_count;
        }

        std::size_t size() const noexcept {
            // pbf-block-size-counts-every-serialised-part: m_table counted in entries, m_unaccounted not counted at all
            return m_data.size() + m_table.size();
        }

        const std::string& group_data() {
            m_data += m_unaccounted;
            return m_data;
        }

        void write_table(std::string& out) {
            out += static_cast<char>(m_table.size());
        }

        std::string& group() noexcept {
            return m_data;  // can-add-block-limits (#counts): hands out a slot without counting it
        }

        void add_dense_node(int) {
            ++m_count;
        }

        bool can_add(int type) const noexcept {
            if (type != m_type) {
                return false;
            }
            if (count() > max_entities_per_block) {  // can-add-block-limits: admits an 8001st entity
                return false;
            }
            return size() < max_used_blob_size;
        }

    };

    inline void check_blob(std::size_t size) {
        if (size >= max_uncompressed_blob_size) {  // blob-size-constants: rejects a blob of exactly the maximum size
            throw std::runtime_error{"invalid blob size"};
        }
    }

    class SerializeBlob {

    public:

        PrimitiveBlock* m_block = nullptr;

        std::string operator()(const std::string& header) {
            const auto size = static_cast<uint32_t>(header.size());
            std::string output;
            if (m_block) {
                m_block->write_table(output);
                output += m_block->group_data();
            }
            output += static_cast<char>( size         & 0xffU);  // blob-header-length-byte-order: little-endian
            output += static_cast<char>((size >>  8U) & 0xffU);
            output += static_cast<char>((size >> 16U) & 0xffU);
            output += static_cast<char>((size >> 24U) & 0xffU);
            output.append(header);
            return output;
        }

    };

    class PBFParser {

    public:

        static uint32_t get_size_in_network_byte_order(const char* d) noexcept {
            return (static_cast<uint32_t>(d[3])) |
                   (static_cast<uint32_t>(d[2]) <<  8U) |
                   (static_cast<uint32_t>(d[1]) << 16U) |
                   (static_cast<uint32_t>(d[0]) << 24U);
        }

    };

    class PBFOutputFormat {

        std::shared_ptr<PrimitiveBlock> m_primitive_block;

        void store_primitive_block() {
        }

        void switch_primitive_block_type(int type) {
            if (!m_primitive_block || !m_primitive_block->can_add(type)) {
                m_primitive_block = std::make_shared<PrimitiveBlock>();  // block-switch-before-use (#store-first)
                store_primitive_block();
            }
        }

    public:

        void node(int n) {
            m_primitive_block->add_dense_node(n);  // block-switch-before-use: no switch_primitive_block_type before
        }

        void way(int) {
            switch_primitive_block_type(3);
            m_primitive_block->group() += 'w';
        }

        void write_end() {
        }

    };

    inline void c01_positive_block_driver() {
        PBFOutputFormat f;
        f.node(1);
        f.way(2);
        f.write_end();
        check_blob(3);
    }

}}} // namespace osmium::io::detail
