// Positive example for the C20 rules: a deliberately broken miniature of libosmium's dispatch machinery with the same
// qualified names.  Never part of /repo, never executed; the rules listed in SELFTESTS of rules/c20.py must report it.
#include <initializer_list>
#include <stdexcept>
#include <utility>

namespace osmium {

enum class item_type : unsigned short { undefined = 0, node = 1, way = 2, relation = 3, changeset = 5 };

struct unknown_type : public std::runtime_error {
    unknown_type() : std::runtime_error("unknown item type") {}
};

namespace memory {
class Item {
    item_type m_type = item_type::undefined;
    unsigned int m_size = 8;
public:
    item_type type() const noexcept { return m_type; }
    const unsigned char* next() const noexcept { return reinterpret_cast<const unsigned char*>(this) + m_size; }
    constexpr static bool is_compatible_to(item_type /*t*/) noexcept { return true; }
};

namespace detail {
template <typename T>
constexpr bool type_is_compatible(const item_type t) noexcept {
    return T::is_compatible_to(t);
}
}  // namespace detail

template <typename TMember>
class ItemIterator {
    const unsigned char* m_data;
    const unsigned char* m_end;

    void advance_to_next_item_of_right_type() noexcept {
        while (m_data != m_end && !detail::type_is_compatible<TMember>(reinterpret_cast<const Item*>(m_data)->type())) {
            m_data = reinterpret_cast<TMember*>(m_data)->next();
        }
    }

public:
    ItemIterator(const unsigned char* data, const unsigned char* end) noexcept : m_data(data), m_end(end) {
        // I2: no filtering of the first item
    }
    ItemIterator& operator++() noexcept {
        m_data = reinterpret_cast<TMember*>(m_data)->next();
        advance_to_next_item_of_right_type();
        return *this;
    }
    ItemIterator operator++(int) noexcept {
        ItemIterator tmp{*this};
        m_data = reinterpret_cast<TMember*>(m_data)->next();  // P1: steps but does not filter like operator++()
        return tmp;
    }
    bool operator!=(const ItemIterator& rhs) const noexcept { return m_data != rhs.m_data; }
    bool operator==(const ItemIterator& rhs) const noexcept { return m_data == rhs.m_data; }
    TMember& operator*() const noexcept { return *reinterpret_cast<TMember*>(m_data); }
    TMember* operator->() const noexcept { return reinterpret_cast<TMember*>(m_data); }
};
}  // namespace memory

class OSMEntity : public memory::Item {
public:
    constexpr static bool is_compatible_to(item_type t) noexcept {
        return t == item_type::node || t == item_type::way || t == item_type::relation;
    }
};

class OSMObject : public OSMEntity {
    long m_id = 0;
public:
    constexpr static bool is_compatible_to(item_type t) noexcept {
        return t == item_type::node || t == item_type::way || t == item_type::relation;
    }
    long id() const noexcept { return m_id; }
};

class Node : public OSMObject {
public:
    static constexpr item_type itemtype = item_type::node;
    constexpr static bool is_compatible_to(item_type t) noexcept { return t == itemtype; }
};

class Way : public OSMObject {
public:
    static constexpr item_type itemtype = item_type::way;
    constexpr static bool is_compatible_to(item_type t) noexcept { return t == itemtype; }
};

class Relation : public OSMObject {
public:
    static constexpr item_type itemtype = item_type::relation;
    constexpr static bool is_compatible_to(item_type t) noexcept { return t == itemtype; }
};

class Changeset : public OSMEntity {
public:
    static constexpr item_type itemtype = item_type::changeset;
    // K1: range test that also admits relation (and OSMEntity above forgets changeset)
    constexpr static bool is_compatible_to(item_type t) noexcept { return t >= item_type::relation; }
};

namespace handler {
class Handler {
public:
    void osm_object(const osmium::OSMObject&) const noexcept {}
    void node(const osmium::Node&) const noexcept {}
    void way(const osmium::Way&) const noexcept {}
    void relation(const osmium::Relation&) const noexcept {}
    void flush() const noexcept {}
};
}  // namespace handler

namespace detail {

template <typename THandler>
inline void apply_item_impl(const osmium::OSMObject& item, THandler&& handler) {
    switch (item.type()) {
        case osmium::item_type::node:
            // D1: osm_object is not called first
            std::forward<THandler>(handler).node(static_cast<const osmium::Node&>(item));
            break;
        case osmium::item_type::way:
            // D2: osm_object receives the item cast to Way
            std::forward<THandler>(handler).osm_object(static_cast<const osmium::Way&>(item));
            std::forward<THandler>(handler).way(static_cast<const osmium::Way&>(item));
            break;
        default:
            // D3: relation has no case and the default does not throw
            break;
    }
}

template <typename TFunc>
struct wrapper_handler : TFunc {
    void operator()(const osmium::memory::Item&) const noexcept {}
    using TFunc::operator();
    void osm_object(const osmium::OSMObject&) const noexcept {}
    void node(const osmium::Node& node) const { operator()(node); }
    void node(osmium::Node& /*node*/) const {}                      // W1: does not forward
    void way(const osmium::Way& way) const { operator()(way); }     // W2: no Way& overload
    void relation(const osmium::Relation& relation) const { operator()(relation); }
    void relation(osmium::Relation& relation) const { operator()(relation); }
    void flush() const noexcept {}
};

template <typename... T>
inline void swallow(T&&...) {}

}  // namespace detail

template <typename TItem, typename... THandlers>
inline void apply_item(TItem& item, THandlers&&... handlers) {
    // A1: function arguments are evaluated in unspecified order
    detail::swallow((detail::apply_item_impl(item, std::forward<THandlers>(handlers)), 0)...);
}

template <typename... THandlers>
inline void apply_flush(THandlers&&... handlers) {
    (void)std::initializer_list<int>{(std::forward<THandlers>(handlers).flush(), 0)...};
}

template <typename TIterator, typename... THandlers>
inline void apply_impl(TIterator it, TIterator end, THandlers&&... handlers) {
    for (; it != end; ++it) {
        apply_item(*it, handlers...);
        apply_flush(handlers...);  // A2: flush per item
    }
}

class DiffObject {
    const OSMObject* m_prev = nullptr;
    const OSMObject* m_curr = nullptr;
    const OSMObject* m_next = nullptr;
public:
    DiffObject() noexcept = default;
    DiffObject(const OSMObject& prev, const OSMObject& curr, const OSMObject& next) noexcept :
        m_prev(&prev), m_curr(&curr), m_next(&next) {}
    const OSMObject& prev() const noexcept { return *m_prev; }
    const OSMObject& curr() const noexcept { return *m_curr; }
    const OSMObject& next() const noexcept { return *m_next; }
    bool first() const noexcept { return m_prev == m_curr; }
    bool last() const noexcept { return m_prev == m_next; }  // X5: wrong pair
    item_type type() const noexcept { return m_curr->type(); }
    long id() const noexcept { return m_curr->id(); }
};

template <typename TBasicIterator>
class DiffIterator {
    TBasicIterator m_next;  // X3: declared (hence initialised) before m_prev / m_curr
    TBasicIterator m_prev;
    TBasicIterator m_curr;
    TBasicIterator m_end;
    mutable DiffObject m_diff;

    void set_diff() const noexcept {
        // X1 mirror: prev ignores the id;  X1 end guard: tested after the dereference
        const bool use_curr_for_prev = m_prev->type() != m_curr->type();
        const bool use_curr_for_next = m_next->type() != m_curr->type() || m_next->id() != m_curr->id() || m_next == m_end;
        m_diff = DiffObject{*(use_curr_for_prev ? m_curr : m_prev), *m_curr, *(use_curr_for_next ? m_curr : m_next)};
    }

public:
    DiffIterator(TBasicIterator begin, TBasicIterator end) :
        m_next(begin == end ? begin : ++begin), m_prev(begin), m_curr(begin), m_end(end) {}

    DiffIterator& operator++() {
        m_curr = m_next;   // X2: curr overwritten before it is saved in prev
        m_prev = m_curr;
        ++m_next;          // X2: not guarded by m_next != m_end
        return *this;
    }
    bool operator==(const DiffIterator& rhs) const noexcept { return m_next == rhs.m_next; }  // X4
    const DiffObject& operator*() const noexcept { return m_diff; }                            // X4: no set_diff()
    const DiffObject* operator->() const noexcept { set_diff(); return &m_diff; }
};

}  // namespace osmium

namespace {
struct H : public osmium::handler::Handler {
    void osm_object(const osmium::OSMObject&) {}
    void node(const osmium::Node&) {}
    void way(const osmium::Way&) {}
    void relation(const osmium::Relation&) {}
    void flush() {}
};
struct Fn {
    void operator()(const osmium::Node&) const {}
};
}  // namespace

template struct osmium::detail::wrapper_handler<Fn>;
template class osmium::memory::ItemIterator<const osmium::OSMObject>;
template class osmium::DiffIterator<osmium::memory::ItemIterator<const osmium::OSMObject>>;

void verif_c20_positive(osmium::memory::ItemIterator<const osmium::OSMObject> it, osmium::memory::ItemIterator<const osmium::OSMObject> end) {
    H h1;
    H h2;
    osmium::apply_impl(it, end, h1, h2);
}
