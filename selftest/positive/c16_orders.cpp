// Positive example for the C16 rules: deliberately broken orderings / order checker with the library's qualified names.
// Never part of /repo, never executed; every C16 rule must report something here on every run.
#include <algorithm>
#include <cstdint>
#include <cstdlib>
#include <stdexcept>
#include <tuple>
#include <utility>
#include <vector>

namespace osmium {

using object_id_type = int64_t;
using unsigned_object_id_type = uint64_t;
using object_version_type = uint32_t;

enum class item_type : uint16_t { undefined = 0, node = 1, way = 2, relation = 3 };

class Timestamp {
    uint32_t m_timestamp = 0;

public:
    constexpr Timestamp() noexcept = default;
    bool valid() const noexcept { return m_timestamp != 0; }
    explicit constexpr operator uint32_t() const noexcept { return m_timestamp; }
};

inline bool operator<(const Timestamp& lhs, const Timestamp& rhs) noexcept {
    return static_cast<uint32_t>(lhs) < static_cast<uint32_t>(rhs);
}

template <typename... Ts>
inline std::tuple<const Ts&...> const_tie(const Ts&... args) noexcept {
    return std::tuple<const Ts&...>(args...);
}

class OSMObject {
    object_id_type m_id = 0;
    object_version_type m_version = 0;
    Timestamp m_timestamp;
    bool m_deleted = false;
    item_type m_type = item_type::node;

public:
    item_type type() const noexcept { return m_type; }
    object_id_type id() const noexcept { return m_id; }
    // T5: not the absolute value
    unsigned_object_id_type positive_id() const noexcept { return static_cast<unsigned_object_id_type>(m_id); }
    object_version_type version() const noexcept { return m_version; }
    Timestamp timestamp() const noexcept { return m_timestamp; }
    bool visible() const noexcept { return !m_deleted; }
};

class Node : public OSMObject {
public:
    static constexpr item_type itemtype = item_type::node;
};
class Way : public OSMObject {
public:
    static constexpr item_type itemtype = item_type::way;
};
class Relation : public OSMObject {
public:
    static constexpr item_type itemtype = item_type::relation;
};

// E1: forgets the version
inline bool operator==(const OSMObject& lhs, const OSMObject& rhs) noexcept {
    return lhs.type() == rhs.type() && lhs.id() == rhs.id();
}

inline bool operator!=(const OSMObject& lhs, const OSMObject& rhs) noexcept {
    return !(lhs == rhs);
}

// T1: component 4 is not mirrored; T2: component 5 reads both objects; T3: key list differs; T4: flag is id >= 0
inline bool operator<(const OSMObject& lhs, const OSMObject& rhs) noexcept {
    return const_tie(lhs.type(), lhs.id() >= 0, lhs.positive_id(), lhs.version(), lhs.id() < rhs.id()) <
           const_tie(rhs.type(), rhs.id() >= 0, rhs.positive_id(), lhs.version(), rhs.id() < lhs.id());
}

// D1: argument order not exchanged
inline bool operator>(const OSMObject& lhs, const OSMObject& rhs) noexcept {
    return lhs < rhs;
}

inline bool operator<=(const OSMObject& lhs, const OSMObject& rhs) noexcept {
    return !(rhs < lhs);
}

inline bool operator>=(const OSMObject& lhs, const OSMObject& rhs) noexcept {
    return !(lhs < rhs);
}

struct id_order {
    // O2: id_order(0, 0) is true; O3: negative ids ascending by value instead of by magnitude
    bool operator()(const object_id_type lhs, const object_id_type rhs) const noexcept {
        if (lhs == 0) {
            return true;
        }
        if (rhs == 0) {
            return false;
        }
        if (lhs < 0) {
            if (rhs > 0) {
                return true;
            }
            return lhs < rhs;
        }
        if (rhs < 0) {
            return false;
        }
        return lhs < rhs;
    }
};

struct object_order_type_id_version {
    bool operator()(const OSMObject& lhs, const OSMObject& rhs) const noexcept { return lhs < rhs; }
    // D1: swapped
    bool operator()(const OSMObject* lhs, const OSMObject* rhs) const noexcept { return *rhs < *lhs; }
};

struct object_equal_type_id_version {
    bool operator()(const OSMObject& lhs, const OSMObject& rhs) const noexcept { return lhs == rhs; }
    bool operator()(const OSMObject* lhs, const OSMObject* rhs) const noexcept { return *lhs == *rhs; }
};

struct out_of_order_error : public std::runtime_error {
    object_id_type object_id;
    explicit out_of_order_error(const char* what, object_id_type id) : std::runtime_error(what), object_id(id) {}
};

namespace handler {

class CheckOrder {
    object_id_type m_max_node_id = 0;
    object_id_type m_max_way_id = 0;
    object_id_type m_max_relation_id = 0;
    bool m_has_node = false;
    bool m_has_way = false;
    bool m_has_relation = false;

public:
    void node(const osmium::Node& node) {
        // K1: a node after a relation is accepted
        if (m_has_way) {
            throw out_of_order_error{"Found a node after a way.", node.id()};
        }
        if (m_has_node) {
            // K2: plain '<' instead of the id rule, duplicates accepted
            if (node.id() < m_max_node_id) {
                throw out_of_order_error{"Node IDs out of order", node.id()};
            }
            m_max_node_id = node.id();
        } else {
            m_max_node_id = node.id();
            m_has_node = true;
        }
    }

    void way(const osmium::Way& way) {
        if (m_has_relation) {
            throw out_of_order_error{"Found a way after a relation.", way.id()};
        }
        if (m_has_way) {
            if (m_max_way_id == way.id()) {
                throw out_of_order_error{"Way ID twice in input.", way.id()};
            }
            if (id_order{}(way.id(), m_max_way_id)) {
                throw out_of_order_error{"Way IDs out of order", way.id()};
            }
            // K3: maximum not updated
        } else {
            m_max_way_id = way.id();
            m_has_way = true;
        }
    }

    void relation(const osmium::Relation& relation) {
        if (m_has_relation) {
            if (m_max_relation_id == relation.id()) {
                throw out_of_order_error{"Relation ID twice in input.", relation.id()};
            }
            if (id_order{}(relation.id(), m_max_relation_id)) {
                throw out_of_order_error{"Relation IDs out of order", relation.id()};
            }
            m_max_relation_id = relation.id();
        } else {
            m_max_relation_id = relation.id();
            m_has_relation = true;
        }
    }
};

} // namespace handler

class ObjectPointerCollection {
    std::vector<osmium::OSMObject*> m_objects;

public:
    // S1: not a stable sort; S3: collections of two elements are left unsorted
    template <typename TCompare>
    void sort(TCompare&& compare) {
        if (m_objects.size() <= 2) {
            return;
        }
        std::sort(m_objects.begin(), m_objects.end(), std::forward<TCompare>(compare));
    }

    // S2: the tail is not erased
    template <typename TEqual>
    void unique(TEqual&& equal) {
        (void)std::unique(m_objects.begin(), m_objects.end(), std::forward<TEqual>(equal));
    }
};

} // namespace osmium

void verif_c16_positive(osmium::ObjectPointerCollection& c, osmium::handler::CheckOrder& co, const osmium::Node& n,
                        const osmium::Way& w, const osmium::Relation& r) {
    c.sort(osmium::object_order_type_id_version{});
    c.unique(osmium::object_equal_type_id_version{});
    co.node(n);
    co.way(w);
    co.relation(r);
    (void)osmium::id_order{}(1, 2);
    (void)(n < n);
    (void)(n > n);
    (void)(n <= n);
    (void)(n >= n);
    (void)(n == n);
    (void)(n != n);
}
