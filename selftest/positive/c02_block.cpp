// Positive example for the C02 block-parameter and blob-framing rules.  Never part of /repo, never executed.
#include <osmium/osm/location.hpp>
#include <osmium/osm/node.hpp>
#include <osmium/builder/osm_object_builder.hpp>
#include <osmium/memory/buffer.hpp>

#include <osmium/io/detail/pbf_decoder.hpp>  // varint_range

#include <protozero/pbf_message.hpp>

#include <array>
#include <cstdint>
#include <stdexcept>
#include <string>

namespace c02_positive {

    const int64_t lonlat_resolution = 1000L * 1000L * 100L;          // not nanodegrees        -> pbf-convert-formula (constants)
    const int64_t resolution_convert = 100;
    const int max_blob_header_size = 32 * 1024;                        // not the format's 64 KiB -> blob-framing-limits-are-spec
    const uint64_t max_uncompressed_blob_size = 32UL * 1024UL * 1024UL;

    enum class PrimitiveBlock : protozero::pbf_tag_type {
        repeated_Node_nodes             = 2,
        optional_int32_granularity      = 17,
        optional_int32_date_granularity = 18,
        optional_int64_lat_offset       = 19,
        optional_int64_lon_offset       = 20
    };

    enum class Node : protozero::pbf_tag_type {
        optional_int64_timestamp = 2,
        required_sint64_lat      = 8,
        required_sint64_lon      = 9
    };

    // formula / Location / timestamp violations
    class DecoderA {

        int64_t m_lon_offset = 0;
        int64_t m_lat_offset = 0;
        int64_t m_date_factor = 1000;
        int32_t m_granularity = 100;
        osmium::memory::Buffer m_buffer{1024};

        int32_t convert_pbf_lon(const int64_t c) const noexcept {
            return static_cast<int32_t>((c * m_granularity + m_lon_offset) / resolution_convert);
        }

        int32_t convert_pbf_lat(const int64_t c) const noexcept {
            return static_cast<int32_t>((c * m_granularity + m_lon_offset) / resolution_convert);   // -> pbf-convert-formula
        }

    public:

        void decode_node(const protozero::data_view& data) {
            osmium::builder::NodeBuilder builder{m_buffer};
            int64_t lon = 0;
            int64_t lat = 0;
            protozero::pbf_message<Node> m{data};
            while (m.next()) {
                switch (m.tag_and_type()) {
                    case protozero::tag_and_type(Node::optional_int64_timestamp, protozero::pbf_wire_type::varint):
                        builder.object().set_timestamp(m.get_int64());                              // -> pbf-timestamp-scaled
                        break;
                    case protozero::tag_and_type(Node::required_sint64_lat, protozero::pbf_wire_type::varint):
                        lat = m.get_sint64();
                        break;
                    case protozero::tag_and_type(Node::required_sint64_lon, protozero::pbf_wire_type::varint):
                        lon = m.get_sint64();
                        break;
                    default:
                        m.skip();
                }
            }
            builder.object().set_location(osmium::Location{convert_pbf_lat(lat), convert_pbf_lon(lon)});   // -> pbf-location-through-convert
        }

    };

    // store / default / pass-order violations (formula correct so that the roles are known)
    class DecoderB {

        protozero::data_view m_data;
        int64_t m_lon_offset = 0;
        int64_t m_lat_offset = 0;
        int64_t m_date_factor = 1;                                                                   // -> pbf-block-param-default
        int32_t m_granularity = 100;
        osmium::memory::Buffer m_buffer{1024};

        int32_t convert_pbf_lon(const int64_t c) const noexcept {
            return static_cast<int32_t>((c * m_granularity + m_lon_offset) / resolution_convert);
        }

        int32_t convert_pbf_lat(const int64_t c) const noexcept {
            return static_cast<int32_t>((c * m_granularity + m_lat_offset) / resolution_convert);
        }

        void decode_node(const protozero::data_view& data) {
            osmium::builder::NodeBuilder builder{m_buffer};
            int64_t lon = 0;
            int64_t lat = 0;
            protozero::pbf_message<Node> m{data};
            while (m.next()) {
                switch (m.tag_and_type()) {
                    case protozero::tag_and_type(Node::optional_int64_timestamp, protozero::pbf_wire_type::varint):
                        builder.object().set_timestamp(m.get_int64() * m_date_factor / 1000);
                        break;
                    case protozero::tag_and_type(Node::required_sint64_lat, protozero::pbf_wire_type::varint):
                        lat = m.get_sint64();
                        break;
                    case protozero::tag_and_type(Node::required_sint64_lon, protozero::pbf_wire_type::varint):
                        lon = m.get_sint64();
                        break;
                    default:
                        m.skip();
                }
            }
            builder.object().set_location(osmium::Location{convert_pbf_lon(lon), convert_pbf_lat(lat)});
        }

        // one pass: parameters stored while data is decoded                                         -> pbf-block-params-before-data
        void decode_everything() {
            protozero::pbf_message<PrimitiveBlock> m{m_data};
            while (m.next()) {
                switch (m.tag_and_type()) {
                    case protozero::tag_and_type(PrimitiveBlock::repeated_Node_nodes, protozero::pbf_wire_type::length_delimited):
                        decode_node(m.get_view());
                        break;
                    case protozero::tag_and_type(PrimitiveBlock::optional_int32_granularity, protozero::pbf_wire_type::varint):
                        m_granularity = m.get_int32();
                        break;
                    case protozero::tag_and_type(PrimitiveBlock::optional_int32_date_granularity, protozero::pbf_wire_type::varint):
                        m_date_factor = m.get_int32();
                        break;
                    case protozero::tag_and_type(PrimitiveBlock::optional_int64_lat_offset, protozero::pbf_wire_type::varint):
                        m_lon_offset = m.get_int64();                                                // -> pbf-block-param-from-own-field
                        break;
                    case protozero::tag_and_type(PrimitiveBlock::optional_int64_lon_offset, protozero::pbf_wire_type::varint):
                        m_lon_offset = m.get_int64();
                        break;
                    default:
                        m.skip();
                }
            }
        }

    public:

        explicit DecoderB(const protozero::data_view& data) : m_data(data) {
        }

        void operator()() {
            decode_everything();
        }

    };

    class Framer {

        std::string m_input_buffer;
        int m_fd = -1;

        static uint32_t assemble(const unsigned char* d) noexcept {                                  // little endian -> blob-header-length-big-endian
            return (static_cast<uint32_t>(d[0])) |
                   (static_cast<uint32_t>(d[1]) <<  8U) |
                   (static_cast<uint32_t>(d[2]) << 16U) |
                   (static_cast<uint32_t>(d[3]) << 24U);
        }

    public:

        uint32_t read_size(const std::array<unsigned char, 4>& buffer) {
            if (m_fd != -1) {
                return assemble(buffer.data());                                                      // unchecked -> blob-header-size-limit
            }
            const uint32_t size = assemble(reinterpret_cast<const unsigned char*>(m_input_buffer.data()));
            if (size >= static_cast<uint32_t>(max_blob_header_size)) {                               // rejects the limit itself -> blob-framing-limits-are-spec
                throw std::runtime_error{"invalid BlobHeader size"};
            }
            return size;
        }

    };

    // value taken from one packed range under the emptiness guard of its sibling          -> pbf-range-guard-tests-consumed-range
    inline int64_t sum_uids(osmium::io::detail::varint_range& ids, osmium::io::detail::varint_range& uids,
                            osmium::io::detail::varint_range& user_sids) {
        int64_t sum = 0;
        while (!ids.empty()) {
            sum += ids.next_sint64();
            if (!user_sids.empty()) {
                sum += uids.next_sint32();
            }
        }
        return sum;
    }

    class RefSink : public osmium::builder::WayNodeListBuilder {

    public:

        using osmium::builder::WayNodeListBuilder::WayNodeListBuilder;

        void add_ref(int64_t ref, const osmium::Location& location) {
            add_node_ref(ref, location);
        }

    };

    // location declared outside the loop, only conditionally refreshed, used every iteration -> loop-state-fresh-per-iteration
    inline void parse_refs(const char* s, const char* e, osmium::memory::Buffer& buffer) {
        RefSink sink{buffer};
        osmium::Location location;
        while (s < e) {
            const int64_t ref = *s++;
            if (s < e && *s == 'x') {
                ++s;
                location.set_lon_partial(&s);
            }
            sink.add_ref(ref, location);
        }
    }

    inline void driver(const protozero::data_view& d, const std::array<unsigned char, 4>& b) {
        DecoderA a;
        a.decode_node(d);
        DecoderB x{d};
        x();
        Framer f;
        (void)f.read_size(b);
    }

} // namespace c02_positive
