// Positive example for the SORTED rules of C11 (never part of /repo): every rule S1..S4 must fire here.
#include <algorithm>
#include <cstddef>
#include <tuple>
#include <vector>

namespace c11pos {

    struct entry {
        long id;
        std::size_t num;
        std::size_t pos;
        bool operator<(const entry& other) const noexcept {
            return std::tie(num, id, pos) < std::tie(other.num, other.id, other.pos);   // sorted by num first ...
        }
    };

    struct by_id {
        bool operator()(const entry& a, const entry& b) const noexcept {
            return a.id < b.id;                                                          // ... but searched by id  (S1)
        }
    };

    class Index {
        std::vector<entry> m_entries;

        std::vector<entry>::iterator find(long id) {
            return std::lower_bound(m_entries.begin(), m_entries.end(), entry{id, 0, 0}, by_id{});
        }

    public:
        void track(long id, std::size_t num) { m_entries.push_back(entry{id, num, 0}); }
        void prepare() { std::sort(m_entries.begin(), m_entries.end()); }
        void rename(long id, long new_id) {
            auto it = find(id);
            if (it != m_entries.end()) {
                it->id = new_id;                                                         // key field written after sort (S4)
            }
        }
        bool get_or_add(long id) {                                                       // inserts and searches (S3)
            auto it = find(id);
            if (it == m_entries.end()) {
                m_entries.push_back(entry{id, 0, 0});
                return false;
            }
            return true;
        }
    };

    class Unsorted {
        std::vector<long> m_entries;

    public:
        void add(long v) { m_entries.push_back(v); }
        bool has(long v) const { return std::binary_search(m_entries.begin(), m_entries.end(), v); }   // never sorted (S2)
    };

}

void c11pos_driver() {
    c11pos::Index i;
    i.track(1, 0);
    i.prepare();
    i.rename(1, 2);
    (void)i.get_or_add(3);
    c11pos::Unsorted u;
    u.add(1);
    (void)u.has(1);
}
