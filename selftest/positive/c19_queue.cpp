// Positive example for the C19 queue rules: a deliberately broken monitor with the same qualified names.
// Never part of /repo, never executed; the rules must report it on every run.
#include <atomic>
#include <condition_variable>
#include <cstddef>
#include <mutex>
#include <queue>
#include <string>

namespace osmium { namespace thread {

void user_callback();

template <typename T>
class Queue {
    const std::size_t m_max_size;
    mutable std::mutex m_mutex;
    std::queue<T> m_queue;
    std::condition_variable m_data_available;
    std::condition_variable m_space_available;
    std::atomic<bool> m_in_use{true};

public:
    explicit Queue(std::size_t max_size = 0) : m_max_size(max_size) {}

    void push(T value) {
        if (!m_in_use) {
            return;
        }
        if (m_max_size) {
            while (m_queue.size() >= m_max_size) {  // Q1: unlocked access
                std::unique_lock<std::mutex> lock{m_mutex};
                m_space_available.wait_for(lock, std::chrono::milliseconds{10}, [this] { return m_queue.size() < m_max_size; });
            }
        }
        const std::lock_guard<std::mutex> lock{m_mutex};
        m_queue.push(std::move(value));
        user_callback();  // Q8: call-out under the lock
        if (m_queue.size() > 3) {
            return;  // Q2: path without notify
        }
        m_data_available.notify_one();
    }

    void wait_and_pop(T& value) {
        std::unique_lock<std::mutex> lock{m_mutex};
        m_data_available.wait(lock, [this] { return !m_in_use || !m_queue.empty(); });
        if (!m_queue.empty()) {
            value = std::move(m_queue.front());
            m_queue.pop();
            lock.unlock();
            if (m_max_size) {
                m_space_available.notify_one();
            }
        }
    }

    void shutdown() {
        m_in_use = false;
        const std::lock_guard<std::mutex> lock{m_mutex};
        m_data_available.notify_all();
    }
};

template class Queue<std::string>;

}}  // namespace osmium::thread
