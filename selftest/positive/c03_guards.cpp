// Positive example for the C03 rules: same qualified names as the library, every guard deliberately missing or misplaced.
// Never part of /repo, never executed.
#include <algorithm>
#include <cstddef>
#include <cstdint>
#include <cstdlib>
#include <cstring>
#include <exception>
#include <iterator>
#include <memory>
#include <stdexcept>
#include <string>
#include <utility>
#include <vector>

extern "C" {
typedef struct XML_ParserStruct* XML_Parser;
typedef char XML_Char;
enum XML_Status { XML_STATUS_ERROR = 0, XML_STATUS_OK = 1, XML_STATUS_SUSPENDED = 2 };
typedef void (*XML_StartElementHandler)(void*, const XML_Char*, const XML_Char**);
typedef void (*XML_EndElementHandler)(void*, const XML_Char*);
typedef void (*XML_CharacterDataHandler)(void*, const XML_Char*, int);
void XML_SetElementHandler(XML_Parser, XML_StartElementHandler, XML_EndElementHandler);
void XML_SetCharacterDataHandler(XML_Parser, XML_CharacterDataHandler);
enum XML_Status XML_Parse(XML_Parser, const char*, int, int);
enum XML_Status XML_StopParser(XML_Parser, int);
}

namespace osmium {

enum { max_osm_string_length = 256 * 4 };
using string_size_type = uint16_t;

enum class item_type : uint16_t { undefined = 0, node = 1, way = 2, relation = 3, area = 4, changeset = 5 };

inline item_type nwr_index_to_item_type(unsigned int i) noexcept { return static_cast<item_type>(i + 1); }
inline item_type char_to_item_type(char c) noexcept {
    switch (c) {
        case 'n': return item_type::node;
        case 'w': return item_type::way;
        case 'r': return item_type::relation;
        default: return item_type::undefined;
    }
}

struct io_error : public std::runtime_error {
    explicit io_error(const char* w) : std::runtime_error(w) {}
};

// NUL layout premise: tags are walked by searching for the terminator
class Tag {
    const unsigned char* m_data = nullptr;
    static const unsigned char* after_null(const unsigned char* ptr) noexcept {
        return reinterpret_cast<const unsigned char*>(std::strchr(reinterpret_cast<const char*>(ptr), 0) + 1);
    }
public:
    const unsigned char* next() const noexcept { return after_null(after_null(m_data)); }
};

class RelationMember {
public:
    void set_role_size(string_size_type) noexcept {}
};

namespace builder {

class Builder {
public:
    unsigned append(const char* data, unsigned length) { (void)data; return length; }
    unsigned append_with_zero(const char* data, unsigned length) { (void)data; return length + 1; }
    unsigned append(const char* str) { return static_cast<unsigned>(std::strlen(str)) + 1; }
    void add_size(unsigned) {}
};

class RelationMemberListBuilder : public Builder {
public:
    // G3: no length test at all
    void add_role(osmium::RelationMember& member, const char* role, const std::size_t length) {
        member.set_role_size(static_cast<osmium::string_size_type>(length) + 1);
        add_size(append_with_zero(role, static_cast<unsigned>(length)));
    }
    void add_member(osmium::item_type, long, const char*) {}
};

// G3 (set_user family): raw copy + 16-bit size store without a throwing test, narrowing overload
class UserBuilder : public Builder {
    unsigned char m_storage[64];
    void set_user_size(osmium::string_size_type size) noexcept { std::memcpy(m_storage, &size, sizeof(size)); }
public:
    UserBuilder& set_user(const char* user, const osmium::string_size_type length) {
        std::memcpy(m_storage + 2, user, length);
        set_user_size(length + 1);
        return *this;
    }
    UserBuilder& set_user(const char* user) {
        const auto len = std::strlen(user);
        return set_user(user, static_cast<osmium::string_size_type>(len));
    }
};

class TagListBuilder : public Builder {
public:
    // G3: the value is appended after a test of the key length
    void add_tag(const char* key, const std::size_t key_length, const char* value, const std::size_t value_length) {
        if (key_length > osmium::max_osm_string_length) {
            throw std::length_error{"too long"};
        }
        add_size(append_with_zero(key, static_cast<unsigned>(key_length)));
        add_size(append_with_zero(value, static_cast<unsigned>(value_length)));
    }
};

} // namespace builder

namespace io { namespace detail {

const uint64_t max_uncompressed_blob_size = 32UL * 1024UL * 1024UL;
const int max_blob_header_size = 64 * 1024;

struct view {
    const char* m_data;
    std::size_t m_size;
    const char* data() const noexcept { return m_data; }
    std::size_t size() const noexcept { return m_size; }
};


// ---- G4: nothing is bounded
struct pbf_reader_mock {
    view get_view() { return view{nullptr, 0}; }
    int32_t get_int32() { return 0; }
    bool next() { return false; }
    int tag() { return 0; }
};

inline view zlib_uncompress_string(const char* input, unsigned long input_size, unsigned long raw_size, std::string& output) {
    output.resize(raw_size);
    (void)input; (void)input_size;
    return view{output.data(), output.size()};
}

enum class pbf_compression { none = 0, zlib = 1 };

inline view decode_blob(const std::string& blob_data, std::string& output) {
    int32_t raw_size = 0;
    view compressed{nullptr, 0};
    pbf_compression use_compression = pbf_compression::none;
    pbf_reader_mock pbf_blob;
    (void)blob_data;
    while (pbf_blob.next()) {
        switch (pbf_blob.tag()) {
            case 1: {
                const auto data_len = pbf_blob.get_view();
                return data_len;                    // raw data size not tested
            }
            case 2:
                raw_size = pbf_blob.get_int32();    // range not tested
                break;
            default:
                use_compression = pbf_compression::zlib;
                compressed = pbf_blob.get_view();
        }
    }
    if (compressed.size() == 0 && raw_size == 0) {     // A1 premise: an empty payload with raw_size set passes
        throw osmium::io_error{"no data"};
    }
    switch (use_compression) {
        case pbf_compression::none:
            break;
        case pbf_compression::zlib:
            return zlib_uncompress_string(compressed.data(), compressed.size(), static_cast<unsigned long>(raw_size), output);
    }
    std::abort();
}

class PBFParser {
    std::string m_input_buffer;
    int m_fd = -1;

    static uint32_t get_size_in_network_byte_order(const char* d) noexcept {
        return static_cast<uint32_t>(d[3]) | (static_cast<uint32_t>(d[0]) << 24U);
    }

    void ensure_available_in_input_queue(std::size_t) {}

public:
    uint32_t read_blob_header_size_from_file() {
        uint32_t size = get_size_in_network_byte_order(m_input_buffer.data());
        return size;                                // header size not tested
    }

    static std::size_t decode_blob_header(pbf_reader_mock& r) {
        std::size_t blob_header_datasize = 0;
        while (r.next()) {
            blob_header_datasize = static_cast<std::size_t>(r.get_int32());
        }
        return blob_header_datasize;                // zero accepted
    }

    std::string read_from_input_queue_with_check(std::size_t size) {
        std::string buffer;
        buffer.resize(size);                        // before the test
        if (size > max_uncompressed_blob_size) {
            throw osmium::io_error{"invalid blob size"};
        }
        ensure_available_in_input_queue(size);
        return buffer;
    }
};

class PBFPrimitiveBlockDecoder {
    std::vector<std::pair<const char*, osmium::string_size_type>> m_stringtable;

    // G2: inserted without the length test
    void decode_stringtable(const view& data) {
        const view str_view = data;
        m_stringtable.emplace_back(str_view.data(), static_cast<osmium::string_size_type>(str_view.size()));
    }

    // G1: unchecked index
    const char* user(unsigned int id) {
        return m_stringtable[id].first;
    }

    const char* role(unsigned int id) {
        return m_stringtable.at(id).first;
    }

    // NUL: string table entries (length-delimited, may contain NUL) copied with their length
    void tags(osmium::builder::TagListBuilder& builder, unsigned int id) {
        const auto& k = m_stringtable.at(id);
        builder.add_tag(k.first, k.second, k.first, k.second);
    }

    // G6: no range test before the cast
    osmium::item_type member_type(int type) {
        return static_cast<osmium::item_type>(type + 1);
    }

public:
    // G1: out_of_range from role() is not mapped
    const char* operator()() {
        osmium::builder::TagListBuilder tlb;
        tags(tlb, 0);
        (void)osmium::Tag{}.next();
        decode_stringtable(view{nullptr, 0});
        (void)member_type(1);
        (void)user(1);
        return role(2);
    }
};

// G9: continuation byte read before the length test
inline uint32_t next_utf8_codepoint(char const** begin, const char* end) {
    const auto* it = reinterpret_cast<const uint8_t*>(*begin);
    uint32_t cp = 0xffU & *it;
    const uint8_t length = static_cast<uint8_t>(cp >> 6U);
    switch (length) {
        case 1:
            break;
        case 2:
            ++it;
            cp = (cp << 6U) + *it;
            ++it;
            cp += *it;
            break;
        default:
            break;
    }
    if (std::distance(it, reinterpret_cast<const uint8_t*>(end)) < length) {
        throw std::out_of_range{"incomplete"};
    }
    ++it;
    *begin = reinterpret_cast<const char*>(it);
    return cp;
}

class ReferenceTable {
    enum : uint64_t { number_of_entries = 15000UL, entry_size = 256UL };
    enum { max_length = 250U + 2U };
    std::string m_table;
    unsigned int current_entry = 0;

public:
    // G5: copy not bounded by the slot size, table possibly unallocated, table too small
    void add(const char* string, std::size_t size) {
        if (size > 0) {
            std::copy_n(string, size, &m_table[current_entry * entry_size]);
            if (++current_entry == number_of_entries) {
                current_entry = 0;
            }
        } else {
            m_table.resize(entry_size);
        }
    }

    // G5: empty table / index not rejected
    const char* get(uint64_t index) const {
        const auto entry = (current_entry + number_of_entries - index) % number_of_entries;
        return &m_table[entry * entry_size];
    }
};

class O5mParser {
    const char* m_data = nullptr;
    const char* m_end = nullptr;
    ReferenceTable m_reference_table;

    bool ensure_bytes_available(std::size_t need) { return static_cast<std::size_t>(m_end - m_data) >= need; }

    static uint64_t varint(const char** data, const char* end) { (void)end; ++*data; return 1; }

    // G6: index not range checked
    static osmium::item_type decode_member_type(char c) {
        return osmium::nwr_index_to_item_type(c - '0');
    }

    // G5 cursor: the byte after the advance is read without a comparison with end
    const char* decode_string(const char** dataptr, const char* const end) {
        if (**dataptr == 0x00) {
            ++(*dataptr);
            return *dataptr;
        }
        (void)varint(dataptr, end);
        return m_reference_table.get(1);
    }

    void decode_tags(const char** dataptr, const char* const end) {
        while (*dataptr != end) {
            const char* data = decode_string(dataptr, end);
            while (*data++) {
            }
            *dataptr = data;
        }
    }

    // G5 section end: derived end used without comparison
    void decode_way(const char* data, const char* const end) {
        const auto len = varint(&data, end);
        const char* const end_refs = data + len;
        while (data < end_refs) {
            (void)varint(&data, end);
        }
        if (data != end) {
            decode_tags(&data, end);
        }
    }

    void check_magic() {
        if (*m_data != 'x') {
            std::exit(3);   // A1
        }
        m_data++;
    }

    void decode_header() {
        check_magic();      // G5: no ensure_bytes_available
    }

    void decode_data() {
        while (m_data != nullptr) {
            const char t = *m_data++;       // G5: type byte unchecked
            uint64_t length = varint(&m_data, m_end);
            ensure_bytes_available(length); // G5: result ignored
            if (t == 1) {
                decode_way(m_data, m_data + length);
            }
            m_data += length;
        }
    }

public:
    void run() {
        decode_header();
        decode_data();
        if (decode_member_type('1') == osmium::item_type::undefined) {
            throw 42;       // G8
        }
    }
};

// P1: the zone character is read before the digits in front of it are known to be there
inline int parse_hhmm(const char* str) {
    const bool has_zone = (str[4] == 'Z');
    if (str[0] >= '0' && str[0] <= '9' &&
        str[1] >= '0' && str[1] <= '9' &&
        str[2] >= '0' && str[2] <= '9' &&
        str[3] >= '0' && str[3] <= '9' &&
        has_zone) {
        return (str[0] - '0') * 10 + (str[1] - '0');
    }
    throw std::invalid_argument{"bad time"};
}

// G6: allowed-set test missing
inline void opl_parse_relation_members(const char* s, osmium::builder::RelationMemberListBuilder& builder) {
    const osmium::item_type type = osmium::char_to_item_type(*s);
    builder.add_member(type, 1, "");
}

class XMLParser {
public:
    class ExpatXMLParser {
        XML_Parser m_parser = nullptr;
        std::exception_ptr m_exception_ptr{};

        template <typename TFunc>
        void member_wrap(XMLParser& xml_parser, TFunc&& func) noexcept {
            try {
                std::forward<TFunc>(func)(xml_parser);
            } catch (const std::runtime_error&) {       // G7: not a catch-all, nothing stored
                XML_StopParser(m_parser, 0);
            }
        }

        template <typename TFunc>
        static void wrap(void* data, TFunc&& func) noexcept {
            auto& xml_parser = *static_cast<XMLParser*>(data);
            xml_parser.m_expat_xml_parser->member_wrap(xml_parser, std::forward<TFunc>(func));
        }

        static void start_element_wrapper(void* data, const XML_Char* element, const XML_Char** attrs) noexcept {
            wrap(data, [&](XMLParser& xml_parser) {
                xml_parser.start_element(element, attrs);
            });
        }

        // G7: not noexcept
        static void end_element_wrapper(void* data, const XML_Char* element) {
            wrap(data, [&](XMLParser& xml_parser) {
                xml_parser.start_element(element, nullptr);
            });
        }

    public:
        // G7: no entity declaration handler
        explicit ExpatXMLParser(void*) {
            XML_SetElementHandler(m_parser, start_element_wrapper, end_element_wrapper);
        }

        // G7: own error first, stored exception never rethrown
        void operator()(const std::string& data, bool last) {
            if (XML_Parse(m_parser, data.data(), static_cast<int>(data.size()), last) == XML_STATUS_ERROR) {
                throw osmium::io_error{"xml"};
            }
        }
    };

    ExpatXMLParser* m_expat_xml_parser{nullptr};

    void start_element(const XML_Char* element, const XML_Char**) {
        if (!element) {
            throw std::logic_error{"no element"};
        }
    }
};

}} // namespace io::detail

} // namespace osmium

void verif_c03_positive(osmium::io::detail::PBFPrimitiveBlockDecoder& d, osmium::io::detail::O5mParser& o, const char** p, const char* e) {
    (void)d();
    o.run();
    (void)osmium::io::detail::next_utf8_codepoint(p, e);
    osmium::builder::RelationMemberListBuilder b;
    osmium::RelationMember m;
    b.add_role(m, *p, static_cast<std::size_t>(e - *p));
    osmium::io::detail::opl_parse_relation_members("n1", b);
    (void)osmium::io::detail::parse_hhmm(e);
    osmium::builder::UserBuilder ub;
    ub.set_user(e);
    osmium::builder::TagListBuilder t;
    t.add_tag(*p, static_cast<std::size_t>(e - *p), e, std::strlen(e));
    osmium::io::detail::XMLParser::ExpatXMLParser x{nullptr};
    x("", true);
    std::string out;
    (void)osmium::io::detail::decode_blob(out, out);
    osmium::io::detail::PBFParser pp;
    (void)pp.read_blob_header_size_from_file();
    osmium::io::detail::pbf_reader_mock rm;
    (void)osmium::io::detail::PBFParser::decode_blob_header(rm);
    (void)pp.read_from_input_queue_with_check(1);
}
