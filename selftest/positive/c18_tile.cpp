// Positive example for the C18 rules: deliberately broken tile arithmetic with the library's qualified names.
// Never part of /repo, never executed; every C18 rule must report something here on every run.
#include <cstdint>

extern "C" void __assert_fail(const char*, const char*, unsigned int, const char*) noexcept __attribute__((__noreturn__));

namespace osmium {

class Location {
    int32_t m_x = 0;
    int32_t m_y = 0;

public:
    double lon() const { return m_x / 10000000.0; }
    double lat() const { return m_y / 10000000.0; }
};

namespace geom {

constexpr double PI = 3.14159;  // K3: not pi

// K3: literal factor instead of PI / 180.0
constexpr double deg_to_rad(double degree) noexcept { return degree * 0.0174532925199433; }
constexpr double rad_to_deg(double radians) noexcept { return radians * 57.2957795130823; }

struct Coordinates {
    double x;
    double y;
    explicit Coordinates(double cx, double cy) noexcept : x(cx), y(cy) {}
    Coordinates(const osmium::Location& location) : x(location.lon()), y(location.lat()) {}
};

namespace detail {

constexpr double earth_radius_for_epsg3857 = 6371000.0;   // K3: not the WGS84 semi-major axis
constexpr double max_coordinate_epsg3857 = 20037508.34;   // K3: != radius * PI

constexpr double lon_to_x(double lon) noexcept { return earth_radius_for_epsg3857 * lon * (PI / 180.0); }
inline double lat_to_y(double lat) { return earth_radius_for_epsg3857 * lat * (PI / 180.0); }

// K2: a value above max is returned unchanged
constexpr int32_t clamp(int32_t value, int32_t min, int32_t max) {
    if (value < min) {
        return min;
    }
    return max < value ? value : max;
}

}  // namespace detail

constexpr double MERCATOR_MAX_LAT = 89.0;  // K3: does not close the square

// K4: axes swapped
inline Coordinates lonlat_to_mercator(const Coordinates& c) {
    return Coordinates{detail::lon_to_x(c.y), detail::lat_to_y(c.x)};
}

// K1: 2 << zoom
constexpr uint32_t num_tiles_in_zoom(uint32_t zoom) noexcept { return 2U << zoom; }

// K1: only half the world
constexpr double tile_extent_in_zoom(uint32_t zoom) noexcept { return detail::max_coordinate_epsg3857 / num_tiles_in_zoom(zoom); }

// K1: upper bound one too large
constexpr uint32_t mercx_to_tilex(uint32_t zoom, double x) noexcept {
    return static_cast<uint32_t>(detail::clamp(static_cast<int32_t>((x + detail::max_coordinate_epsg3857) / tile_extent_in_zoom(zoom)), 0,
                                               static_cast<int32_t>(num_tiles_in_zoom(zoom))));
}

// K1: not clamped at all on one path, wrong orientation on the other
constexpr uint32_t mercy_to_tiley(uint32_t zoom, double y) noexcept {
    return zoom == 0 ? 0U
                     : static_cast<uint32_t>(detail::clamp(static_cast<int32_t>((y + detail::max_coordinate_epsg3857) / tile_extent_in_zoom(zoom)), 0,
                                                           static_cast<int32_t>(num_tiles_in_zoom(zoom) - 1)));
}

struct Tile {
    enum { max_zoom = 30U };
    uint32_t x;
    uint32_t y;
    uint32_t z;

    // K4: tx stored twice
    explicit Tile(uint32_t zoom, uint32_t tx, uint32_t ty) noexcept : x(tx), y(tx), z(zoom) { (void)ty; }

    // K4: y computed from the x coordinate
    explicit Tile(uint32_t zoom, const osmium::Location& location) : z(zoom) {
        // K7: the legal maximum zoom aborts (the expansion of assert(zoom < max_zoom), written out so that it survives NDEBUG)
        (zoom < max_zoom) ? static_cast<void>(0) : __assert_fail("zoom < max_zoom", "c18_tile.cpp", 1, "Tile");
        const auto coordinates = lonlat_to_mercator(location);
        x = mercx_to_tilex(zoom, coordinates.x);
        y = mercy_to_tiley(zoom, coordinates.x);
    }

    // K4: x through the y conversion
    explicit Tile(uint32_t zoom, const osmium::geom::Coordinates& coordinates) : z(zoom) {
        x = mercy_to_tiley(zoom, coordinates.x);
        y = mercy_to_tiley(zoom, coordinates.y);
    }

    // K5: y <= max
    bool valid() const noexcept {
        if (z > max_zoom) {
            return false;
        }
        const auto max = num_tiles_in_zoom(z);
        return x < max && y <= max;
    }
};

}  // namespace geom
}  // namespace osmium

void c18_positive_use(const osmium::Location& l) {
    osmium::geom::Tile t1{1, l};
    osmium::geom::Tile t2{1, osmium::geom::Coordinates{1.0, 2.0}};
    osmium::geom::Tile t3{1, 1, 1};
    (void)t1.valid();
    (void)osmium::geom::deg_to_rad(1.0);
    (void)osmium::geom::rad_to_deg(1.0);
    (void)t2;
    (void)t3;
}
