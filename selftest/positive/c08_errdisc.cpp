// Positive / negative examples for the ERRDISC engine (C08 rules E1-*).  Never part of /repo, never executed.
// Functions named bad_* must be reported, functions named ok_* must not.
#include <cerrno>
#include <cstdio>
#include <stdexcept>
#include <string>
#include <system_error>

#include <bzlib.h>
#include <unistd.h>
#include <zlib.h>

namespace c08pos {

[[noreturn]] inline void fail(const char* what) {
    throw std::runtime_error{what};
}

inline void check_rc(int rc) {
    if (rc != 0) {
        throw std::system_error{errno, std::system_category(), "failed"};
    }
}

// ---------------------------------------------------------------- must fire

inline void bad_ignored(int fd) {
    ::fsync(fd);                                  // result dropped
}

inline void bad_wrong_test(gzFile f, const std::string& data) {
    const int n = ::gzwrite(f, data.data(), static_cast<unsigned int>(data.size()));
    if (n < 0) {                                  // gzwrite reports failure with 0
        fail("write");
    }
}

inline void bad_overwritten(int fd) {
    int rc = ::fsync(fd);
    rc = 0;                                       // error forgotten before the test
    if (rc != 0) {
        fail("fsync");
    }
}

inline void bad_partial(BZFILE* bz, char* data, int size) {
    int bzerror = BZ_OK;
    ::BZ2_bzWrite(&bzerror, bz, data, size);
    if (bzerror == BZ_IO_ERROR) {                 // other errors fall through
        fail("bzwrite");
    }
}

inline void bad_swallowed(int fd) {
    try {
        if (::close(fd) != 0) {
            throw std::system_error{errno, std::system_category(), "close"};
        }
    } catch (...) {                               // swallowed: the caller sees success
    }
}

inline bool bad_flag_only(int fd) {
    if (::fsync(fd) != 0) {
        return false;                             // not an exception; nobody is forced to look
    }
    return true;
}

inline int bad_raw_close(int fd) {
    return ::close(fd);                           // thin wrapper: fine by itself ...
}

inline void drops_wrapper_result(int fd) {
    bad_raw_close(fd);                            // ... but this caller drops what it hands back
}

struct bad_dtor {
    FILE* m_file = nullptr;
    ~bad_dtor() {
        if (m_file) {
            fclose(m_file);                       // in a destructor the discard must be explicit
        }
    }
};

// ---------------------------------------------------------------- must stay silent

inline void ok_direct(int fd) {
    if (::fsync(fd) != 0) {
        throw std::system_error{errno, std::system_category(), "fsync"};
    }
}

inline void ok_negative_test(int fd) {
    const int rc = ::close(fd);
    if (rc < 0) {
        fail("close");
    }
}

inline void ok_minus_one(int fd) {
    long r;
    do {
        r = ::write(fd, "x", 1);
    } while (r == -1 && errno == EINTR);
    if (r == -1) {
        fail("write");
    }
}

inline void ok_helper(int fd) {
    check_rc(::fsync(fd));                        // extracted helper that always throws on failure
}

inline void ok_chain(int fd, bool sync) {
    if (sync && ::fsync(fd) != 0) {
        fail("fsync");
    }
}

inline void ok_null(int fd) {
    gzFile f = ::gzdopen(fd, "wb");
    if (f == nullptr) {
        fail("gzdopen");
    }
    const int rc = ::gzclose_w(f);
    if (rc != Z_OK) {
        fail("gzclose");
    }
}

inline void ok_bz(BZFILE* bz, char* data, int size) {
    int err = BZ_OK;
    ::BZ2_bzWrite(&err, bz, data, size);
    if (err < 0) {
        fail("bzwrite");
    }
}

inline void ok_rethrow(int fd) {
    try {
        if (::close(fd) != 0) {
            throw std::system_error{errno, std::system_category(), "close"};
        }
    } catch (...) {
        throw;
    }
}

inline int raw_fsync(int fd) noexcept {
    return ::fsync(fd);                           // thin wrapper, every caller tests the result
}

inline void ok_wrapper(int fd) {
    if (raw_fsync(fd) != 0) {
        fail("fsync");
    }
}

inline void ok_named_bool(gzFile f, const std::string& data) {
    const int n = ::gzwrite(f, data.data(), static_cast<unsigned int>(data.size()));
    const bool failed = n <= 0;                   // named local for the test
    if (failed) {
        fail("write");
    }
}

inline void ok_flag_loop(int fd, const char* p, unsigned long size) {
    unsigned long done = 0;
    while (done != size) {
        const long n = ::write(fd, p + done, size - done);
        if (n == -1) {
            if (errno == EINTR) {
                continue;                         // the loop test still holds: re-enters the call
            }
            fail("write");
        }
        done += static_cast<unsigned long>(n);
    }
}

struct ok_dtor {
    FILE* m_file = nullptr;
    ~ok_dtor() {
        if (m_file) {
            (void)fclose(m_file);
        }
    }
};

inline void use(int fd, gzFile f, BZFILE* bz, char* d) {
    bad_ignored(fd); bad_wrong_test(f, "x"); bad_overwritten(fd); bad_partial(bz, d, 1); bad_swallowed(fd); (void)bad_flag_only(fd);
    drops_wrapper_result(fd); ok_wrapper(fd); ok_named_bool(f, "x"); ok_flag_loop(fd, d, 1);
    bad_dtor b; ok_dtor o;
    ok_direct(fd); ok_negative_test(fd); ok_minus_one(fd); ok_helper(fd); ok_chain(fd, true); ok_null(fd); ok_bz(bz, d, 1); ok_rethrow(fd);
}

} // namespace c08pos
