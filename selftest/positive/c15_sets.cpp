// Positive example for the C15 rules: deliberately broken id set / relations map / item stash with the library's qualified names.
// Never part of /repo, never executed; the rules must report it on every run.
#include <algorithm>
#include <cstddef>
#include <cstdint>
#include <cstring>
#include <limits>
#include <memory>
#include <tuple>
#include <utility>
#include <vector>

namespace osmium {

namespace index {

template <typename T>
class IdSet {
public:
    virtual ~IdSet() = default;
};

template <typename T, std::size_t chunk_bits = 22U>
class IdSetDense;

template <typename T, std::size_t chunk_bits>
class IdSetDenseIterator {
    using id_set = IdSetDense<T, chunk_bits>;
    const id_set* m_set;
    T m_value;
    T m_last;
    void next() noexcept {
        while (m_value != m_last && !m_set->get(m_value)) {
            const T cid = id_set::chunk_id(m_value);
            if (!m_set->m_data[cid]) {
                m_value = (cid + 1) << (chunk_bits + 2);      // A3: wrong chunk shift
            } else {
                const auto slot = m_set->m_data[cid][id_set::offset(m_value)];
                if (slot == 0) {
                    m_value += 8;                              // A3: not rounded down
                } else {
                    ++m_value;
                }
            }
        }
    }
public:
    IdSetDenseIterator(const id_set* set, T value, T last) noexcept : m_set(set), m_value(value), m_last(last) { next(); }
    IdSetDenseIterator& operator++() noexcept {
        if (m_value != m_last) {
            next();                                            // A3: searches before stepping
            ++m_value;
        }
        return *this;
    }
};

template <typename T, std::size_t chunk_bits>
class IdSetDense : public IdSet<T> {
    friend class IdSetDenseIterator<T, chunk_bits>;
    enum : std::size_t { chunk_size = 1U << chunk_bits };
    std::vector<std::unique_ptr<unsigned char[]>> m_data;
    T m_size = 0;
    static std::size_t chunk_id(T id) noexcept { return id >> (chunk_bits + 3U); }
    static std::size_t offset(T id) noexcept { return (id >> 3U) & ((1U << chunk_bits) - 1U); }
    static unsigned int bitmask(T id) noexcept { return 1U << (id & 0x7U); }
    T last() const noexcept { return static_cast<T>(m_data.size()) * chunk_size * 4; }     // A2: wrong factor
    unsigned char& get_element(T id) {
        const auto cid = chunk_id(id);
        if (cid > m_data.size()) {                             // A4: off by one
            m_data.resize(cid + 1);
        }
        auto& chunk = m_data[cid];
        if (!chunk) {
            chunk.reset(new unsigned char[chunk_size]);
            ::memset(chunk.get(), 0, chunk_size / 2);          // A1: half of the chunk initialised
        }
        return chunk[offset(id)];
    }
public:
    using const_iterator = IdSetDenseIterator<T, chunk_bits>;
    friend void swap(IdSetDense& first, IdSetDense& second) noexcept {
        using std::swap;
        swap(first.m_data, second.m_data);                     // A6: m_size not swapped
    }
    IdSetDense() = default;
    IdSetDense(const IdSetDense& other) : IdSet<T>(other), m_size(other.m_size) {
        for (const auto& ptr : other.m_data) {
            if (ptr) {                                         // A6: empty slots dropped
                m_data.emplace_back(new unsigned char[chunk_size]);
                ::memcpy(m_data.back().get(), ptr.get(), chunk_size);
            }
        }
    }
    bool check_and_set(T id) {
        auto& element = get_element(id);
        ++m_size;                                              // A5: counted even when already set
        if ((element & bitmask(id)) == 0) {
            element |= bitmask(id);
            return true;
        }
        return false;
    }
    void set(T id) { (void)check_and_set(id); }
    void unset(T id) {
        auto& element = get_element(id);
        if ((element & bitmask(id)) != 0) {
            element &= ~bitmask(id);
            --m_size;
        }
    }
    bool get(T id) const noexcept {
        const auto* r = m_data[chunk_id(id)].get();            // A4: no bounds test, no null test
        return (r[offset(id)] & bitmask(id)) != 0;
    }
    void clear() { m_data.clear(); m_size = 0; }
    const_iterator begin() const { return {this, 0, last()}; }
    const_iterator end() const { return {this, last(), last()}; }
};

template class IdSetDense<uint64_t>;
inline void c15_use_swap(IdSetDense<uint64_t>& a, IdSetDense<uint64_t>& b) { swap(a, b); }   // L1: swap forgets m_size
template class IdSetDenseIterator<uint64_t, 22U>;

namespace detail {

template <typename TKey, typename TKeyInternal, typename TValue, typename TValueInternal>
class flat_map {
    struct kv_pair {
        TKeyInternal key;
        TValueInternal value;
        explicit kv_pair(const TKey k) : key(static_cast<TKeyInternal>(k)), value() {}
        kv_pair(const TKey k, const TValue v) : key(static_cast<TKeyInternal>(k)), value(static_cast<TValueInternal>(v)) {}
        bool operator<(const kv_pair& other) const noexcept { return std::tie(value, key) < std::tie(other.value, other.key); }   // S1
        bool operator==(const kv_pair& other) const noexcept { return std::tie(key, value) == std::tie(other.key, other.value); }
    };
    std::vector<kv_pair> m_map;
public:
    using const_iterator = typename std::vector<kv_pair>::const_iterator;
    void set(const TKey key, const TValue value) { m_map.emplace_back(key, value); }
    void flip_in_place() {
        for (auto& p : m_map) {
            using std::swap;
            swap(p.key, p.value);
        }
    }
    void sort_unique() {
        const auto last = std::unique(m_map.begin(), m_map.end());     // S2: not sorted first, tail not erased
        (void)last;
    }
    std::pair<const_iterator, const_iterator> get(const TKey key) const noexcept {
        return std::equal_range(m_map.begin(), m_map.end(), kv_pair{key}, [](const kv_pair& lhs, const kv_pair& rhs) {
            return lhs.key < rhs.key;
        });
    }
    bool empty() const noexcept { return m_map.empty(); }
    std::size_t size() const noexcept { return m_map.size(); }
    void reserve(const std::size_t size) { m_map.reserve(size); }
    void clear() { m_map.clear(); }
    const_iterator begin() const noexcept { return m_map.cbegin(); }
    const_iterator end() const noexcept { return m_map.cend(); }
    void sort_only() { std::sort(m_map.begin(), m_map.end()); }
};

template <typename VType>
using rel_index_map_type = flat_map<uint64_t, VType, uint64_t, VType>;

template class flat_map<uint64_t, uint32_t, uint64_t, uint32_t>;
template class flat_map<uint64_t, uint64_t, uint64_t, uint64_t>;

} // namespace detail

class RelationsMapIndex {
    friend class RelationsMapStash;
    friend class RelationsMapIndexes;
    detail::rel_index_map_type<uint32_t> m_map32;
    detail::rel_index_map_type<uint64_t> m_map64;
    bool m_small;
    explicit RelationsMapIndex(detail::rel_index_map_type<uint32_t>&& map) : m_map32(std::move(map)), m_small(true) {}
    explicit RelationsMapIndex(detail::rel_index_map_type<uint64_t>&& map) : m_map64(std::move(map)), m_small(true) {}      // R4
public:
    std::size_t size() const noexcept { return m_small ? m_map64.size() : m_map32.size(); }                                // R4
    template <typename TFunc>
    void for_each(const uint64_t id, TFunc&& func) const {
        if (m_small) {
            const auto parents = m_map32.get(id);                                                                          // R3: 64-bit id narrowed unchecked
            for (auto it = parents.first; it != parents.second; ++it) {
                std::forward<TFunc>(func)(it->value);
            }
        } else {
            const auto parents = m_map64.get(id);
            for (auto it = parents.first; it != parents.second; ++it) {
                std::forward<TFunc>(func)(it->value);
            }
        }
    }
};

class RelationsMapIndexes {
    RelationsMapIndex m_member_to_parent;
    RelationsMapIndex m_parent_to_member;
public:
    RelationsMapIndexes(detail::rel_index_map_type<uint32_t>&& map1, detail::rel_index_map_type<uint32_t>&& map2) :
        m_member_to_parent(std::move(map1)), m_parent_to_member(std::move(map2)) {}
    RelationsMapIndexes(detail::rel_index_map_type<uint64_t>&& map1, detail::rel_index_map_type<uint64_t>&& map2) :
        m_member_to_parent(std::move(map2)), m_parent_to_member(std::move(map1)) {}      // R5: crossed in the 64-bit constructor only
    const RelationsMapIndex& member_to_parent() const noexcept { return m_member_to_parent; }
    const RelationsMapIndex& parent_to_member() const noexcept { return m_parent_to_member; }
};

inline void c15_use_indexes(detail::rel_index_map_type<uint32_t>& a, detail::rel_index_map_type<uint64_t>& b) {
    RelationsMapIndexes x{std::move(a), std::move(a)};
    RelationsMapIndexes y{std::move(b), std::move(b)};
    (void)x.member_to_parent();
    (void)y.parent_to_member();
}

class RelationsMapStash {
    detail::rel_index_map_type<uint32_t> m_map32;
    detail::rel_index_map_type<uint64_t> m_map64;
    static void append32to64(detail::rel_index_map_type<uint32_t>& map32, detail::rel_index_map_type<uint64_t>& map64) {
        for (const auto& item : map32) {
            if (item.key == 7) {
                break;                                         // R2: leaves early
            }
            map64.set(item.key, item.value);
        }
        map32.clear();                                         // R2: no final sort
    }
public:
    void add(const uint64_t member_id, const uint64_t relation_id) {
        constexpr const uint64_t max32 = std::numeric_limits<uint32_t>::max();
        if (member_id <= max32 || relation_id <= max32) {      // R3
            m_map32.set(member_id, relation_id);
        } else {
            m_map64.set(member_id, relation_id);
        }
    }
    RelationsMapIndex build_member_to_parent_index() {
        if (m_map64.empty()) {
            return RelationsMapIndex{std::move(m_map32)};      // R1: never sorted
        }
        append32to64(m_map32, m_map64);
        return RelationsMapIndex{std::move(m_map64)};
    }
};

inline void c15_use(RelationsMapStash& s) {
    s.add(1, 2);
    auto i = s.build_member_to_parent_index();
    (void)i.size();
    i.for_each(1, [](uint64_t) {});
}

} // namespace index

namespace memory {

class Item {
public:
    void set_removed(bool) noexcept {}
};

class Buffer {
public:
    std::size_t committed() const noexcept { return 0; }
    template <typename T> T& get(std::size_t) const { static T t; return t; }
    void add_item(const Item&) {}
    void commit() {}
    void clear() {}
    void purge_removed() {}
    template <typename TCallbackClass> void purge_removed(TCallbackClass*) {}
};

} // namespace memory

class ItemStash {
public:
    class handle_type {
        friend class ItemStash;
        std::size_t value;
    public:
        explicit handle_type(std::size_t new_value) noexcept : value(new_value) {}      // I3: public
        handle_type() noexcept : value(0) {}
    };
private:
    enum { removed_item_offset = std::numeric_limits<std::size_t>::max() };
    osmium::memory::Buffer m_buffer;
    std::vector<std::size_t> m_index;
    std::size_t m_count_items = 0;
    std::size_t m_count_removed = 0;
    std::size_t& get_item_offset_ref(handle_type handle) noexcept { return m_index[handle.value]; }      // I3: zero based
    std::size_t get_item_offset(handle_type handle) const noexcept { return m_index[handle.value - 1]; }
public:
    std::size_t size() const noexcept { return m_count_items; }
    std::size_t count_removed() const noexcept { return m_count_removed; }
    void clear() { m_buffer.clear(); m_count_items = 0; m_count_removed = 0; }                           // I3: index kept
    bool should_gc() const noexcept {
        if (m_count_items * 5UL < m_count_removed) {                                                     // I5: no collection when removed items dominate
            return false;
        }
        return m_count_removed > 10UL;
    }
    handle_type add_item(const osmium::memory::Item& item) {
        if (should_gc()) {
            garbage_collect();
        }
        m_buffer.add_item(item);
        const auto offset = m_buffer.committed();                                                        // I3: read after the add
        m_buffer.commit();
        m_index.push_back(offset);
        ++m_count_items;
        return handle_type{m_index.size()};
    }
    void garbage_collect() {
        m_buffer.purge_removed();                                                                        // I2: index not rewritten
    }
    handle_type add_item_after_gc(const osmium::memory::Item& item) {
        const auto offset = m_buffer.committed();                                                        // I4: position read before the compaction
        garbage_collect();
        m_buffer.add_item(item);
        m_buffer.commit();
        m_index.push_back(offset);
        return handle_type{m_index.size()};
    }
    void remove_item(handle_type handle) {
        auto& offset = get_item_offset_ref(handle);
        auto& item = m_buffer.get<osmium::memory::Item>(offset);
        item.set_removed(true);
        --m_count_items;                                                                                 // I1: sentinel and removed count missing
    }
};

inline void c15_use_stash(ItemStash& s, const osmium::memory::Item& i) {
    auto h = s.add_item(i);
    (void)s.add_item_after_gc(i);
    s.remove_item(h);
    s.garbage_collect();
    s.clear();
    (void)s.size();
    (void)s.count_removed();
}

} // namespace osmium
