// Positive / negative examples for the IVAL engine (C13 rules).  Never part of /repo, never executed.
// Functions named bad_<rule>_* must be reported by the rule whose id starts with <RULE>, functions named ok_* must not be
// reported by any rule.
#include <osmium/osm/location.hpp>

#include <algorithm>
#include <array>
#include <iterator>
#include <cctype>
#include <cstdint>
#include <cstdlib>
#include <ctime>
#include <limits>
#include <stdexcept>
#include <string>

namespace c13pos {

// ---------------------------------------------------------------- A1 accumulation

inline int64_t bad_a1_unbounded(const char* s) {
    int64_t v = 0;
    while (*s >= '0' && *s <= '9') {              // nothing bounds the number of digits
        v = v * 10 + (*s - '0');
        ++s;
    }
    return v;
}

inline int64_t bad_a1_one_digit_too_many(const char* s) {
    int64_t v = 0;
    int n = 19;                                   // 10^19 > 2^63
    while (*s >= '0' && *s <= '9' && n > 0) {
        v = v * 10 + (*s - '0');
        ++s;
        --n;
    }
    return v;
}

inline uint32_t bad_a1_hex_nine(const char* s) {
    uint32_t v = 0;
    for (int i = 0; i < 9; ++i) {                 // 9 hex digits do not fit into 32 bits
        if (s[i] < '0' || s[i] > '9') {
            throw std::invalid_argument{"hex"};
        }
        v <<= 4U;
        v += s[i] - '0';
    }
    return v;
}

inline int64_t bad_a1_scale(int64_t v, int64_t scale) {
    if (v < 0 || v > 1000) {
        throw std::invalid_argument{"v"};
    }
    for (; scale > 0; --scale) {                  // F6 shape: the counter is not bounded by a literal
        v *= 10;
    }
    return v;
}

inline int64_t ok_counted(const char* s) {
    int64_t v = 0;
    int n = 18;
    while (*s >= '0' && *s <= '9' && n > 0) {
        v = v * 10 + (*s - '0');
        ++s;
        --n;
    }
    return v;
}

inline int64_t ok_counted_throw_on_last(const char* s) {
    int64_t v = 0;
    int n = 17;
    while (*s >= '0' && *s <= '9' && n > 0) {
        v = v * 10 + (*s - '0');
        ++s;
        --n;
    }
    if (n == 0) {                                 // the 17th digit is rejected: v < 10^16 from here on
        throw std::invalid_argument{"too long"};
    }
    for (int m = 2; m > 0 && *s >= '0' && *s <= '9'; --m, ++s) {
        v = v * 10 + (*s - '0');                  // < 10^18
    }
    return v;
}

inline int64_t bad_a1_no_throw_on_last(const char* s) {
    int64_t v = 0;
    int n = 17;
    while (*s >= '0' && *s <= '9' && n > 0) {
        v = v * 10 + (*s - '0');
        ++s;
        --n;
    }
    for (int m = 2; m > 0 && *s >= '0' && *s <= '9'; --m, ++s) {
        v = v * 10 + (*s - '0');                  // 17 + 2 digits: up to 10^19
    }
    return v;
}

inline int64_t ok_limit_tested(const char* s) {
    int64_t v = 0;
    while (*s >= '0' && *s <= '9') {
        if (v > (std::numeric_limits<int64_t>::max() - 9) / 10) {
            throw std::invalid_argument{"too long"};
        }
        v = v * 10 + (*s - '0');
        ++s;
    }
    return v;
}

inline int64_t ok_scale_bounded(int64_t v, int64_t scale) {
    if (v < 0 || v > 1000 || scale > 15) {
        throw std::invalid_argument{"v"};
    }
    for (; scale > 0; --scale) {
        v *= 10;
    }
    return v;
}

// ---------------------------------------------------------------- N1 negation

inline int64_t bad_n1_abs(int64_t v) {
    if (v < 0) {
        v = -v;
    }
    return v;
}

inline int64_t ok_abs(int64_t v) {
    if (v == std::numeric_limits<int64_t>::min()) {
        throw std::invalid_argument{"min"};
    }
    if (v < 0) {
        v = -v;
    }
    return v;
}

// ---------------------------------------------------------------- C1 narrowing, S1-S4 strto*

inline uint32_t bad_c1_unchecked(const char* s) {
    if (*s == '\0' || std::isspace(*s)) {
        throw std::range_error{"empty"};
    }
    char* end = nullptr;
    const auto v = std::strtoul(s, &end, 10);
    if (v == std::numeric_limits<unsigned long>::max() || *end != '\0') {
        throw std::range_error{"bad"};
    }
    return static_cast<uint32_t>(v);              // 4294967296 becomes 0
}

inline int64_t bad_s1_no_sentinel(const char* s) {
    if (*s == '\0' || std::isspace(*s)) {
        throw std::range_error{"empty"};
    }
    char* end = nullptr;
    const auto v = std::strtoll(s, &end, 10);
    if (*end != '\0') {
        throw std::range_error{"bad"};
    }
    return v;                                     // "99999999999999999999" -> LLONG_MAX
}

inline int64_t bad_s2_no_end_test(const char* s) {
    if (*s == '\0' || std::isspace(*s)) {
        throw std::range_error{"empty"};
    }
    char* end = nullptr;
    const auto v = std::strtoll(s, &end, 10);
    if (v == std::numeric_limits<long long>::min() || v == std::numeric_limits<long long>::max()) {
        throw std::range_error{"bad"};
    }
    return v;                                     // "12abc" -> 12
}

inline int64_t bad_s3_empty_accepted(const char* s) {
    if (std::isspace(*s)) {
        throw std::range_error{"space"};
    }
    char* end = nullptr;
    const auto v = std::strtoll(s, &end, 10);
    if (v == std::numeric_limits<long long>::min() || v == std::numeric_limits<long long>::max() || *end != '\0') {
        throw std::range_error{"bad"};
    }
    return v;                                     // "" -> 0
}

inline int64_t bad_s4_space_accepted(const char* s) {
    if (*s == '\0') {
        throw std::range_error{"empty"};
    }
    char* end = nullptr;
    const auto v = std::strtoll(s, &end, 10);
    if (v == std::numeric_limits<long long>::min() || v == std::numeric_limits<long long>::max() || *end != '\0') {
        throw std::range_error{"bad"};
    }
    return v;                                     // " 1" -> 1
}

inline uint32_t bad_s5_minus_accepted(const char* s) {
    if (s[0] == '-' && s[1] == '1' && s[2] == '\0') {
        return 0;
    }
    if (*s != '\0' && !std::isspace(*s)) {         // "-18446744073709551615" -> 1
        char* end = nullptr;
        const auto v = std::strtoul(s, &end, 10);
        if (v < std::numeric_limits<uint32_t>::max() && *end == '\0') {
            return static_cast<uint32_t>(v);
        }
    }
    throw std::range_error{"bad"};
}

inline uint32_t ok_minus_index_spelling(const char* s) {
    if (s[0] == '-' && s[1] == '1' && s[2] == '\0') {
        return 0;
    }
    if (s[0] == '\0' || s[0] == '-' || std::isspace(*s)) {
        throw std::range_error{"bad"};
    }
    char* end = nullptr;
    const auto v = std::strtoul(s, &end, 10);
    if (v <= std::numeric_limits<uint32_t>::max() && *end == '\0') {
        return static_cast<uint32_t>(v);
    }
    throw std::range_error{"bad"};
}

inline int64_t bad_a2_stops_early(int64_t v, int64_t scale) {
    if (v < 0 || scale > 0) {
        throw std::invalid_argument{"v"};
    }
    for (; scale < 0 && v > 9; ++scale) {         // one digit is left while scale is still negative
        v /= 10;
    }
    return (v + 5) / 10;
}

inline int64_t ok_scale_down(int64_t v, int64_t scale) {
    if (v < 0 || scale > 0) {
        throw std::invalid_argument{"v"};
    }
    for (; scale < 0 && v > 0; ++scale) {
        v /= 10;
    }
    return (v + 5) / 10;
}

inline int32_t bad_a3_bound_too_small(int64_t v, int64_t scale) {
    if (v < 0 || v > 1000000 || scale < 0) {
        throw std::invalid_argument{"v"};
    }
    constexpr const int64_t stop = 10LL * std::numeric_limits<int32_t>::max();
    for (; scale > 0 && v < stop; --scale) {      // may stop at 21474836470..: (v + 5) / 10 == INT32_MAX passes the test below
        v *= 10;
    }
    v = (v + 5) / 10;
    if (v > std::numeric_limits<int32_t>::max()) {
        throw std::invalid_argument{"range"};
    }
    return static_cast<int32_t>(v);
}

inline int32_t ok_early_exit_rejected(int64_t v, int64_t scale) {
    if (v < 0 || v > 1000000 || scale < 0) {
        throw std::invalid_argument{"v"};
    }
    constexpr const int64_t stop = 100LL * std::numeric_limits<int32_t>::max();
    while (scale > 0) {
        if (v >= stop) {
            break;
        }
        v *= 10;
        --scale;
    }
    v = (v + 5) / 10;
    if (v > std::numeric_limits<int32_t>::max()) {
        throw std::invalid_argument{"range"};
    }
    return static_cast<int32_t>(v);
}

inline const char* bad_b1_shared_budget(const char* s) {
    int budget = 10;
    while (*s >= '0' && *s <= '9' && budget > 0) {
        ++s;
        --budget;
    }
    if (*s == '.') {
        ++s;
    }
    while (*s >= '0' && *s <= '9' && budget > 0) {     // runs on what the first loop left over
        ++s;
        --budget;
    }
    return s;
}

inline const char* ok_budget_reset(const char* s) {
    int budget = 10;
    while (*s >= '0' && *s <= '9' && budget > 0) {
        ++s;
        --budget;
    }
    if (*s == '.') {
        ++s;
    }
    budget = 20;
    while (*s >= '0' && *s <= '9' && budget > 0) {
        ++s;
        --budget;
    }
    return s;
}

inline std::time_t bad_t2_february(int mon, int day) {
    static const std::array<int, 12> days = {{31, 28, 31, 30, 31, 30, 31, 31, 30, 31, 30, 31}};
    std::tm tm;
    tm.tm_year = 100;
    tm.tm_mon = mon;
    tm.tm_mday = day;
    tm.tm_hour = 0;
    tm.tm_min = 0;
    tm.tm_sec = 0;
    if (tm.tm_mon >= 0 && tm.tm_mon <= 11 && tm.tm_mday >= 1 && tm.tm_mday <= days[tm.tm_mon]) {
        return timegm(&tm);
    }
    throw std::invalid_argument{"date"};
}

inline std::time_t bad_t3_day_test_inverted(int mon, int day, int hour) {
    static const std::array<int, 12> days = {{31, 29, 31, 30, 31, 30, 31, 31, 30, 31, 30, 31}};
    std::tm tm;
    tm.tm_year = 100;
    tm.tm_mon = mon;
    tm.tm_mday = day;
    tm.tm_hour = hour;
    tm.tm_min = 0;
    tm.tm_sec = 0;
    if (tm.tm_mon >= 0 && tm.tm_mon <= 11 && tm.tm_mday >= 1 && tm.tm_mday >= days[tm.tm_mon] && tm.tm_hour >= 0 && tm.tm_hour <= 24) {
        return timegm(&tm);
    }
    throw std::invalid_argument{"date"};
}

inline std::time_t ok_calendar(int mon, int day, int hour) {
    static const std::array<int, 12> days = {{31, 29, 31, 30, 31, 30, 31, 31, 30, 31, 30, 31}};
    std::tm tm;
    tm.tm_year = 100;
    tm.tm_mon = mon;
    tm.tm_mday = day;
    tm.tm_hour = hour;
    tm.tm_min = 0;
    tm.tm_sec = 0;
    if (tm.tm_mon < 0 || tm.tm_mon > 11 || tm.tm_mday < 1 || tm.tm_mday > days[tm.tm_mon] || tm.tm_hour < 0 || tm.tm_hour > 23) {
        throw std::invalid_argument{"date"};
    }
    return timegm(&tm);
}

template <typename T>
inline T ok_put(T out, int v) {
    *out++ = static_cast<char>('0' + v % 10);
    return out;
}

template <typename T>
inline T bad_o1_result_dropped(T out, int a) {
    static const char text[] = "-214";
    if (a < 0) {
        std::copy_n(text, sizeof(text) - 1, out);   // returns the advanced iterator ...
        return out;                                  // ... but the stale copy is returned
    }
    return ok_put(out, a);
}

template <typename T>
inline T bad_o1_sibling_result_dropped(T out, int a, int b) {
    ok_put(out, a);                                  // position lost
    *out++ = ',';
    return ok_put(out, b);
}

template <typename T>
inline T ok_threaded(T out, int a, int b) {
    static const char text[] = "-214";
    if (a < 0) {
        return std::copy_n(text, sizeof(text) - 1, out);
    }
    out = ok_put(out, a);
    *out++ = ',';
    T next = ok_put(out, b);
    return next;
}

inline void bad_w1_gmtime(std::time_t t, std::tm& tm) {
    const std::tm* r = std::gmtime(&t);              // static buffer shared by all threads
    tm = *r;
}

inline void ok_gmtime_r(std::time_t t, std::tm& tm) {
    gmtime_r(&t, &tm);
}

inline std::time_t bad_t4_no_leap_second(int sec) {
    std::tm tm;
    tm.tm_year = 100;
    tm.tm_mon = 0;
    tm.tm_mday = 1;
    tm.tm_hour = 0;
    tm.tm_min = 0;
    tm.tm_sec = sec;
    if (tm.tm_sec >= 0 && tm.tm_sec <= 59) {         // 23:59:60 is rejected
        return timegm(&tm);
    }
    throw std::invalid_argument{"sec"};
}

inline int64_t bad_s6_base_zero(const char* s) {
    if (*s == '\0' || std::isspace(*s)) {
        throw std::range_error{"empty"};
    }
    char* end = nullptr;
    const auto v = std::strtoll(s, &end, 0);          // "010" -> 8, "0x10" -> 16
    if (v == std::numeric_limits<long long>::min() || v == std::numeric_limits<long long>::max() || *end != '\0') {
        throw std::range_error{"bad"};
    }
    return v;
}

inline uint32_t ok_strict(const char* s) {
    if (*s != '\0' && *s != '-' && !std::isspace(*s)) {
        char* end = nullptr;
        const auto v = std::strtoul(s, &end, 10);
        if (v <= std::numeric_limits<uint32_t>::max() && *end == '\0') {
            return static_cast<uint32_t>(v);
        }
    }
    throw std::range_error{"bad"};
}

// ---------------------------------------------------------------- L1 whole-string consumption

struct Loc {
    int32_t x = 0;

    void bad_l1_set(const char* str) {
        x = osmium::detail::string_to_location_coordinate(&str);   // "1.5x" accepted
    }

    void ok_set(const char* str) {
        const auto v = osmium::detail::string_to_location_coordinate(&str);
        if (*str != '\0') {
            throw osmium::invalid_location{"characters after coordinate"};
        }
        x = v;
    }

    void ok_set_partial(const char** str) {
        x = osmium::detail::string_to_location_coordinate(str);
    }
};

// ---------------------------------------------------------------- D1 digits, T1 index

inline int bad_d1_half_tested(const char* s) {
    if (s[0] <= '9' && s[1] >= '0' && s[1] <= '9') {               // s[0] may be below '0'
        return (s[0] - '0') * 10 + (s[1] - '0');
    }
    throw std::invalid_argument{"digits"};
}

inline int ok_digits(const char* s) {
    if (s[0] >= '0' && s[0] <= '9' && s[1] >= '0' && s[1] <= '9') {
        return (s[0] - '0') * 10 + (s[1] - '0');
    }
    throw std::invalid_argument{"digits"};
}

inline int bad_t1_month(const char* s) {
    static const std::array<int, 12> len = {{31, 29, 31, 30, 31, 30, 31, 31, 30, 31, 30, 31}};
    const int mon = ok_digits(s) - 1;
    if (mon >= 0 && mon <= 12) {                                   // 12 is one too many
        return len[mon];
    }
    throw std::invalid_argument{"month"};
}

inline int ok_month(const char* s) {
    static const std::array<int, 12> len = {{31, 29, 31, 30, 31, 30, 31, 31, 30, 31, 30, 31}};
    const int mon = ok_digits(s) - 1;
    if (mon >= 0 && mon <= 11) {
        return len[mon];
    }
    throw std::invalid_argument{"month"};
}

// force bodies
inline void use_all(const char* s, const char** p) {
    Loc l;
    l.bad_l1_set(s);
    l.ok_set(s);
    l.ok_set_partial(p);
    (void)bad_a1_unbounded(s);
    (void)bad_a1_one_digit_too_many(s);
    (void)bad_a1_hex_nine(s);
    (void)bad_a1_scale(1, 2);
    (void)ok_counted(s);
    (void)ok_counted_throw_on_last(s);
    (void)bad_a1_no_throw_on_last(s);
    (void)ok_limit_tested(s);
    (void)ok_scale_bounded(1, 2);
    (void)bad_n1_abs(1);
    (void)ok_abs(1);
    (void)bad_c1_unchecked(s);
    (void)bad_s1_no_sentinel(s);
    (void)bad_s2_no_end_test(s);
    (void)bad_s3_empty_accepted(s);
    (void)bad_s4_space_accepted(s);
    (void)ok_strict(s);
    (void)bad_s6_base_zero(s);
    char buf[64];
    (void)bad_o1_result_dropped(buf, 1);
    (void)bad_o1_sibling_result_dropped(buf, 1, 2);
    (void)ok_threaded(buf, 1, 2);
    (void)ok_threaded(std::back_inserter(*new std::string), 1, 2);
    std::tm tmv;
    bad_w1_gmtime(0, tmv);
    ok_gmtime_r(0, tmv);
    (void)bad_t4_no_leap_second(1);
    (void)bad_a3_bound_too_small(1, 2);
    (void)ok_early_exit_rejected(1, 2);
    (void)bad_b1_shared_budget(s);
    (void)ok_budget_reset(s);
    (void)bad_t2_february(1, 2);
    (void)bad_t3_day_test_inverted(1, 2, 3);
    (void)ok_calendar(1, 2, 3);
    (void)bad_s5_minus_accepted(s);
    (void)ok_minus_index_spelling(s);
    (void)bad_a2_stops_early(1, -1);
    (void)ok_scale_down(1, -1);
    (void)bad_d1_half_tested(s);
    (void)ok_digits(s);
    (void)bad_t1_month(s);
    (void)ok_month(s);
}

} // namespace c13pos
