"""Seeded edits used to test that each rule fires (exact string replacement on a scratch copy of /repo/include).
Each entry: id, prop, rule (expected report), file (relative to the repo root), old, new."""

Q = 'include/osmium/thread/queue.hpp'
POOL = 'include/osmium/thread/pool.hpp'
FW = 'include/osmium/thread/function_wrapper.hpp'

MUTANTS = [
    # ------------------------------------------------------------------ C19
    dict(id='queue-push-no-notify', prop='C19', rule='Q2-insert-notifies-consumers', file=Q,
         old='                m_data_available.notify_one();\n            }\n\n            void wait_and_pop', new='            }\n\n            void wait_and_pop'),
    dict(id='queue-shutdown-notify-one', prop='C19', rule='Q5-shutdown-notify_all', file=Q,
         old='m_data_available.notify_all();', new='m_data_available.notify_one();'),
    dict(id='queue-wait-pred-no-flag', prop='C19', rule='Q4-consumer-predicate', file=Q,
         old='return !m_in_use || !m_queue.empty();', new='return !m_queue.empty();'),
    dict(id='queue-try_pop-pop-outside-lock', prop='C19', rule='Q1-access-under-lock', file=Q,
         old='                    value = std::move(m_queue.front());\n                    m_queue.pop();\n                }\n                if (m_max_size) {',
         new='                    value = std::move(m_queue.front());\n                }\n                m_queue.pop();\n                if (m_max_size) {'),
    dict(id='queue-shutdown-flag-after', prop='C19', rule='Q5-shutdown-flag-before-notify', file=Q,
         old='                m_in_use = false;\n                const std::lock_guard<std::mutex> lock{m_mutex};\n                while (!m_queue.empty()) {\n                    m_queue.pop();\n                }\n                m_data_available.notify_all();',
         new='                const std::lock_guard<std::mutex> lock{m_mutex};\n                while (!m_queue.empty()) {\n                    m_queue.pop();\n                }\n                m_data_available.notify_all();\n                m_in_use = false;'),
    dict(id='queue-pop-no-space-notify', prop='C19', rule='Q3-remove-notifies-producers', file=Q,
         old='                    lock.unlock();\n                    if (m_max_size) {\n                        m_space_available.notify_one();\n                    }',
         new='                    lock.unlock();'),
    dict(id='queue-wait-untimed', prop='C19', rule='Q7-bounded-wait-loop', file=Q,
         old='m_space_available.wait_for(lock, max_wait, [this] {', new='m_space_available.wait(lock, [this] {'),
    dict(id='queue-pop-unguarded', prop='C19', rule='Q4-removal-guarded-by-nonempty', file=Q,
         old='                if (!m_queue.empty()) {\n                    value = std::move(m_queue.front());\n                    m_queue.pop();\n                    lock.unlock();',
         new='                {\n                    value = std::move(m_queue.front());\n                    m_queue.pop();\n                    lock.unlock();'),
    dict(id='queue-size-unlocked', prop='C19', rule='Q1-access-under-lock', file=Q,
         old='            std::size_t size() const {\n                const std::lock_guard<std::mutex> lock{m_mutex};\n', new='            std::size_t size() const {\n'),
    dict(id='queue-push-twice', prop='C19', rule='Q7-push-inserts', file=Q,
         old='                m_queue.push(std::move(value));\n', new='                m_queue.push(std::move(value));\n                if (m_max_size == 7) {\n                    m_queue.push(T{});\n                }\n'),
    dict(id='pool-joiner-first', prop='C19', rule='P3-joiner-declared-last', file=POOL,
         old='            osmium::thread::Queue<function_wrapper> m_work_queue;\n            std::vector<std::thread> m_threads;\n            thread_joiner m_joiner;\n',
         new='            osmium::thread::Queue<function_wrapper> m_work_queue;\n            thread_joiner m_joiner;\n            std::vector<std::thread> m_threads;\n'),
    dict(id='wrapper-call-returns-true', prop='C19', rule='P2-call-return-values', file=FW,
         old='                    m_functor();\n                    return false;', new='                    m_functor();\n                    return true;'),
    dict(id='pool-shutdown-one-less', prop='C19', rule='P3-one-stop-task-per-worker', file=POOL,
         old='for (int i = 0; i < m_num_threads; ++i) {\n                    // The special', new='for (int i = 1; i < m_num_threads; ++i) {\n                    // The special'),
    dict(id='pool-worker-exit-on-any-task', prop='C19', rule='P1-worker-exit-only-on-stop-task', file=POOL,
         old='if (task && task()) {', new='if (task) {\n                        task();'),
    dict(id='pool-submit-future-after-push', prop='C19', rule='P4-submit-future-before-push', file=POOL,
         old='                std::future<submit_func_result_type<TFunction>> future_result{task.get_future()};\n                m_work_queue.push(std::move(task));\n',
         new='                m_work_queue.push(std::move(task));\n                std::future<submit_func_result_type<TFunction>> future_result{task.get_future()};\n'),
    dict(id='pool-dtor-no-shutdown', prop='C19', rule='P3-dtor-shuts-down', file=POOL,
         old='            ~Pool() {\n                shutdown_all_workers();\n            }', new='            ~Pool() {\n            }'),
    dict(id='joiner-no-join', prop='C19', rule='P3-joiner-joins-all', file=POOL,
         old='                        if (thread.joinable()) {\n                            thread.join();\n                        }', new='                        if (thread.joinable()) {\n                            thread.detach();\n                        }'),
]
