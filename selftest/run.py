#!/usr/bin/env python3
"""Self-validation of the checkers (never influences a verdict).

For every mutant in selftest/mutants.py: copy /repo/include to a scratch directory outside /repo and /verif, apply
the edit (exact string replacement), run ./check <property> --repo <scratch> and require exit 1 with a report whose rule
is the expected one.  Also requires exit 0 on the pristine copy.  Scratch copies are removed immediately.

usage: selftest/run.py [PROPERTY ...] [-k substring] [-j N]
"""
import argparse
import json
import os
import shutil
import subprocess
import sys
import tempfile
from concurrent.futures import ThreadPoolExecutor

HERE = os.path.dirname(os.path.abspath(__file__))
VERIF = os.path.dirname(HERE)
sys.path.insert(0, HERE)
sys.dont_write_bytecode = True
from mutants import MUTANTS  # noqa: E402

REPO = os.environ.get('VERIF_REPO', '/repo')


def run_one(m):
    scratch = tempfile.mkdtemp(prefix='verif-mut-', dir='/var/tmp')
    try:
        shutil.copytree(os.path.join(REPO, 'include'), os.path.join(scratch, 'include'))
        if 'patch' in m:
            # a patch file relative to /verif, applied (or reverse-applied) to the scratch copy
            cmd = ['patch', '-p1', '-s', '-d', scratch, '-i', os.path.join(VERIF, m['patch'])]
            if m.get('reverse'):
                cmd.insert(1, '-R')
            r = subprocess.run(cmd, stdout=subprocess.PIPE, stderr=subprocess.STDOUT, text=True)
            if r.returncode != 0:
                return (m, 'skipped', 'patch does not apply: ' + r.stdout[-200:])
            edits = []
        else:
            edits = m['edits'] if 'edits' in m else [(m['file'], m['old'], m['new'])]
        for (rel, old, new) in edits:
            p = os.path.join(scratch, rel)
            with open(p) as f:
                src = f.read()
            if src.count(old) != 1:
                return (m, 'skipped', 'pattern occurs %d times in %s' % (src.count(old), rel))
            with open(p, 'w') as f:
                f.write(src.replace(old, new))
        ev = os.path.join(scratch, 'evidence')
        os.makedirs(ev)
        env = dict(os.environ, VERIF_EVIDENCE_DIR=ev, VERIF_CACHE=os.path.join(scratch, 'cache'))
        r = subprocess.run([os.path.join(VERIF, 'check'), m['prop'], '--repo', scratch], stdout=subprocess.PIPE, stderr=subprocess.STDOUT,
                           text=True, env=env, cwd=VERIF)
        out = r.stdout
        want = '[%s/%s]' % (m['prop'], m['rule'])
        if r.returncode == 1 and want in out:
            return (m, 'fired', '')
        if r.returncode == 1:
            return (m, 'fired-other', out[-600:])
        return (m, 'MISSED' if r.returncode == 0 else 'exit%d' % r.returncode, out[-800:])
    finally:
        shutil.rmtree(scratch, ignore_errors=True)


def main():
    ap = argparse.ArgumentParser()
    ap.add_argument('props', nargs='*')
    ap.add_argument('-k', default=None)
    ap.add_argument('-j', type=int, default=8)
    ap.add_argument('--json', default=None)
    a = ap.parse_args()
    ms = [m for m in MUTANTS if (not a.props or m['prop'] in a.props) and (a.k is None or a.k in m['id'])]
    with ThreadPoolExecutor(max_workers=a.j) as ex:
        res = list(ex.map(run_one, ms))
    bad = 0
    for (m, st, info) in res:
        print('%-8s %-4s %-45s expect %s %s' % (st, m['prop'], m['id'], m['rule'], ('\n    ' + info.replace('\n', '\n    ')) if info and st not in ('fired',) else ''))
        if st not in ('fired', 'skipped'):
            bad += 1
    print('mutants: %d fired, %d skipped, %d not as expected, of %d' % (
        sum(1 for r in res if r[1] == 'fired'), sum(1 for r in res if r[1] == 'skipped'), bad, len(res)))
    if a.json:
        with open(a.json, 'w') as f:
            json.dump([{'id': m['id'], 'prop': m['prop'], 'rule': m['rule'], 'status': st} for (m, st, _i) in res], f, indent=1)
    sys.exit(1 if bad else 0)


if __name__ == '__main__':
    main()
