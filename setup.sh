#!/bin/sh
# Build the fact extractor from files on disk only (offline).
set -e
cd "$(dirname "$0")"
python3 - <<'PY'
import sys
sys.path.insert(0, '.')
sys.dont_write_bytecode = True
from osmlint.engine import build_tool
build_tool()
print('osmfacts built')
PY
