"""SORTED engine -- sort-before-search and comparator-key agreement (DESIGN.md section 3).

What it decides
---------------
A binary search (`std::lower_bound / upper_bound / equal_range / binary_search`) or an adjacency scan
(`std::adjacent_find / unique`) over a container is only meaningful if
  (K) the container is ordered by a key of which the search comparator's key is a PREFIX (same accessors, same
      direction, same component comparison), and
  (O) the search can only execute after the sort, with no order-breaking mutation of the container in between, and
  (W) nothing writes a search-key field of a stored element once the container is sorted.
The engine extracts these facts from the resolved program (fact base); it never looks at source text.

Layers (all static, all reusable by C10 / C11 / C12 / C15)
----------------------------------------------------------
 1. SITES.   `algo_sites(fb, fns=None)` -> [Site]: every call of a sort / search / adjacency algorithm whose range is
    `X.begin(), X.end()` (any of begin/cbegin/rbegin/crbegin) of ONE container X.  `Site.container` is the root of X:
    ('field', qualified field name, name) for a member container, ('var', decl id, name) for a local/parameter.
    `Site.kind` in 'sort' | 'search' | 'adjacent';  `Site.reverse` for rbegin/rend ranges;  `Site.elem_type` is the
    canonical element type (first template argument of the container type).  Ranges that are not begin()/end() of one
    container (e.g. `adjacent_find(it, v.cend())`) are attributed to the container of the end iterator and flagged
    `Site.partial`.
 2. KEYS.    `site_key(fb, site)` -> Key  or raises `UnknownShape`.  Resolution of the comparator:
       explicit comparator argument: lambda (body via the fact base), functor object `Cmp{}` (its `operator()`),
            `std::less<>` / `std::greater<>`; anything else (forwarded template parameter, function pointer) is opaque
            => UnknownShape;
       no comparator argument: the element type's ordering -- builtin `<` for scalars, lexicographic (first, second)
            for `std::pair`, member `T::operator<` or free `operator<(T, T)` found in the fact base otherwise.
    `key_of_comparator(fb, g)` turns ONE comparator body (single `return E;`) into a `Key`, a list of `Comp`:
       E = `std::tie(a1..an) < std::tie(b1..bn)` (also make_tuple / forward_as_tuple / make_pair)  -> n components
       E = `acc(L) < acc(R)` with builtin or user-defined `<` / `>`                                 -> 1 component
       E = `x1 < y1 || (x1 == y1 && REST)`  (hand-written lexicographic chain)                      -> 1 + len(REST)
    Each component is an *access path* from the element (`('field', q)`, `('call', q, canonical argument text)`,
    `('deref',)`; value casts are looked through), the direction (`desc` for `>`), and `cmp` = how the component is compared: the canonical type of
    the accessor plus the type it is compared as (so a sort on a signed field and a search on the same field cast to
    unsigned do NOT agree) or the resolved user `operator<`.  A user-defined `<` whose own body is a key comparator (a
    lambda `l < r` delegating to the element's operator<, a sub-object with a tie-based operator<) is spliced in under the
    access path, so delegation does not hide the key.  The left and right operand must use the same path,
    otherwise UnknownShape (it is not a key comparison).
    `is_prefix(search_key, sort_key)` -> None | reason.  For `adjacent` sites the predicate is an equality, use
    `site_equality_fields` (fields compared by `operator==` / std::tie ==) and `fields_subset_of_key`.
 3. ORDER.   `container_protocol(fb, cls_q, field)` -> Protocol for a member container: its sort / search / adjacency
    sites, its order-breaking mutators (`push_back emplace_back insert emplace resize assign swap operator=` on the
    member; `erase / pop_back / clear` keep a sorted range sorted and are not listed), and for each of them the set of
    methods of the same object that reach it through calls on `this` (`Protocol.reaching(kind)`).
    Decisions offered:
       `order_in_function(fn, sort_site, search_site, mutator_node_ids)`  intra-procedural: the sort dominates the search
            and no path sort -> mutator -> search exists (C10 locals, C12 `sort(); lower_bound()` in one method);
       `Protocol.phase_conflicts()`  inter-procedural, for the "prepare step" idiom (track* ; prepare ; lookup*): a
            method of the object that reaches both an order-breaking mutator and a search without sorting in between
            is reported; a method that is both inserter and sorter or sorter and searcher is decided with
            `order_in_function` when all three are in one body, otherwise reported as unknown;
       `find_phase_flag(fb, proto)` -> (field name, value after sort) | None: a bool member that the sort method
            assigns a constant AFTER the sort (the documented prepare-step flag, e.g. debug-only `m_init_phase`);
       `flag_guard(fn, node_id, field)` -> True/False/None: the value of the flag that is asserted / tested on every
            path to node_id (assert() in -UNDEBUG configurations shows up as a dominating conditional);
       `key_field_writes(fb, fields, allowed_ctors_of)`: assignments to search-key fields outside constructors (W).
 4. REPORTING helpers return plain data; the rule module owns rule names, keys and R.ok/R.bad, so that instances can
    be keyed by what the property REQUIRES (a deleted sort is a violated `#sorted-by` instance of the searched
    container, not a missing instance).

Typical use (rules/c11.py):
    proto = container_protocol(fb, 'osmium::relations::MembersDatabaseCommon', 'm_elements')
    for s in proto.searches:
        sk = site_key(fb, s)                       # UnknownShape -> R.broken
        for so in proto.sorts: why = is_prefix(sk, site_key(fb, so))
    for c in proto.phase_conflicts(): R.bad(...)
"""
from .flow import guards_of, path_search

SORT_ALGOS = {'std::sort': 2, 'std::stable_sort': 2}
SEARCH_ALGOS = {'std::lower_bound': 3, 'std::upper_bound': 3, 'std::equal_range': 3, 'std::binary_search': 3}
ADJACENT_ALGOS = {'std::adjacent_find': 2, 'std::unique': 2}
ALGOS = {}
for _d, _k in ((SORT_ALGOS, 'sort'), (SEARCH_ALGOS, 'search'), (ADJACENT_ALGOS, 'adjacent')):
    for _q, _n in _d.items():
        ALGOS[_q] = (_k, _n)

BEGIN_NAMES = {'begin': False, 'cbegin': False, 'rbegin': True, 'crbegin': True}
END_NAMES = {'end': False, 'cend': False, 'rend': True, 'crend': True}

#: member functions of sequence containers after which a previously sorted range may be unsorted
ORDER_BREAKING = ('push_back', 'emplace_back', 'push_front', 'emplace_front', 'insert', 'emplace', 'resize', 'assign', 'swap',
                  'operator=', 'append')
TUPLE_MAKERS = ('std::tie', 'std::make_tuple', 'std::forward_as_tuple', 'std::make_pair')
SCALARS = {'bool', 'char', 'signed char', 'unsigned char', 'short', 'unsigned short', 'int', 'unsigned int', 'long', 'unsigned long',
           'long long', 'unsigned long long', 'float', 'double', 'long double', 'wchar_t', 'char16_t', 'char32_t'}


class UnknownShape(Exception):
    """The construct is not one of the shapes the engine understands: the rule must report analysis-broken."""


# ---------------------------------------------------------------------------------------------------- type strings

def split_targs(t):
    """'std::pair<unsigned long, osmium::Location>' -> ('std::pair', ['unsigned long', 'osmium::Location'])."""
    i = t.find('<')
    if i < 0 or not t.rstrip().endswith('>'):
        return t, []
    head, body = t[:i], t[i + 1:t.rstrip().rfind('>')]
    out, depth, cur = [], 0, ''
    for ch in body:
        if ch in '<([':
            depth += 1
        elif ch in '>)]':
            depth -= 1
        if ch == ',' and depth == 0:
            out.append(cur.strip())
            cur = ''
        else:
            cur += ch
    if cur.strip():
        out.append(cur.strip())
    return head, out


def plain_name(t):
    """Canonical type -> plain qualified name without template arguments, cv and reference."""
    t = strip_cvref(t)
    out, depth = '', 0
    for ch in t:
        if ch == '<':
            depth += 1
        elif ch == '>':
            depth -= 1
        elif depth == 0:
            out += ch
    return out.strip()


def strip_cvref(t):
    t = t.strip()
    changed = True
    while changed:
        changed = False
        for suf in ('&&', '&'):
            if t.endswith(suf):
                t = t[:-len(suf)].strip()
                changed = True
        if t.startswith('const '):
            t = t[6:].strip()
            changed = True
        if t.endswith(' const'):
            t = t[:-6].strip()
            changed = True
    return t


def is_scalar(t):
    t = strip_cvref(t)
    return t in SCALARS or t.endswith('*') or t.startswith('enum ')


def element_type(container_type):
    """First template argument of a container type ('std::vector<T>' -> 'T'); None when there is none."""
    _h, args = split_targs(strip_cvref(container_type))
    return args[0] if args else None


# ---------------------------------------------------------------------------------------------------- keys

class Comp(object):
    """One component of an ordering key."""
    __slots__ = ('path', 'desc', 'cmp')

    def __init__(self, path, desc, cmp):
        self.path, self.desc, self.cmp = tuple(path), bool(desc), cmp

    def same(self, other):
        return self.path == other.path and self.desc == other.desc and self.cmp == other.cmp

    def text(self):
        if not self.path:
            s = '<element>'
        else:
            s = '.'.join(_step_text(p) for p in self.path)
        return s + (' desc' if self.desc else '')

    def fields(self):
        return [p[1] for p in self.path if p[0] == 'field']


def _step_text(p):
    if p[0] == 'field':
        return p[1].rsplit('::', 1)[-1]
    if p[0] == 'call':
        return '%s(%s)' % (p[1].rsplit('::', 1)[-1], p[2])
    return '*'


class Key(object):
    def __init__(self, comps, origin, site=None):
        self.comps, self.origin, self.site = list(comps), origin, site

    def text(self):
        return '(' + ', '.join(c.text() for c in self.comps) + ')'

    def reversed(self):
        return Key([Comp(c.path, not c.desc, c.cmp) for c in self.comps], self.origin + ' [reversed range]', self.site)

    def fields(self):
        out = []
        for c in self.comps:
            out.extend(c.fields())
        return out


def is_prefix(search_key, sort_key):
    """None when `search_key` is a prefix of `sort_key`; otherwise the reason as text."""
    if len(search_key.comps) > len(sort_key.comps):
        return 'search key %s has more components than sort key %s' % (search_key.text(), sort_key.text())
    for i, (a, b) in enumerate(zip(search_key.comps, sort_key.comps)):
        if a.path != b.path:
            return 'component %d: searched by %s but sorted by %s (search key %s from %s, sort key %s from %s)' % (
                i + 1, a.text(), b.text(), search_key.text(), search_key.origin, sort_key.text(), sort_key.origin)
        if a.desc != b.desc:
            return 'component %d (%s): search and sort use opposite directions' % (i + 1, a.text())
        if a.cmp != b.cmp:
            return 'component %d (%s): compared as %s by the search but as %s by the sort' % (i + 1, a.text(), a.cmp, b.cmp)
    return None


def _access_path(g, nid):
    """(root, steps) of an accessor expression: root is ('this',) / ('var', decl id) / None."""
    steps = []
    hops = 0
    while nid is not None and nid in g.nodes and hops < 60:
        hops += 1
        n = g.nodes[nid]
        k = n.get('k')
        if k in ('wrap', 'icast', 'cast'):      # conversions are recorded by _operand_type as the compared-as type
            nid = n.get('sub')
        elif k == 'construct' and (n.get('elidable') or n.get('copymove')) and len(n.get('args', [])) == 1:
            nid = n['args'][0]
        elif k == 'member' and n.get('field'):
            steps.append(('field', n['q']))
            nid = n['base']
        elif k == 'call' and n.get('op') in ('->', '*') and n.get('recv') is not None and not n.get('args'):
            steps.append(('deref',))
            nid = n['recv']
        elif k == 'call' and n.get('op') in ('->', '*') and n.get('recv') is None and len(n.get('args', [])) == 1:
            steps.append(('deref',))
            nid = n['args'][0]
        elif k == 'call' and n.get('recv') is not None and 'q' in n and 'op' not in n:
            steps.append(('call', n['q'], ', '.join(g.expr(a) for a in n.get('args', []) if a is not None)))
            nid = n['recv']
        elif k == 'unop' and n.get('op') == '*':
            steps.append(('deref',))
            nid = n['sub']
        elif k == 'var' and n.get('vk') in ('local', 'param'):
            return ('var', n['d']), tuple(reversed(steps))
        elif k == 'this':
            return ('this',), tuple(reversed(steps))
        else:
            return None, tuple(reversed(steps))
    return None, tuple(reversed(steps))


def _operand_type(g, nid):
    """(type of the accessor, type it is compared as): conversions between the accessor and the comparison (implicit or
    explicit casts) change the second component only."""
    outer = g.nodes.get(nid, {}).get('t', '?')
    x, hops = nid, 0
    while x is not None and x in g.nodes and g.nodes[x].get('k') in ('wrap', 'icast', 'cast') and 'sub' in g.nodes[x] and hops < 20:
        x = g.nodes[x]['sub']
        hops += 1
    it = g.nodes.get(x, {}).get('t', '?') if x is not None else '?'
    return strip_cvref(it), strip_cvref(outer)


def _binary_operands(g, n):
    """Operands of a comparison node: builtin binop, member operator (recv, arg) or free operator (arg, arg)."""
    if n.get('k') == 'binop':
        return n['op'], n['lhs'], n['rhs'], 'builtin'
    if n.get('k') == 'call' and 'op' in n:
        args = [a for a in n.get('args', []) if a is not None]
        if n.get('recv') is not None and len(args) == 1:
            return n['op'], n['recv'], args[0], n.get('q', '?')
        if n.get('recv') is None and len(args) == 2:
            return n['op'], args[0], args[1], n.get('q', '?')
    return None


def _comps_of_comparison(fb, g, nid, L, R, depth=0):
    n = g.sn(nid)
    if n is None:
        raise UnknownShape('empty comparator expression')
    ops = _binary_operands(g, n)
    if ops is None:
        raise UnknownShape('comparator returns %s, which is not a comparison' % g.expr(nid)[:80])
    op, a, b, how = ops
    if op == '||':
        # x < y || (x == y && REST)
        first = _comps_of_comparison(fb, g, a, L, R, depth)
        rn = g.sn(b)
        ro = _binary_operands(g, rn) if rn is not None else None
        if ro is None or ro[0] != '&&':
            raise UnknownShape('lexicographic chain expected `a < b || (a == b && ...)`, found %s' % g.expr(nid)[:80])
        eqn = g.sn(ro[1])
        eo = _binary_operands(g, eqn) if eqn is not None else None
        if eo is None or eo[0] != '==' or len(first) != 1:
            raise UnknownShape('lexicographic chain: tie-break guard is not an equality: %s' % g.expr(ro[1])[:80])
        ra, pa = _access_path(g, eo[1])
        rb, pb = _access_path(g, eo[2])
        if pa != pb or pa != first[0].path or {ra, rb} != {L, R}:
            raise UnknownShape('lexicographic chain: equality guard compares a different accessor than the ordering test')
        return first + _comps_of_comparison(fb, g, ro[2], L, R, depth)
    if op not in ('<', '>'):
        raise UnknownShape('comparator uses operator %s (only strict < / > orderings are keys)' % op)
    an, bn = g.sn(a), g.sn(b)
    if an is not None and bn is not None and an.get('k') == 'call' and bn.get('k') == 'call' and an.get('q') in TUPLE_MAKERS \
            and bn.get('q') == an.get('q'):
        xs = [x for x in an.get('args', []) if x is not None]
        ys = [y for y in bn.get('args', []) if y is not None]
        if len(xs) != len(ys) or not xs:
            raise UnknownShape('tuple comparison with different arities')
        out = []
        for x, y in zip(xs, ys):
            out.extend(_one_comp(fb, g, x, y, L, R, op == '>', 'tuple', None, depth))
        return out
    return _one_comp(fb, g, a, b, L, R, op == '>', how, n.get('u'), depth)


def _one_comp(fb, g, a, b, L, R, desc, how, usr=None, depth=0):
    ra, pa = _access_path(g, a)
    rb, pb = _access_path(g, b)
    if ra is None or rb is None:
        raise UnknownShape('comparison operand is not an accessor of a comparator argument: %s vs %s' % (g.expr(a)[:50], g.expr(b)[:50]))
    if pa != pb:
        raise UnknownShape('left and right operand use different accessors: %s vs %s' % (g.expr(a)[:50], g.expr(b)[:50]))
    if (ra, rb) == (R, L):
        desc = not desc
    elif (ra, rb) != (L, R):
        raise UnknownShape('comparison does not relate the two comparator arguments: %s vs %s' % (g.expr(a)[:50], g.expr(b)[:50]))
    ta, ca = _operand_type(g, a)
    tb, cb = _operand_type(g, b)
    if how in ('builtin', 'tuple'):
        cmp = 'builtin %s as %s' % (ta, ca if how == 'builtin' else ta)
        if (ta, ca) != (tb, cb) and how == 'builtin':
            cmp = 'builtin %s as %s / %s as %s' % (ta, ca, tb, cb)
    else:
        # user-defined operator: when its body is a key comparator itself (e.g. a lambda `l < r` delegating to the element's
        # operator<, or a sub-object with a tie-based operator<), splice its components in under this access path
        if fb is not None and usr and depth < 4:
            for h in fb.by_usr.get(usr, []):
                if not h.has_cfg:
                    continue
                try:
                    sub = key_of_comparator(fb, h, depth + 1)
                except UnknownShape:
                    break
                return [Comp(pa + c.path, c.desc != desc, c.cmp) for c in sub.comps]
        cmp = '%s on %s' % (how, ta)
    return [Comp(pa, desc, cmp)]


def comparator_operands(g):
    """(L, R) roots of the two values a comparator body relates."""
    ps = g.params
    if g.cls and not g.is_lambda and g.name.startswith('operator') and g.name != 'operator()' and len(ps) == 1 and not g.static:
        return ('this',), ('var', ps[0]['d'])
    if len(ps) == 2:
        return ('var', ps[0]['d']), ('var', ps[1]['d'])
    raise UnknownShape('%s does not take two operands' % g.q)


def key_of_comparator(fb, g, depth=0):
    """Key of one comparator body (operator<, functor operator(), lambda): exactly one `return <comparison>;`."""
    L, R = comparator_operands(g)
    rets = [n for n in g.all_nodes() if n.get('k') == 'return']
    if len(rets) != 1 or 'sub' not in rets[0]:
        raise UnknownShape('%s has %d return statements (a key comparator is a single return expression)' % (g.q, len(rets)))
    return Key(_comps_of_comparison(fb, g, rets[0]['sub'], L, R, depth), g.q, g.site)


def default_key(fb, t):
    """Key of the natural ordering `operator<` of element type t."""
    t = strip_cvref(t)
    if is_scalar(t):
        return Key([Comp((), False, 'builtin %s as %s' % (t, t))], 'builtin < on %s' % t)
    head, args = split_targs(t)
    if head == 'std::pair' and len(args) == 2:
        return Key([Comp((('field', 'std::pair::first'),), False, 'builtin %s as %s' % (args[0], args[0]) if is_scalar(args[0]) else 'operator< on %s' % args[0]),
                    Comp((('field', 'std::pair::second'),), False, 'builtin %s as %s' % (args[1], args[1]) if is_scalar(args[1]) else 'operator< on %s' % args[1])],
                   'std::pair lexicographic operator<')
    plain = plain_name(t)
    cands = [f for f in fb.fns(plain + '::operator<') if len(f.params) == 1 and f.has_cfg]
    if not cands:
        for f in fb.functions:
            if f.name == 'operator<' and not f.cls and len(f.params) == 2 and f.has_cfg and \
                    all(plain_name(p['tC']) == plain for p in f.params):
                cands.append(f)
    # prefer the body belonging to exactly this instantiation
    exact = [f for f in cands if f.clsT and strip_cvref(f.clsT) == t]
    cands = exact or cands
    if not cands:
        raise UnknownShape('no operator< for element type %s in the fact base' % t)
    keys = [key_of_comparator(fb, f) for f in cands]
    k0 = keys[0]
    for k in keys[1:]:
        if [c.path for c in k.comps] != [c.path for c in k0.comps] or [c.desc for c in k.comps] != [c.desc for c in k0.comps]:
            raise UnknownShape('instantiations of %s::operator< disagree on the key' % plain)
    return k0


def resolve_callable(fb, fn, nid):
    """Comparator argument -> ('fn', Fn) | ('less',) | ('greater',) ; raises UnknownShape when opaque."""
    for x in fn.subtree(nid):
        n = fn.nodes[x]
        if n.get('k') == 'lambda':
            g = fb.lambda_fn(fn, n)
            if g is None or not g.has_cfg:
                raise UnknownShape('lambda body not in the fact base')
            return ('fn', g)
    n = fn.sn(nid)
    t = strip_cvref((n or {}).get('t', ''))
    if not t:
        raise UnknownShape('comparator argument has no type')
    head, _a = split_targs(t)
    if head == 'std::less':
        return ('less',)
    if head == 'std::greater':
        return ('greater',)
    plain = plain_name(t)
    cands = [f for f in fb.fns(plain + '::operator()') if len(f.params) == 2 and f.has_cfg]
    if cands:
        return ('fn', cands[0])
    raise UnknownShape('comparator of type %s is opaque (no operator() body with two parameters in the fact base)' % t)


# ---------------------------------------------------------------------------------------------------- sites

class Site(object):
    """One call of a sort / search / adjacency algorithm."""

    def __init__(self, fn, node, algo, kind, container, reverse, partial, extra):
        self.fn, self.node, self.algo, self.kind = fn, node, algo, kind
        self.container, self.reverse, self.partial = container, reverse, partial
        self.extra = extra            # arguments after the fixed ones (comparator / predicate), node ids
        self.elem_type = None

    @property
    def loc(self):
        return self.fn.loc(self.node['id'])

    @property
    def container_name(self):
        c = self.container
        if c is None:
            return '?'
        return c[1] if c[0] == 'field' else '%s::%s' % (self.fn.q, c[2])

    def label(self):
        return '%s(%s)' % (self.algo.rsplit('::', 1)[-1], (self.container or ('', '', '?'))[2])

    def __repr__(self):
        return '<Site %s %s in %s>' % (self.kind, self.label(), self.fn.q)


def _range_end(fn, nid, names):
    """If nid is `X.begin()`-like: (root of X, reversed?) else None."""
    n = fn.sn(nid)
    if n is None or n.get('k') != 'call' or n.get('recv') is None or 'q' not in n:
        return None
    nm = n['q'].rsplit('::', 1)[-1]
    if nm not in names or n.get('args'):
        return None
    root = fn.root_var(n['recv'])
    if root is None or root[0] == 'this':
        return None
    return root, names[nm], n['recv']


def _container_type(fb, fn, root, recv):
    if recv is not None:
        r = fn.sn(recv)
        if r is not None and r.get('t'):
            return r['t']
    return None


def algo_sites(fb, fns=None):
    """Every sort/search/adjacency algorithm call in `fns` (default: all functions of the fact base)."""
    out = []
    for fn in (fns if fns is not None else fb.functions):
        if not fn.has_cfg:
            continue
        for n in fn.all_nodes():
            if n.get('k') != 'call' or n.get('q') not in ALGOS:
                continue
            kind, nfixed = ALGOS[n['q']]
            args = [a for a in n.get('args', []) if a is not None]
            if len(args) < nfixed:
                continue
            b = _range_end(fn, args[0], BEGIN_NAMES)
            e = _range_end(fn, args[1], END_NAMES)
            partial = False
            if b is not None and e is not None and b[0] == e[0] and b[1] == e[1]:
                root, rev, recv = b
            elif e is not None:
                root, rev, recv = e
                partial = True
            elif b is not None:
                root, rev, recv = b
                partial = True
            else:
                root, rev, recv = None, False, None
                partial = True
            s = Site(fn, n, n['q'], kind, root, rev, partial, args[nfixed:])
            ct = _container_type(fb, fn, root, recv)
            s.elem_type = element_type(ct) if ct else None
            out.append(s)
    return out


def site_key(fb, site):
    """Ordering key used by a sort or search site (element type's operator< when no comparator is passed)."""
    if site.kind == 'adjacent':
        raise UnknownShape('adjacency sites use an equality predicate; see site_equality_fields')
    if site.extra:
        r = resolve_callable(fb, site.fn, site.extra[0])
        if r[0] == 'fn':
            k = key_of_comparator(fb, r[1])
        else:
            if site.elem_type is None:
                raise UnknownShape('element type of %s unknown' % site.container_name)
            k = default_key(fb, site.elem_type)
            if r[0] == 'greater':
                k = k.reversed()
    else:
        if site.elem_type is None:
            raise UnknownShape('element type of %s unknown' % site.container_name)
        k = default_key(fb, site.elem_type)
    if site.reverse:
        k = k.reversed()
    return k


def site_equality_fields(fb, site):
    """Fields compared by the equality used at an adjacency site (`operator==` of the element type or the predicate):
    list of access paths, or raises UnknownShape.  Scalars -> [()]; std::pair -> first, second."""
    if site.extra:
        r = resolve_callable(fb, site.fn, site.extra[0])
        if r[0] != 'fn':
            raise UnknownShape('adjacency predicate is not an equality functor')
        g = r[1]
    else:
        t = strip_cvref(site.elem_type or '')
        if not t:
            raise UnknownShape('element type of %s unknown' % site.container_name)
        if is_scalar(t):
            return [()]
        head, args = split_targs(t)
        if head == 'std::pair':
            return [(('field', 'std::pair::first'),), (('field', 'std::pair::second'),)]
        plain = plain_name(t)
        cands = [f for f in fb.fns(plain + '::operator==') if len(f.params) == 1 and f.has_cfg]
        if not cands:
            cands = [f for f in fb.functions if f.name == 'operator==' and not f.cls and len(f.params) == 2 and f.has_cfg
                     and all(plain_name(p['tC']) == plain for p in f.params)]
        if not cands:
            raise UnknownShape('no operator== for %s in the fact base' % t)
        g = cands[0]
    L, R = comparator_operands(g)
    rets = [n for n in g.all_nodes() if n.get('k') == 'return' and 'sub' in n]
    if len(rets) != 1:
        raise UnknownShape('%s is not a single return expression' % g.q)
    return _eq_paths(g, rets[0]['sub'], L, R)


def _eq_paths(g, nid, L, R):
    n = g.sn(nid)
    ops = _binary_operands(g, n) if n is not None else None
    if ops is None:
        raise UnknownShape('equality predicate returns %s' % g.expr(nid)[:80])
    op, a, b, _how = ops
    if op == '&&':
        return _eq_paths(g, a, L, R) + _eq_paths(g, b, L, R)
    if op != '==':
        raise UnknownShape('equality predicate uses operator %s' % op)
    an, bn = g.sn(a), g.sn(b)
    if an is not None and bn is not None and an.get('k') == 'call' and an.get('q') in TUPLE_MAKERS and bn.get('q') == an.get('q'):
        out = []
        for x, y in zip(an.get('args', []), bn.get('args', [])):
            out.extend(_eq_pair(g, x, y, L, R))
        return out
    return _eq_pair(g, a, b, L, R)


def _eq_pair(g, a, b, L, R):
    ra, pa = _access_path(g, a)
    rb, pb = _access_path(g, b)
    if pa != pb or {ra, rb} != {L, R}:
        raise UnknownShape('equality operands are not the same accessor of both arguments: %s == %s' % (g.expr(a)[:40], g.expr(b)[:40]))
    return [pa]


def fields_subset_of_key(paths, key):
    """Adjacent-equal elements are found by a scan only if equality looks at nothing the sort did not order by.
    Returns the access paths compared for equality that are not key components (empty list = fine)."""
    kp = {c.path for c in key.comps}
    return [p for p in paths if p not in kp]


# ---------------------------------------------------------------------------------------------------- order / phases

def order_in_function(fn, sort_node, search_node, mutator_nodes=()):
    """Intra-procedural (O): None when the sort element dominates the search element and no order-breaking mutator can
    execute between them; otherwise the reason."""
    if not fn.elem_dominates(sort_node['id'], search_node['id']):
        return 'the sort at %s does not dominate the search at %s' % (fn.loc(sort_node['id']), fn.loc(search_node['id']))
    muts = {m['id'] for m in mutator_nodes}
    pos = fn.positions()
    mut_elems = {e for e in pos if any(m in fn.subtree(e) for m in muts)} if muts else set()
    for m in mut_elems:
        if m not in {e for b in fn.blocks.values() for e in b['elems']}:
            continue
        # sort ... m ... search, without another sort in between
        w1 = path_search(fn, sort_node['id'], lambda e: e == m, lambda e: False)
        if w1 is None:
            continue
        w2 = path_search(fn, m, lambda e, s=search_node['id']: e == s or (not isinstance(e, tuple) and s in fn.subtree(e)),
                         lambda e, s=sort_node['id']: not isinstance(e, tuple) and s in fn.subtree(e))
        if w2 is not None:
            return 'the container is modified at %s between the sort and the search' % fn.loc(m)
    return None


def _is_this(fn, nid):
    r = fn.sn(nid)
    hops = 0
    while r is not None and r.get('k') == 'cast' and hops < 4:      # derived-to-base adjustments are icasts; be lenient
        r = fn.sn(r.get('sub'))
        hops += 1
    return r is not None and r.get('k') == 'this'


class Protocol(object):
    """Sort / search / mutate sites of one member container and the methods of the same object that reach them."""

    def __init__(self, fb, cls_q, field):
        self.fb, self.cls_q, self.field = fb, cls_q, field
        self.field_q = cls_q + '::' + field
        self.sorts, self.searches, self.adjacents = [], [], []
        self.mutators = []          # (fn, call node, method name)
        self._reach = {}

    # -- call graph restricted to calls on `this` (same object)
    def _callers_on_this(self, targets):
        """{usr: (Fn, via usr)} of functions that call one of `targets` (usr set) on their own object, transitively."""
        fb = self.fb
        known = {u: (None, None) for u in targets}
        changed = True
        while changed:
            changed = False
            for f in fb.functions:
                if not f.has_cfg or f.usr in known and known[f.usr][0] is not None:
                    continue
                if f.usr in targets:
                    continue
                for n in f.all_nodes():
                    if n.get('k') != 'call' or n.get('u') not in known:
                        continue
                    recv = n.get('recv')
                    on_this = recv is not None and _is_this(f, recv)
                    if f.is_lambda and recv is not None:
                        # [this]-capturing lambda: `this` of the lambda body is the captured object
                        on_this = on_this or _is_this(f, recv)
                    if not on_this:
                        continue
                    known[f.usr] = (f, n['u'])
                    changed = True
                    break
        return {u: v for u, v in known.items() if v[0] is not None}

    def reaching(self, kind):
        """{fn.q: [Fn]} methods that contain (directly) or reach through calls on `this` a site of `kind`
        ('sort' | 'search' | 'adjacent' | 'mutate')."""
        if kind in self._reach:
            return self._reach[kind]
        if kind == 'mutate':
            direct = [m[0] for m in self.mutators]
        else:
            direct = [s.fn for s in {'sort': self.sorts, 'search': self.searches, 'adjacent': self.adjacents}[kind]]
        out = {}
        for f in direct:
            out.setdefault(f.q, []).append(f)
        callers = self._callers_on_this({f.usr for f in direct})
        for _u, (f, _via) in callers.items():
            if f.is_lambda:
                continue
            out.setdefault(f.q, []).append(f)
        self._reach[kind] = out
        return out

    def phase_conflicts(self):
        """[(fn.q, Fn, text)] methods that may search the container while it is not known to be sorted: a method of the
        object that reaches both an order-breaking mutator and a search (and does not re-sort in between)."""
        ins, srch, srt = self.reaching('mutate'), self.reaching('search'), self.reaching('sort')
        out = []
        for q in sorted(set(ins) & set(srch)):
            f = ins[q][0]
            direct_sort = [s for s in self.sorts if s.fn.q == q]
            direct_search = [s for s in self.searches if s.fn.q == q]
            direct_mut = [m for m in self.mutators if m[0].q == q]
            if direct_sort and direct_search and direct_mut:
                bad = None
                for se in direct_search:
                    whys = [order_in_function(se.fn, so.node, se.node, [m[1] for m in direct_mut if m[0] is se.fn])
                            for so in direct_sort if so.fn is se.fn]
                    if not whys or all(w is not None for w in whys):
                        bad = (whys or ['no sort in the same body'])[0]
                if bad is None:
                    continue
                out.append((q, f, bad))
            else:
                out.append((q, f, '%s both inserts into %s (order-breaking) and binary-searches it%s' % (
                    q, self.field, '' if q not in srt else ' (it also sorts, but not all three in one body: order unknown)')))
        return out


def container_protocol(fb, cls_q, field):
    """Protocol of member container `cls_q::field` (all instantiations of the class merged by plain name)."""
    p = Protocol(fb, cls_q, field)
    fq = p.field_q
    for s in algo_sites(fb):
        if s.container is not None and s.container[0] == 'field' and s.container[1] == fq:
            {'sort': p.sorts, 'search': p.searches, 'adjacent': p.adjacents}[s.kind].append(s)
    for fn in fb.functions:
        if not fn.has_cfg or fn.kind in ('ctor', 'dtor'):
            continue
        for n in fn.all_nodes():
            if n.get('k') != 'call' or n.get('recv') is None or 'q' not in n:
                continue
            nm = n['q'].rsplit('::', 1)[-1]
            if nm not in ORDER_BREAKING:
                continue
            r = fn.sn(n['recv'])
            if r is not None and r.get('k') == 'member' and r.get('field') and r.get('q') == fq:
                p.mutators.append((fn, n, nm))
    return p


def find_phase_flag(fb, proto):
    """(field name, value the flag has once the container is sorted) for a bool member that a sorting method assigns a
    constant after the sort; None when there is no such member (e.g. the flag is compiled out under NDEBUG)."""
    for s in proto.sorts:
        fn = s.fn
        for n in fn.all_nodes():
            if n.get('k') != 'assign' or n.get('op') != '=':
                continue
            l = fn.sn(n['lhs'])
            if l is None or l.get('k') != 'member' or not l.get('field') or not fn.is_this_member(n['lhs']):
                continue
            if strip_cvref(l.get('t', '')) != 'bool':
                continue
            v = fn.const_value(n['rhs'])
            if v is None:
                continue
            if fn.elem_dominates(s.node['id'], n['id']):
                return l['name'], bool(v)
    return None


def _flag_atoms(fn, cond, sense, field, out):
    n = fn.sn(cond)
    hops = 0
    while n is not None and n.get('k') == 'cast' and strip_cvref(n.get('toC', n.get('t', ''))) == 'bool' and hops < 4:
        n = fn.sn(n['sub'])
        hops += 1
    if n is None:
        return
    if n.get('k') == 'binop' and ((n['op'] == '&&' and sense) or (n['op'] == '||' and not sense)):
        _flag_atoms(fn, n['lhs'], sense, field, out)
        _flag_atoms(fn, n['rhs'], sense, field, out)
    elif n.get('k') == 'unop' and n['op'] == '!':
        _flag_atoms(fn, n['sub'], not sense, field, out)
    elif n.get('k') == 'member' and n.get('field') and n['name'] == field and fn.is_this_member(n['id']):
        out.append(sense)


def flag_guard(fn, nid, field):
    """Value of bool member `field` that is established by a dominating test/assert on every path to node nid:
    True / False, or None when no dominating condition mentions the flag."""
    vals = []
    for (c, sense, _b) in guards_of(fn, nid):
        _flag_atoms(fn, c, sense, field, vals)
    if not vals:
        return None
    if all(v is True for v in vals):
        return True
    if all(v is False for v in vals):
        return False
    return None


def flag_writes(fb, cls_q, field):
    """[(Fn, assign node, constant value|None)] every assignment to this->field outside constructors."""
    out = []
    fq = cls_q + '::' + field
    for fn in fb.functions:
        if not fn.has_cfg or fn.kind == 'ctor':
            continue
        for n in fn.all_nodes():
            if n.get('k') == 'assign':
                l = fn.sn(n['lhs'])
                if l is not None and l.get('k') == 'member' and l.get('field') and l.get('q') == fq:
                    out.append((fn, n, fn.const_value(n['rhs'])))
    return out


def key_field_writes(fb, field_qnames):
    """(W) [(Fn, node)] writes (assignment, compound assignment, ++/--) to one of the element fields `field_qnames`
    anywhere outside constructors.  A sorted container stays searchable only while the search-key fields of its
    elements are never written after construction."""
    fq = set(field_qnames)
    out = []
    for fn in fb.functions:
        if not fn.has_cfg or fn.kind == 'ctor':
            continue
        for n in fn.all_nodes():
            k = n.get('k')
            tgt = None
            if k == 'assign':
                tgt = n['lhs']
            elif k == 'unop' and n.get('op') in ('++', '--'):
                tgt = n['sub']
            elif k == 'call' and n.get('op') in ('=', '+=', '-=', '*=', '/=', '|=', '&=', '^=', '<<=', '>>=') and n.get('recv') is not None:
                tgt = n['recv']
            if tgt is None:
                continue
            l = fn.sn(tgt)
            if l is not None and l.get('k') == 'member' and l.get('field') and l.get('q') in fq:
                out.append((fn, n))
    return out


def ctor_field_sources(fb, ctor):
    """{field qname: ('param', index) | ('const', value) | ('other', text)} from the member initialisers of a ctor."""
    out = {}
    pidx = {p['d']: i for i, p in enumerate(ctor.params)}
    for n in ctor.all_nodes():
        if n.get('k') != 'init' or 'q' not in n or n.get('init') is None:
            continue
        s = ctor.sn(n['init'])
        src = ('other', ctor.expr(n['init'])[:60])
        if s is not None and s.get('k') == 'var' and s.get('d') in pidx:
            src = ('param', pidx[s['d']])
        elif s is not None and s.get('k') == 'call' and s.get('q') in ('std::move', 'std::forward') and s.get('args'):
            a = ctor.sn(s['args'][0])
            if a is not None and a.get('k') == 'var' and a.get('d') in pidx:
                src = ('param', pidx[a['d']])
        else:
            v = ctor.const_value(n['init'])
            if v is not None:
                src = ('const', v)
        out[n['q']] = src
    return out


__all__ = ['UnknownShape', 'Comp', 'Key', 'Site', 'Protocol', 'algo_sites', 'site_key', 'key_of_comparator', 'default_key',
           'is_prefix', 'site_equality_fields', 'fields_subset_of_key', 'order_in_function', 'container_protocol',
           'find_phase_flag', 'flag_guard', 'flag_writes', 'key_field_writes', 'ctor_field_sources', 'resolve_callable',
           'element_type', 'plain_name', 'strip_cvref', 'split_targs', 'is_scalar']
