"""C06 helper: an *inlined view* of the fact base.

The C06 rules are path rules over one function body (pop a piece -> keep it; relocate the string -> re-derive the window;
leave the piece loop only at end of input; ...).  A behaviour-preserving "extract method" moves a fragment of such a body
into a private helper (append_next_piece(), repoint(), drop_consumed(), flush_rest(worker, rest), throw_truncated(), ...).
Instead of teaching every rule about helpers, the helper's CFG is spliced into its caller(s) here, exactly as a compiler would
inline it, and the rules run on the result:

  * which helpers: functions with a body that are *fragments* of the protocol the rules look at (they pop / test end of
    input / mutate a std::string member or a std::string& parameter / assign a pointer member / only throw, or call such a
    helper), that are non-public non-virtual methods of the caller's class or free functions of the caller's file, and that
    either have a single calling function or take no value parameters (only references to strings / objects); a free function
    is only spliced into free functions (line_by_line() stays an anchor of its own).  Methods with
    value parameters and several callers (ensure(n), pop(n), ensure_bytes_available(n)) are the method-level anchors of the
    rules and stay calls.
  * how: the caller's block is split at the call; the callee's blocks and nodes are copied with fresh ids; parameters are
    replaced by the argument expressions; `return` edges go to the continuation; when the call is the branch condition of the
    continuation block, `return true` / `return false` are threaded directly to the matching successor (so "helper returned
    false because input_done()" is seen as the end-of-input edge it is); throwing paths go to the caller's exit.
  * helpers all of whose call sites were inlined are not analysed on their own any more.

Nothing here decides anything; it only re-shapes facts.
"""
import copy

from .facts import Fn, _CHILD_KEYS, _CHILD_LIST_KEYS

STR = 'std::basic_string::'
RELEVANT_CALLS = {
    'osmium::io::detail::Parser::get_input', 'osmium::io::detail::Parser::input_done', 'osmium::io::Decompressor::read',
    'osmium::io::detail::at_end_of_data', 'osmium::io::detail::add_to_queue',
    'osmium::io::detail::reliable_read', 'read', '_read', 'pread', 'pread64', 'recv',
}
STRING_MUTATORS = {'operator=', 'assign', 'append', 'operator+=', 'push_back', 'insert', 'replace', 'erase', 'clear', 'resize',
                   'swap', 'pop_back'}
MAX_DEPTH = 4
SCOPE = ('/io/detail/', 'compression.hpp', '/selftest/positive/')   # files whose helpers are considered


class InFn(Fn):
    """A function body with helpers spliced in.  `chain` maps a copied node to the call node it was inlined at."""

    def in_range(self, nid, b, e):
        x = nid
        hops = 0
        while x is not None and hops < 16:
            n = self.nodes.get(x)
            if n and 'o' in n and b <= n['o'] <= e:
                return True
            x = self.chain.get(x)
            hops += 1
        return False

    def _offsets(self, nid):
        out = []
        x = nid
        hops = 0
        while x is not None and hops < 16:
            n = self.nodes.get(x)
            if n and 'o' in n:
                out.append(n['o'])
            x = self.chain.get(x)
            hops += 1
        return out

    def enclosing_tries(self, nid):
        offs = self._offsets(nid)
        return [t for t in self.tries if any(t['b'] <= o <= t['e'] for o in offs)]

    def enclosing_handlers(self, nid):
        offs = self._offsets(nid)
        out = []
        for t in self.tries:
            for h in t['handlers']:
                if any(h['b'] <= o <= h['e'] for o in offs):
                    out.append((t, h))
        return out


def _clone(fn):
    g = object.__new__(InFn)
    g.__dict__.update(fn.__dict__)
    g.nodes = dict(fn.nodes)
    g.blocks = {k: dict(v, elems=list(v['elems']), succs=list(v['succs'])) for k, v in fn.blocks.items()}
    g.loops = list(fn.loops)
    g.tries = list(fn.tries)
    g.chain = dict(getattr(fn, 'chain', {}))
    g.inlined = list(getattr(fn, 'inlined', []))
    _reset(g)
    return g


def _reset(g):
    g._pos = g._preds = g._parent = g._dom = g._pdom = None
    for a in ('_rpo_cache',):
        if a in g.__dict__:
            del g.__dict__[a]


def _always_throws(fn):
    """no normal path from entry to exit"""
    seen = {fn.entry}
    work = [fn.entry]
    while work:
        b = work.pop()
        blk = fn.blocks[b]
        if blk.get('noreturn') or any(fn.nodes[e].get('k') == 'throw' for e in blk['elems']):
            continue
        if b == fn.exit:
            return False
        for s in blk['succs']:
            if s is not None and s not in seen:
                seen.add(s)
                work.append(s)
    return True


def _directly_relevant(fn):
    params = {p['d']: p for p in fn.params}
    for n in fn.all_nodes():
        k = n.get('k')
        if k == 'call':
            q = n.get('q', '')
            if q in RELEVANT_CALLS or q.startswith('osmium::io::detail::add_to_queue'):
                return True
            if q.startswith(STR) and q.rsplit('::', 1)[-1] in STRING_MUTATORS and n.get('recv') is not None:
                r = fn.root_var(n['recv'])
                if r is not None and r[0] == 'field':
                    return True
                if r is not None and r[0] == 'var' and r[1] in params and params[r[1]]['tC'].rstrip().endswith('&'):
                    return True
        elif k == 'assign' and n.get('op') == '=':
            l = fn.sn(n['lhs'])
            if l is not None and l.get('k') == 'member' and l.get('field') and fn.is_this_member(n['lhs']) and l.get('t', '').rstrip().endswith('*'):
                return True
    return _always_throws(fn)


def _ref_only_params(fn):
    return all(p['tC'].rstrip().endswith('&') for p in fn.params)


def plan(fb):
    """{callee usr: Fn} of helpers to splice into their callers, and the set of those that need no analysis of their own."""
    callers = {}   # callee usr -> set of caller ids (id(Fn))
    sites_ok = {}  # callee usr -> all call sites are inlinable (caller is a plain function of the same class / file)
    by_usr = {}
    for f in fb.functions:
        if f.has_cfg:
            by_usr.setdefault(f.usr, f)
    for f in fb.functions:
        if not f.has_cfg:
            continue
        for n in f.all_nodes():
            if n.get('k') == 'call' and n.get('u') in by_usr:
                g = by_usr[n['u']]
                callers.setdefault(g.usr, set()).add(f.usr)
                ok = (not f.is_lambda) and f.usr != g.usr and _receiver_is_this(f, n, g) and \
                    ((g.cls is not None and g.cls == f.cls) or (g.cls is None and f.cls is None and g.file == f.file))
                sites_ok[g.usr] = sites_ok.get(g.usr, True) and ok
            elif n.get('k') == 'var' and n.get('vk') == 'function' and n.get('u') in by_usr:
                # a function named without being called (thread entry, callback registration): its body is not a fragment of
                # the caller.  The callee expression of a resolved call is a free-standing CFG element (no parent); a function
                # whose address is taken is an operand of something.
                pm = f.parent_map()
                p = pm.get(n['id'])
                while p is not None and f.nodes[p].get('k') in ('icast', 'wrap'):
                    p = pm.get(p)
                if p is not None:
                    sites_ok[n['u']] = False
    cand = {}
    for u, g in by_usr.items():
        if not any(t in g.file for t in SCOPE):
            continue
        if u not in callers or g.is_lambda or g.virtual or g.kind not in ('method', 'function') or g.overrides:
            continue
        if g.cls is not None and g.access == 'public':
            continue
        if not sites_ok.get(u, False):
            continue
        if len(callers[u]) > 1 and not _ref_only_params(g):
            continue
        cand[u] = g
    rel = {u for u, g in cand.items() if _directly_relevant(g)}
    changed = True
    while changed:
        changed = False
        for u, g in cand.items():
            if u in rel:
                continue
            if any(n.get('k') == 'call' and n.get('u') in rel for n in g.all_nodes()):
                rel.add(u)
                changed = True
    # no recursion among the chosen helpers
    chosen = {u: cand[u] for u in rel}
    for u in list(chosen):
        seen, work = set(), [u]
        rec = False
        while work:
            x = work.pop()
            for n in chosen[x].all_nodes() if x in chosen else ():
                v = n.get('u') if n.get('k') == 'call' else None
                if v == u:
                    rec = True
                if v in chosen and v not in seen:
                    seen.add(v)
                    work.append(v)
        if rec:
            del chosen[u]
    return chosen


def _receiver_is_this(f, n, g):
    if g.cls is None or g.static:
        return True
    if n.get('recv') is None:
        return True
    r = f.sn(n['recv'])
    return r is not None and r.get('k') == 'this'


def _remap_node(n, m):
    out = dict(n)
    for k in _CHILD_KEYS:
        v = out.get(k)
        if isinstance(v, int) and not isinstance(v, bool) and v in m:
            out[k] = m[v]
    for k in _CHILD_LIST_KEYS:
        if k in out:
            out[k] = [m.get(v, v) if isinstance(v, int) else v for v in out[k]]
    if out.get('k') == 'decl':
        vs = []
        for v in out['vars']:
            v = dict(v)
            if isinstance(v.get('init'), int):
                v['init'] = m.get(v['init'], v['init'])
            vs.append(v)
        out['vars'] = vs
    if out.get('k') == 'lambda' and 'captures' in out:
        cs = []
        for c in out['captures']:
            c = dict(c)
            if isinstance(c.get('init'), int):
                c['init'] = m.get(c['init'], c['init'])
            cs.append(c)
        out['captures'] = cs
    return out


def _splice(F, c, G):
    """Inline callee body G at call node c (an element of some block) of the working copy F.  Returns True if done."""
    pos = None
    for b in F.blocks.values():
        if c['id'] in b['elems']:
            pos = (b['id'], b['elems'].index(c['id']))
            break
    if pos is None:
        return False
    bid, i = pos
    blk = F.blocks[bid]
    nbase = max(F.nodes) + 1
    bbase = max(F.blocks) + 1
    nmap = {old: old + nbase for old in G.nodes}
    bmap = {old: old + bbase for old in G.blocks if old != G.exit}
    cont = bbase + max(G.blocks) + 1
    # continuation block: the call node (now "the value of the inlined body") and everything after it
    cblk = {k: v for k, v in blk.items() if k not in ('elems', 'succs', 'id', 'label')}
    cblk.update(id=cont, elems=blk['elems'][i:], succs=list(blk['succs']))
    pre = {'id': bid, 'elems': blk['elems'][:i], 'succs': [bmap[G.entry]]}
    if 'label' in blk:
        pre['label'] = blk['label']
    F.blocks[bid] = pre
    F.blocks[cont] = cblk
    # is the call the branch condition of the continuation (possibly negated), with nothing else evaluated in between?
    thread = None
    if 'cond' in cblk and len(cblk['succs']) == 2 and cblk.get('termcls') != 'SwitchStmt':
        neg = False
        x = F.strip(cblk['cond'])
        hops = 0
        anc = set()
        while x is not None and hops < 8:
            anc.add(x)
            n = F.nodes.get(x)
            if n is not None and n.get('k') == 'unop' and n.get('op') == '!':
                neg = not neg
                x = F.strip(n['sub'])
                hops += 1
                continue
            break
        if x == c['id']:
            rest = cblk['elems'][1:]
            okrest = True
            for e in rest:
                ne = F.nodes[e]
                if not (e in anc or ne.get('k') in ('wrap', 'icast') or (ne.get('k') == 'unop' and ne.get('op') == '!')):
                    okrest = False
            if okrest:
                thread = neg
    # parameters -> arguments
    args = c.get('args', [])
    pmap = {}
    for idx, p in enumerate(G.params):
        if idx < len(args) and isinstance(args[idx], int):
            pmap[p['d']] = args[idx]
    for old, n in G.nodes.items():
        nn = _remap_node(n, nmap)
        nn['id'] = nmap[old]
        if nn.get('k') == 'var' and nn.get('vk') == 'param' and nn.get('d') in pmap:
            nn = {'k': 'wrap', 'cls': 'InlinedParam', 'sub': pmap[nn['d']], 't': nn.get('t'), 'id': nmap[old], 'l': nn.get('l'), 'o': nn.get('o'),
                  'pname': nn.get('name')}
        if nn.get('k') == 'return':
            # the helper's return is not a return of the caller: keep the value expression, drop the statement kind
            nn = dict(nn, k='wrap', cls='InlinedReturn') if 'sub' in nn else {'k': 'lit', 'cls': 'InlinedReturn', 'id': nmap[old], 't': 'void',
                                                                             'l': nn.get('l'), 'o': nn.get('o')}
        if G.file != F.file and 'f' not in nn:
            nn['f'] = G.file
        F.nodes[nmap[old]] = nn
        F.chain[nmap[old]] = c['id']
    for old, gb in G.blocks.items():
        if old == G.exit:
            continue
        nb = {k: v for k, v in gb.items() if k not in ('elems', 'succs', 'id', 'term', 'cond', 'label')}
        nb['id'] = bmap[old]
        nb['elems'] = [nmap[e] for e in gb['elems']]
        for k in ('term', 'cond'):
            if isinstance(gb.get(k), int):
                nb[k] = nmap.get(gb[k], gb[k])
        if 'label' in gb:
            lab = dict(gb['label'])
            for k in ('case', 'case_hi'):
                if isinstance(lab.get(k), int):
                    lab[k] = nmap.get(lab[k], lab[k])
            nb['label'] = lab
        throws = gb.get('noreturn') or any(G.nodes[e].get('k') == 'throw' for e in gb['elems'])
        rets = [G.nodes[e] for e in gb['elems'] if G.nodes[e].get('k') == 'return']
        succs = []
        for s in gb['succs']:
            if s is None:
                succs.append(None)
            elif s == G.exit:
                if throws:
                    succs.append(F.exit)
                else:
                    tgt = cont
                    if thread is not None and rets and 'sub' in rets[-1]:
                        cv = G.const_value(rets[-1]['sub'])
                        if cv in (0, 1):
                            val = bool(cv) != thread          # value of the branch condition
                            t2 = cblk['succs'][0 if val else 1]
                            if t2 is not None:
                                tgt = t2
                    succs.append(tgt)
            else:
                succs.append(bmap[s])
        nb['succs'] = succs
        F.blocks[nb['id']] = nb
    F.loops = F.loops + [l for l in G.loops if l not in F.loops]
    F.tries = F.tries + [t for t in G.tries if t not in F.tries]
    F.inlined.append(G.q)
    c2 = dict(c)
    c2['inlined'] = True
    F.nodes[c['id']] = c2
    _reset(F)
    return True


def inline_function(fn, chosen, cache, depth=0):
    """working copy of fn with every call to a chosen helper replaced by the helper's (recursively inlined) body"""
    if fn.usr in cache:
        return cache[fn.usr]
    sites = [n for n in fn.all_nodes() if n.get('k') == 'call' and n.get('u') in chosen and chosen[n['u']].usr != fn.usr]
    if not sites or depth > MAX_DEPTH:
        cache[fn.usr] = fn
        return fn
    F = _clone(fn)
    done = set()
    progress = True
    while progress:
        progress = False
        for n in list(F.nodes.values()):
            if n.get('k') == 'call' and n.get('u') in chosen and not n.get('inlined') and n['id'] not in done:
                G = inline_function(chosen[n['u']], chosen, cache, depth + 1)
                done.add(n['id'])
                if _splice(F, n, G):
                    progress = True
                    break
        if len(done) > 200:
            break
    cache[fn.usr] = F
    return F


def inlined_view(fb):
    """A shallow copy of the fact base whose functions have the chosen helpers spliced in; helpers whose every call site was
    inlined are removed from `functions` (lookups by usr / name still find the original bodies)."""
    chosen = plan(fb)
    if not chosen:
        return fb, {}
    cache = {}
    fb2 = copy.copy(fb)
    fns = []
    for f in fb.functions:
        if f.has_cfg and f.usr in chosen:
            continue
        fns.append(inline_function(f, chosen, cache) if f.has_cfg else f)
    fb2.functions = fns
    fb2.by_id = dict(fb.by_id)
    repl = {id(o): n for o, n in ((f, cache.get(f.usr, f)) for f in fb.functions if f.has_cfg)}
    for g in fns:
        fb2.by_id[(g.unit, g.id)] = g
    fb2.by_q = type(fb.by_q)(list, {q: [repl.get(id(f), f) for f in lst] for q, lst in fb.by_q.items()})
    fb2.by_usr = type(fb.by_usr)(list, {u: [repl.get(id(f), f) for f in lst] for u, lst in fb.by_usr.items()})
    return fb2, chosen
