"""Generic CFG helpers shared by rule engines: forward dataflow, guarded-by, path search with edge filter."""
from collections import deque


def forward_must(fn, transfer, init=frozenset(), universe=None):
    """Forward must-dataflow (meet = intersection) over CFG elements.
    transfer(state:frozenset, node) -> frozenset.  Returns {node id: state *before* the element} for every
    element, plus ('out', block id) -> state at block end."""
    blocks = fn.blocks
    preds = fn.preds()
    TOP = None  # unknown / unvisited
    out = {b: TOP for b in blocks}
    before = {}
    work = deque([fn.entry])
    inq = {fn.entry}
    # also start from catch handlers (unreachable from entry in the CFG without EH edges) with empty state
    for b in fn.catch_entry_blocks():
        work.append(b)
        inq.add(b)
    while work:
        b = work.popleft()
        inq.discard(b)
        if b == fn.entry or blocks[b].get('label', {}).get('catch'):
            st = init
        else:
            ins = [out[p] for p in preds.get(b, []) if out[p] is not TOP]
            if not ins:
                continue
            st = ins[0]
            for s in ins[1:]:
                st = st & s
        for e in blocks[b]['elems']:
            before[e] = st if e not in before else (before[e] & st)
            st = transfer(st, fn.nodes[e])
        if out[b] is TOP or out[b] != st:
            out[b] = st
            for s in fn.succs(b):
                if s not in inq:
                    inq.add(s)
                    work.append(s)
    res = dict(before)
    for b, st in out.items():
        res[('out', b)] = st
    return res


def _rpo(fn):
    """reverse post-order numbering of blocks reachable from entry and catch handlers (cached on fn)."""
    r = getattr(fn, '_rpo_cache', None)
    if r is not None:
        return r
    order = []
    seen = set()
    roots = [fn.entry] + fn.catch_entry_blocks()
    for root in roots:
        if root in seen:
            continue
        stack = [(root, iter(fn.succs(root)))]
        seen.add(root)
        while stack:
            b, it = stack[-1]
            adv = False
            for s in it:
                if s not in seen:
                    seen.add(s)
                    stack.append((s, iter(fn.succs(s))))
                    adv = True
                    break
            if not adv:
                order.append(b)
                stack.pop()
    order.reverse()
    r = {b: i for i, b in enumerate(order)}
    fn._rpo_cache = r
    return r


def forward_may(fn, transfer, init=frozenset()):
    """Forward may-dataflow (meet = union), blocks processed in reverse post-order."""
    import heapq
    blocks = fn.blocks
    preds = fn.preds()
    rpo = _rpo(fn)
    out = {b: None for b in blocks}
    before = {}
    heap = []
    inq = set()
    for b in [fn.entry] + fn.catch_entry_blocks():
        if b in rpo and b not in inq:
            heapq.heappush(heap, (rpo[b], b))
            inq.add(b)
    while heap:
        _, b = heapq.heappop(heap)
        inq.discard(b)
        st = frozenset()
        if b == fn.entry or blocks[b].get('label', {}).get('catch'):
            st = init
        for p in preds.get(b, []):
            if out[p] is not None:
                st = st | out[p]
        for e in blocks[b]['elems']:
            old = before.get(e)
            before[e] = st if old is None else (st | old)
            st = transfer(st, fn.nodes[e])
        if out[b] is None or out[b] != st:
            out[b] = st
            for s in fn.succs(b):
                if s not in inq and s in rpo:
                    inq.add(s)
                    heapq.heappush(heap, (rpo[s], s))
    res = dict(before)
    for b, st in out.items():
        res[('out', b)] = st
    return res


def guards_of(fn, nid):
    """List of (cond node id, sense) such that element nid executes only when cond evaluated to `sense`:
    dominator blocks whose terminator condition's true (or false) successor dominates nid's block while the
    other successor does not reach it without passing through... (conservative: other successor != this one and
    does not dominate)."""
    pos = fn.positions()
    if nid not in pos:
        return []
    b0 = pos[nid][0]
    dom = fn.dominators()
    out = []
    for d in dom.get(b0, ()):  # every dominator block (including b0 itself: excluded below)
        blk = fn.blocks[d]
        if 'cond' not in blk or len(blk['succs']) != 2 or d == b0:
            continue
        if blk.get('termcls') == 'SwitchStmt':
            continue
        t, f = blk['succs']
        if t is None or f is None or t == f:
            continue
        dt = (t in dom.get(b0, ()) or t == b0) and _edge_dominates(fn, d, t, dom)
        df = (f in dom.get(b0, ()) or f == b0) and _edge_dominates(fn, d, f, dom)
        if dt and not df:
            _expand(fn, blk['cond'], True, d, out)
        elif df and not dt:
            _expand(fn, blk['cond'], False, d, out)
    return out


def _edge_dominates(fn, d, s, dom):
    """The CFG edge d->s is the only way into s (other predecessors of s are loop back edges dominated by s)."""
    for p in fn.preds().get(s, []):
        if p == d:
            continue
        if s in dom.get(p, ()):  # back edge from inside the region headed by s
            continue
        return False
    return True


def _expand(fn, cond, sense, d, out):
    """(a && b) true => a true, b true; (a || b) false => a false, b false; !a flips."""
    out.append((cond, sense, d))
    n = fn.sn(cond)
    if n is None:
        return
    if n.get('k') == 'binop' and ((n['op'] == '&&' and sense) or (n['op'] == '||' and not sense)):
        _expand(fn, n['lhs'], sense, d, out)
        _expand(fn, n['rhs'], sense, d, out)
    elif n.get('k') == 'unop' and n['op'] == '!':
        _expand(fn, n['sub'], not sense, d, out)


def path_search(fn, start, is_target, is_barrier, edge_ok=None, from_block_start=False):
    """BFS from just after element `start` (or from the beginning of block `start` if from_block_start) to an
    element/exit satisfying is_target without crossing an element satisfying is_barrier.  edge_ok(block, index,
    succ) may prune CFG edges.  Target ('exit', exit_block) is offered when the exit block is reached.
    Returns witness list or None."""
    pos = fn.positions()
    if from_block_start:
        b0, i0 = start, 0
    else:
        if start not in pos:
            return None
        b0, i0 = pos[start]
        i0 += 1
    seen = set()
    dq = deque([(b0, i0, [])])
    while dq:
        b, i, path = dq.popleft()
        elems = fn.blocks[b]['elems']
        blocked = False
        for e in elems[i:]:
            if is_target(e):
                return path + [e]
            if is_barrier(e):
                blocked = True
                break
        if blocked:
            continue
        if b == fn.exit:
            if is_target(('exit', b)):
                return path + [('exit', b)]
            continue
        for idx, s in enumerate(fn.blocks[b]['succs']):
            if s is None:
                continue
            if edge_ok is not None and not edge_ok(b, idx, s):
                continue
            if s not in seen:
                seen.add(s)
                dq.append((s, 0, path + [('B', s)]))
    return None


def describe_path(fn, path):
    out = []
    for p in path or []:
        if isinstance(p, tuple):
            out.append('%s%s' % (p[0], p[1]))
        else:
            out.append('%s@%s' % (fn.expr(p)[:60], fn.nodes[p].get('l')))
    return ' -> '.join(out)


def in_cfg_loop(fn, nid):
    """The element lies on a CFG cycle (works on normal forms whose inlined nodes have no source offsets)."""
    pos = fn.positions()
    if nid not in pos:
        return False
    b0 = pos[nid][0]
    seen = set()
    dq = deque(fn.succs(b0))
    while dq:
        b = dq.popleft()
        if b == b0:
            return True
        if b in seen:
            continue
        seen.add(b)
        dq.extend(fn.succs(b))
    return False


def exit_reachable_assuming(fn, call_value, max_states=20000):
    """Path-sensitive reachability of the function exit over (block, values of bool locals), assuming that every call whose
    resolved callee qname is a key of `call_value` returns that bool.  Bool locals assigned only from constants / evaluable
    conditions are tracked; anything else is unknown (both edges followed).  Returns True if a normal exit is reachable."""
    def ev(nid, env):
        n = fn.sn(nid)
        if n is None:
            return None
        k = n.get('k')
        if 'cv' in n and not n.get('float') and k in ('lit',):
            return n['cv'] != '0'
        if k == 'var' and n.get('d') in env:
            return env[n['d']]
        if k == 'unop' and n['op'] == '!':
            v = ev(n['sub'], env)
            return None if v is None else (not v)
        if k == 'binop' and n['op'] in ('&&', '||'):
            a, b = ev(n['lhs'], env), ev(n['rhs'], env)
            if n['op'] == '&&':
                if a is False or b is False:
                    return False
                return True if (a is True and b is True) else None
            if a is True or b is True:
                return True
            return False if (a is False and b is False) else None
        if k == 'binop' and n['op'] in ('==', '!='):
            a, b = ev(n['lhs'], env), ev(n['rhs'], env)
            if a is None or b is None:
                return None
            return (a == b) if n['op'] == '==' else (a != b)
        if k in ('call', 'construct') and n.get('q') in call_value:
            return call_value[n['q']]
        if 'cv' in n and not n.get('float'):
            return n['cv'] != '0'
        return None

    def is_bool_local(n):
        return n.get('k') == 'var' and n.get('vk') == 'local' and n.get('t') == 'bool'

    start = (fn.entry, ())
    seen = {start}
    dq = deque([start])
    n_states = 0
    while dq:
        b, envt = dq.popleft()
        n_states += 1
        if n_states > max_states:
            return True  # give up: do not claim unreachability
        env = dict(envt)
        blk = fn.blocks[b]
        dead = False
        for e in blk['elems']:
            n = fn.nodes[e]
            k = n.get('k')
            if k == 'decl':
                for v in n['vars']:
                    if v['tC'] in ('bool', 'const bool') and isinstance(v.get('init'), int):
                        env[v['d']] = ev(v['init'], env)
            elif k == 'assign' and n['op'] == '=':
                l = fn.sn(n['lhs'])
                if l is not None and is_bool_local(l):
                    env[l['d']] = ev(n['rhs'], env)
            elif k == 'throw' or (k == 'call' and n.get('noret')):
                dead = True
                break
        if dead:
            continue
        if b == fn.exit:
            return True
        succs = blk['succs']
        if 'cond' in blk and len(succs) == 2 and blk.get('termcls') != 'SwitchStmt':
            v = ev(blk['cond'], env)
            idxs = [0] if v is True else [1] if v is False else [0, 1]
        else:
            idxs = range(len(succs))
        for i in idxs:
            s2 = succs[i]
            if s2 is None:
                continue
            st = (s2, tuple(sorted((d, val) for d, val in env.items() if val is not None)))
            if st not in seen:
                seen.add(st)
                dq.append(st)
    return False
