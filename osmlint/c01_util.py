"""Helpers for the C01 rule module: exact branch guards (edge dominance) and extraction of the textual codecs' vocabularies."""
import re
from collections import deque

LOOP_TERMS = ('ForStmt', 'WhileStmt', 'CXXForRangeStmt', 'DoStmt')
ASSERT_FAIL = ('__assert_fail', '__assert_perror_fail', '__assert')


def _edge_dominators(fn):
    """Dominator sets on the CFG in which every edge of a two-way branch is split by a virtual node ('e', block, index)."""
    cache = getattr(fn, '_c01_edom', None)
    if cache is not None:
        return cache
    succ = {}

    def two_way(b):
        return 'cond' in b and len(b['succs']) == 2 and b.get('termcls') != 'SwitchStmt'
    # short-circuit evaluation: the blocks that evaluate a sub-expression of a statement's condition E (terminator
    # `BinaryOperator`) jump straight to E's true / false target; route those jumps through E's own virtual edge nodes so
    # that "E was true" dominates the then-branch of `if (a || b)`.
    owner = {}
    for b in fn.blocks.values():
        if two_way(b) and b.get('termcls') != 'BinaryOperator':
            sub = set(fn.subtree(b['cond']))
            for c in fn.blocks.values():
                if c is not b and two_way(c) and c.get('termcls') == 'BinaryOperator' and fn.strip(c['cond']) in sub:
                    owner.setdefault(c['id'], b)
    for b in fn.blocks.values():
        out = []
        for i, s in enumerate(b['succs']):
            if s is None:
                continue
            if two_way(b):
                own = owner.get(b['id'])
                if own is not None:
                    if s == own['succs'][0] and s != own['succs'][1]:
                        out.append(('e', own['id'], 0))
                        continue
                    if s == own['succs'][1] and s != own['succs'][0]:
                        out.append(('e', own['id'], 1))
                        continue
                    out.append(s)
                    continue
                v = ('e', b['id'], i)
                out.append(v)
                succ[v] = [s]
            else:
                out.append(s)
        succ[b['id']] = out
    entry = fn.entry
    reach = []
    seen = {entry}
    dq = deque([entry])
    while dq:
        x = dq.popleft()
        reach.append(x)
        for s in succ.get(x, []):
            if s not in seen:
                seen.add(s)
                dq.append(s)
    preds = {x: [] for x in reach}
    for x in reach:
        for s in succ.get(x, []):
            preds[s].append(x)
    full = set(reach)
    dom = {x: full for x in reach}
    dom[entry] = {entry}
    changed = True
    while changed:
        changed = False
        for x in reach:
            if x == entry:
                continue
            ps = [dom[p] for p in preds[x]]
            new = (set.intersection(*ps) if ps else set()) | {x}
            if new != dom[x]:
                dom[x] = new
                changed = True
    fn._c01_edom = dom
    return dom


def edge_guards(fn, nid, loop_exits=False):
    """[(cond node id, sense, block)]: branch outcomes that every path from the entry to node nid must have taken
    (conjunctions / negations expanded).  Exits of loops (`false` edge of a loop condition) are not guards unless asked for."""
    pos = fn.positions()
    if nid not in pos:
        return []
    b0 = pos[nid][0]
    dom = _edge_dominators(fn).get(b0, ())
    out = []
    for d in dom:
        if not (isinstance(d, tuple) and d[0] == 'e'):
            continue
        blk = fn.blocks[d[1]]
        sense = d[2] == 0
        if not sense and not loop_exits and blk.get('termcls') in LOOP_TERMS:
            continue
        other = blk['succs'][1 - d[2]]
        if other is not None and any(fn.nodes[e].get('k') == 'call' and fn.nodes[e].get('q', fn.nodes[e].get('name')) in ASSERT_FAIL
                                     for e in fn.blocks[other]['elems']):
            continue   # assert(cond): not a gate of the program's behaviour (-UNDEBUG configurations)
        _expand(fn, blk['cond'], sense, d[1], out)
    return out


def _expand(fn, cond, sense, d, out, depth=0):
    n = fn.sn(cond)
    if n is None:
        return
    if n.get('k') == 'var' and n.get('vk', 'local') == 'local' and depth < 4:
        # `const bool plain = a && b; if (plain)`: a local that only names a condition
        from .codec import local_inits
        init = local_inits(fn).get(n.get('d'))
        if init is not None and fn.sn(init) is not None and fn.sn(init).get('k') in ('binop', 'unop', 'call', 'member', 'var'):
            _expand(fn, init, sense, d, out, depth + 1)
            return
    if n.get('k') == 'binop' and ((n['op'] == '&&' and sense) or (n['op'] == '||' and not sense)):
        _expand(fn, n['lhs'], sense, d, out)
        _expand(fn, n['rhs'], sense, d, out)
    elif n.get('k') == 'unop' and n['op'] == '!':
        _expand(fn, n['sub'], not sense, d, out)
    else:
        out.append((cond, sense, d))


# ====================================================================================================================
# Text codecs (XML, OPL): what the writers put on the wire and which accessor feeds it; what the readers dispatch on and
# which setter receives it.
# ====================================================================================================================

STRING_APPENDERS = ('operator+=', 'append', 'push_back')
# classes whose accessors name OSM attributes (writer side: getters; reader side: setters / builders)
ENTITY_PREFIXES = ('osmium::OSMObject', 'osmium::OSMEntity', 'osmium::Node', 'osmium::Way', 'osmium::Relation', 'osmium::Changeset', 'osmium::NodeRef',
                   'osmium::RelationMember', 'osmium::Tag', 'osmium::Location', 'osmium::Box', 'osmium::builder::', 'osmium::Area')
NOT_ATTRIBUTES = {'begin', 'end', 'cbegin', 'cend', 'empty', 'size', '(conv)', 'is_undefined', 'valid', 'operator bool', 'object', 'cobject',
                  'operator*', 'operator->', 'operator++', 'operator!=', 'operator==', 'user_is_anonymous', 'type_is_in', 'buffer', '(ctor)', '(dtor)',
                  'extend', 'as_string', 'is_defined'}


def is_entity_class(rcls):
    return bool(rcls) and rcls.startswith(ENTITY_PREFIXES)


def entity_accessors(fn, nid, skip_params=False):
    """Names of member functions of OSM entity classes called anywhere in the expression tree nid."""
    from .codec import local_inits
    out = set()
    work = [(nid, 0)]
    seen = set()
    while work:
        root, depth = work.pop()
        for x in fn.subtree(root):
            if x in seen:
                continue
            seen.add(x)
            n = fn.nodes[x]
            if n.get('k') == 'call' and is_entity_class(n.get('rcls')) and 'q' in n:
                nm = n['q'].rsplit('::', 1)[-1]
                if nm not in NOT_ATTRIBUTES and not nm.startswith('operator'):
                    out.add(nm)
            elif n.get('k') == 'call' and n.get('u') and depth < 2 and '/osmium/io/' in fn.file and not n.get('q', '').startswith(('std::', 'protozero::')):
                # a small helper of the writer that is handed an entity and returns one of its attributes (`lat_of(node)`)
                if any(is_entity_class((fn.sn(a) or {}).get('t', '').replace('const ', '').rstrip('&* ').strip()) for a in n.get('args', [])):
                    for g in fn.fb.by_usr.get(n['u'], []):
                        if g.has_cfg and '/osmium/io/' in g.file and g is not fn:
                            for r in g.all_nodes():
                                if r.get('k') == 'return' and 'sub' in r:
                                    out |= entity_accessors(g, r['sub'])
                            break
            elif n.get('k') == 'var' and n.get('vk', 'local') == 'local' and depth < 3 and n.get('d') in local_inits(fn):
                work.append((local_inits(fn)[n['d']], depth + 1))   # a local that only names another expression
    return out


def param_refs(fn, nid):
    """Indices of fn's parameters referenced in the expression tree nid."""
    idx = {p['d']: i for i, p in enumerate(fn.params)}
    out = set()
    for x in fn.subtree(nid):
        n = fn.nodes[x]
        if n.get('k') == 'var' and n.get('d') in idx:
            out.add(idx[n['d']])
    return out


def top_level_calls(fn):
    """Call/construct nodes that are not part of a larger call expression (statement level)."""
    cache = getattr(fn, '_c01_top', None)
    if cache is not None:
        return cache
    pm = fn.parent_map()
    out = []
    for n in fn.all_nodes():
        if n.get('k') != 'call':
            continue
        x = n['id']
        top = True
        hops = 0
        while x in pm and hops < 50:
            p = fn.nodes[pm[x]]
            hops += 1
            if p.get('k') in ('call', 'construct', 'binop', 'unop', 'condop', 'assign', 'return', 'decl', 'cast', 'index', 'member', 'new', 'init', 'initlist', 'throw'):
                top = False
                break
            x = p['id']
        if top and n['id'] in fn.positions():
            out.append(n)
    fn._c01_top = out
    return out


class OutEvent:
    """One thing a writer function puts on its output, anchored at a statement-level call."""
    __slots__ = ('fn', 'node', 'kind', 'texts', 'param', 'callees', 'call')

    def __init__(self, fn, node, kind, texts=None, param=None, callees=None):
        self.fn, self.node, self.kind = fn, node, kind
        self.texts = texts or []      # literal alternatives ('lit')
        self.param = param            # parameter index ('param')
        self.callees = callees or []  # resolved bodies ('call')

    def __repr__(self):
        return '<OutEvent %s %s %s>' % (self.kind, self.texts or self.param or [c.name for c in self.callees], self.fn.loc(self.node))


def _literal_texts(fn, nid):
    """Texts if the expression is a string/char literal or a ?: of literals, else None."""
    n = fn.sn(nid)
    if n is None:
        return None
    if n.get('k') == 'lit':
        if 'str' in n:
            return [n['str']]
        if n.get('char') and 'cv' in n:
            return [chr(int(n['cv']) & 0xff)]
        return None
    if n.get('k') == 'condop':
        a, b = _literal_texts(fn, n['then']), _literal_texts(fn, n['else'])
        if a is not None and b is not None:
            return a + b
    return None


def out_events(fb, fn, writer_usrs):
    """Output events of fn in no particular order (use dominance to order them)."""
    cache = getattr(fn, '_c01_out', None)
    if cache is not None:
        return cache
    pidx = {p['d']: i for i, p in enumerate(fn.params)}
    evs = []
    for c in top_level_calls(fn):
        q = c.get('q', '')
        nm = q.rsplit('::', 1)[-1]
        if c.get('rcls') == 'std::basic_string' and nm in STRING_APPENDERS and c.get('args'):
            a = c['args'][0]
            texts = _literal_texts(fn, a)
            s = fn.sn(a)
            if texts is not None and (s.get('k') == 'lit'):
                evs.append(OutEvent(fn, c['id'], 'lit', texts=texts))
            elif s is not None and s.get('k') == 'var' and s.get('d') in pidx and fn.params[pidx[s['d']]]['tC'] in ('const char *', 'char', 'const char'):
                evs.append(OutEvent(fn, c['id'], 'param', param=pidx[s['d']]))
            else:
                e = OutEvent(fn, c['id'], 'value')
                if texts is not None:
                    e.texts = texts      # `cond ? 'V' : 'D'`: letters and a value at once
                evs.append(e)
        elif c.get('u') in writer_usrs:
            evs.append(OutEvent(fn, c['id'], 'call', callees=[g for g in fb.by_usr.get(c['u'], []) if g.has_cfg]))
        elif entity_accessors(fn, c['id']) or param_refs(fn, c['id']):
            # any other statement that consumes entity data / parameters (append_xml_encoded_string(out, x), output_int(x) ...)
            evs.append(OutEvent(fn, c['id'], 'value'))
    fn._c01_out = evs
    return evs


def nearest_after(fn, ev, evs, is_name, is_candidate):
    """Candidates C with ev dom C, no name event strictly between, and no other candidate between (may be several in
    different branches)."""
    out = []
    cands = [c for c in evs if c is not ev and is_candidate(c) and fn.elem_dominates(ev.node, c.node)]
    names = [m for m in evs if m is not ev and is_name(m) and fn.elem_dominates(ev.node, m.node)]
    for c in cands:
        if any(fn.elem_dominates(m.node, c.node) for m in names if m is not c):
            continue
        if any(o is not c and fn.elem_dominates(o.node, c.node) for o in cands):
            continue
        out.append(c)
    return out


class WField:
    """A named field a text writer emits: name (attribute name / letter), context (XML element / OPL object kind),
    getters (entity accessors that feed the value), site."""

    def __init__(self, name, fn, node, getters=None, const=False, kind='attr'):
        self.name, self.fn, self.node = name, fn, node
        self.getters = set(getters or ())
        self.const = const
        self.kind = kind
        self.contexts = set()

    @property
    def site(self):
        return self.fn.loc(self.node)

    def __repr__(self):
        return '<WField %s %s ctx=%s get=%s>' % (self.kind, self.name, sorted(self.contexts), sorted(self.getters))


_XML_TOKEN = re.compile(r'<([A-Za-z_][\w.-]*)|\s([A-Za-z_][\w.:-]*)="')


def writer_functions(fb, classes=(), extra_files=()):
    """Function bodies that make up a text writer: methods of the named classes plus every function they (transitively)
    call that appends to a std::string and lives under include/osmium/io."""
    roots = [f for f in fb.functions if f.has_cfg and f.cls in classes]
    seen = {}
    work = list(roots)
    while work:
        f = work.pop()
        if (f.usr, f.full) in seen:
            continue
        seen[(f.usr, f.full)] = f
        for c in f.calls():
            for g in fb.by_usr.get(c.get('u'), []):
                if g.has_cfg and '/osmium/io/' in g.file and not g.file.endswith('string_util.hpp') and (g.usr, g.full) not in seen:
                    if any(x.get('k') == 'call' and x.get('rcls') == 'std::basic_string' and x.get('q', '').rsplit('::', 1)[-1] in STRING_APPENDERS
                           for x in g.all_nodes()):
                        work.append(g)
    return list(seen.values())


def name_param_summary(fb, fn, evs, is_value):
    """For a helper that appends one of its own parameters as a field name: {param index: (value param indices, accessors)}."""
    out = {}
    for e in evs:
        if e.kind != 'param':
            continue
        vals = nearest_after(fn, e, evs, lambda m: m.kind == 'param', is_value)
        vp, acc = set(), set()
        for v in vals:
            vp |= param_refs(fn, v.node)
            acc |= entity_accessors(fn, v.node)
        out[e.param] = (vp - {e.param}, acc)
    return out


def strings_of(fb, fn, nid, depth=0):
    """The finite set of strings an expression of type const char* / char can denote: literals, ?: chains of literals (nullptr
    contributes nothing), locals that only name such an expression, lookup helpers all of whose returns are such expressions, and
    parameters (union over the literal arguments at the call sites).  None if it cannot be enumerated."""
    from .codec import local_inits
    if depth > 5:
        return None
    n = fn.sn(nid)
    if n is None:
        return None
    k = n.get('k')
    if k == 'lit':
        if 'str' in n:
            return {n['str']}
        if n.get('char') and 'cv' in n:
            return {chr(int(n['cv']) & 0xff)}
        if n.get('null') or n.get('cv') == '0':
            return set()
        return None
    if k == 'cast':
        return strings_of(fb, fn, n['sub'], depth + 1)
    if k == 'condop':
        a, b = strings_of(fb, fn, n['then'], depth + 1), strings_of(fb, fn, n['else'], depth + 1)
        return None if a is None or b is None else a | b
    if k == 'var':
        pidx = {p['d']: i for i, p in enumerate(fn.params)}
        if n.get('d') in pidx:
            out = set()
            found = False
            for g in fb.functions:
                if not g.has_cfg:
                    continue
                for c in g.all_nodes():
                    if c.get('k') == 'call' and c.get('u') == fn.usr and len(c.get('args', [])) > pidx[n['d']]:
                        found = True
                        x = strings_of(fb, g, c['args'][pidx[n['d']]], depth + 1)
                        if x is None:
                            return None
                        out |= x
            return out if found else None
        init = local_inits(fn).get(n.get('d'))
        if init is not None:
            return strings_of(fb, fn, init, depth + 1)
        return None
    if k == 'call' and n.get('u'):
        for g in fb.by_usr.get(n['u'], []):
            if not g.has_cfg:
                continue
            out = set()
            rets = [r for r in g.all_nodes() if r.get('k') == 'return' and 'sub' in r]
            if not rets:
                return None
            for r in rets:
                x = strings_of(fb, g, r['sub'], depth + 1)
                if x is None:
                    return None
                out |= x
            return out
    return None


def xml_writer_fields(fb, classes):
    """([WField], problems) for the XML writer."""
    fns = writer_functions(fb, classes)
    usrs = {f.usr for f in fns}
    by_usr = {}
    for f in fns:
        by_usr.setdefault(f.usr, []).append(f)
    problems = []
    fields = []
    opens = {}      # id(fn) -> [(node, order, element)]
    summaries = {}

    naming = {id(f) for f in fns if any(e.kind == 'param' for e in out_events(fb, f, usrs))}

    def is_value(e):
        if e.kind == 'value':
            return True
        # a call to a writer helper that names nothing itself (output_int(value), append_encoded_string(x)) carries a value
        return e.kind == 'call' and not any(id(g) in naming for g in e.callees) and bool(
            entity_accessors(e.fn, e.node) or param_refs(e.fn, e.node))

    for f in fns:
        evs = out_events(fb, f, usrs)
        summaries[id(f)] = name_param_summary(fb, f, evs, is_value)
    for f in fns:
        evs = out_events(fb, f, usrs)
        ol = []
        for e in evs:
            if e.kind == 'lit':
                for text in e.texts:
                    toks = list(_XML_TOKEN.finditer(text))
                    for i, m in enumerate(toks):
                        if m.group(1):
                            ol.append((e.node, m.start(), m.group(1)))
                            fields.append(WField(m.group(1), f, e.node, kind='element'))
                        else:
                            rest = text[m.end():]
                            const = rest != ''
                            w = WField(m.group(2), f, e.node, const=const)
                            w.value = rest.split('"', 1)[0] if const and '"' in rest else None
                            w.order = m.start()
                            w.value_nodes = []
                            if not const:
                                for v in nearest_after(f, e, evs, lambda x: x.kind in ('lit', 'param', 'call') and x is not e and _names_something(fb, x, summaries), is_value):
                                    w.getters |= entity_accessors(f, v.node)
                                    w.value_nodes.append((f, v.node))
                            fields.append(w)
            elif e.kind == 'call':
                c = f.nodes[e.node]
                for g in e.callees[:1]:
                    summ = summaries.get(id(g), {})
                    for pi, (vps, acc) in summ.items():
                        if pi >= len(c.get('args', [])):
                            continue
                        texts = _literal_texts(f, c['args'][pi])
                        if texts is None:
                            # name handed on from this function's own parameter: resolved at our call sites
                            continue
                        for t in texts:
                            toks = [m for m in _XML_TOKEN.finditer(t)]
                            if toks:
                                # the helper is handed a whole fragment (` created_at="`): the name is inside it
                                names = [m.group(2) for m in toks if m.group(2)]
                                for m in toks:
                                    if m.group(1):
                                        ol.append((e.node, m.start(), m.group(1)))
                                        fields.append(WField(m.group(1), f, e.node, kind='element'))
                                if not names:
                                    continue
                                t = names[-1]
                            elif not re.match(r'^[A-Za-z_][\w.:-]*$', t):
                                continue   # not a name at all (separator, quote ...)
                            w = WField(t, f, e.node, getters=set(acc))
                            w.order = 0
                            for vp in vps:
                                if vp < len(c['args']):
                                    w.getters |= entity_accessors(f, c['args'][vp])
                            fields.append(w)
        # an element name assembled from pieces: `out += "  <"; out += name;` where the pieces are enumerable string sets
        for e in evs:
            if e.kind not in ('lit', 'param'):
                continue
            c = f.nodes[e.node]
            pieces = set(e.texts) if e.kind == 'lit' else (strings_of(fb, f, c['args'][0]) or set())
            if not any(t.endswith('<') for t in pieces):
                continue
            for nx in nearest_after(f, e, evs, lambda x: False, lambda x: x is not e and x.kind in ('lit', 'param', 'value')):
                names = strings_of(fb, f, f.nodes[nx.node]['args'][0]) if f.nodes[nx.node].get('args') else None
                for t in sorted(names or ()):
                    if re.match(r'^[A-Za-z_][\w.-]*$', t):
                        ol.append((nx.node, 0, t))
                        fields.append(WField(t, f, nx.node, kind='element'))
        opens[id(f)] = ol

    # ---- element context of every attribute: nearest dominating element-open literal, else inherited from the call sites
    callers = {}
    for f in fns:
        for e in out_events(fb, f, usrs):
            if e.kind == 'call':
                for g in e.callees:
                    callers.setdefault(g.usr, []).append((f, e.node))

    def context_at(f, node, order, depth=0):
        best = None
        for (n, o, el) in opens.get(id(f), []):
            before = f.elem_dominates(n, node) or (n == node and o < order)
            if not before:
                continue
            if best is None or f.elem_dominates(best[0], n) or (best[0] == n and best[1] < o):
                best = (n, o, el)
        if best is not None:
            return {best[2]}
        out = set()
        if depth < 4:
            for (g, cn) in callers.get(f.usr, []):
                out |= context_at(g, cn, 0, depth + 1)
        return out

    for w in fields:
        if w.kind == 'attr':
            w.contexts = context_at(w.fn, w.node, getattr(w, 'order', 0))
            if not w.contexts:
                problems.append('cannot determine the XML element attribute %r written at %s belongs to' % (w.name, w.site))
    return fields, problems


def _names_something(fb, e, summaries):
    if e.kind == 'param':
        return True
    if e.kind == 'lit':
        return any(_XML_TOKEN.search(t) for t in e.texts)
    if e.kind == 'call':
        return any(summaries.get(id(g)) for g in e.callees)
    return False


# ------------------------------------------------------------------------------------------------ XML reader

class RName:
    """An attribute name a reader dispatches on: name, fn, node (the comparison), setters (entity setters the value reaches)."""

    def __init__(self, name, fn, node, setters=None, chain=None):
        self.name, self.fn, self.node = name, fn, node
        self.setters = set(setters or ())

    @property
    def site(self):
        return self.fn.loc(self.node)

    def __repr__(self):
        return '<RName %s set=%s %s>' % (self.name, sorted(self.setters), self.fn.name)


def _strcmp_lit(fn, n, var_d):
    """literal if node n is strcmp(<var d>, "lit") / strcmp("lit", <var d>)"""
    if n.get('k') != 'call' or n.get('q') not in ('strcmp', 'std::strcmp') or len(n.get('args', [])) != 2:
        return None
    a, b = fn.sn(n['args'][0]), fn.sn(n['args'][1])
    for (v, l) in ((a, b), (b, a)):
        if v is not None and l is not None and v.get('k') == 'var' and v.get('d') == var_d and l.get('k') == 'lit' and 'str' in l:
            return l['str']
    return None


def _char_name_conditions(fn, var_d):
    """Names tested character-wise: `name[0] == 'k' && name[1] == '\\0'`  ->  [('k', cond node id)]"""
    out = []
    for b in fn.blocks.values():
        if 'cond' not in b or len(b['succs']) != 2 or b.get('termcls') == 'BinaryOperator':
            continue
        conj = []
        _expand(fn, b['cond'], True, b['id'], conj)
        chars = {}
        for (c, sense, _d) in conj:
            n = fn.sn(c)
            if not sense or n is None or n.get('k') != 'binop' or n['op'] != '==':
                continue
            l, r = fn.sn(n['lhs']), fn.sn(n['rhs'])
            if l is not None and l.get('k') == 'index':
                base = fn.sn(l['base'])
                i = fn.const_value(l['idx'])
                v = fn.const_value(n['rhs'])
                if base is not None and base.get('k') == 'var' and base.get('d') == var_d and i is not None and v is not None:
                    chars[i] = v
        if chars and 0 in chars:
            s = ''
            i = 0
            while i in chars and chars[i] != 0:
                s += chr(chars[i])
                i += 1
            if chars.get(i) == 0 and s:
                out.append((s, b['cond']))
    return out


def _guard_is(fn, c, s, node, sense):
    """Does branch outcome (c, s) say that expression `node` evaluated to `sense` (as a truth value)?  Accepts the
    spellings `node`, `node == 0`, `node != 0`, `0 == node`."""
    x = fn.strip(c)
    if x == node:
        return s == sense
    n = fn.nodes.get(x)
    if n is not None and n.get('k') == 'binop' and n['op'] in ('==', '!='):
        for a, b in ((n['lhs'], n['rhs']), (n['rhs'], n['lhs'])):
            if fn.strip(a) == node and fn.const_value(b) == 0:
                truth = s if n['op'] == '!=' else (not s)
                return truth == sense
    return False


def setters_under(fn, cond_node, sense, value_d=None):
    """Entity setter names called in the region of fn guarded by (cond_node, sense); plus receiver-chain accessors."""
    out = set()
    outer = fn.fb.by_id.get((fn.unit, fn.outer)) if fn.is_lambda and fn.outer is not None else None
    for n in fn.all_nodes():
        if n.get('k') not in ('call', 'assign') or n['id'] not in fn.positions():
            continue
        is_store = n.get('k') == 'assign' or (n.get('k') == 'call' and n.get('op') == '=' and n.get('recv') is not None)
        if n.get('k') == 'call' and not is_store and not is_entity_class(n.get('rcls')):
            continue
        gs = edge_guards(fn, n['id'])
        if not any(_guard_is(fn, c, s, cond_node, sense) for (c, s, _b) in gs):
            continue
        if is_store:
            # `captured = f(value)` inside a lambda: follow the captured local in the enclosing function to where it is stored
            tgt = fn.sn(n['lhs'] if n.get('k') == 'assign' else n['recv'])
            if outer is not None and tgt is not None and tgt.get('k') == 'var':
                for m in outer.all_nodes():
                    if m.get('k') == 'var' and m.get('d') == tgt.get('d'):
                        out |= {t for t in value_sinks(fn.fb, outer, m['id']) if t != 'return'}
            continue
        nm = n['q'].rsplit('::', 1)[-1]
        if nm.startswith(('set_', 'add_')):
            out.add(nm)
            if n.get('recv') is not None:
                out |= entity_accessors(fn, n['recv'])
    return out


def accepted_values(fb, rn):
    """String constants the reader compares the *value* of attribute rn against (directly, or inside the setter the value is
    handed to): the only values it accepts / distinguishes.  Empty set = free-form value."""
    fn = rn.fn
    out = set()
    dv = getattr(rn, 'value_d', None)
    if dv is None:
        if len(fn.params) < 2:
            return out
        dv = fn.params[1]['d']
    for n in fn.all_nodes():
        if n.get('k') != 'call' or n['id'] not in fn.positions():
            continue
        gs = edge_guards(fn, n['id'])
        if not any(_guard_is(fn, c, s, rn.node, False) for (c, s, _b) in gs):
            continue
        lit = _strcmp_lit(fn, n, dv)
        if lit is not None:
            out.add(lit)
        if n.get('u') and n.get('args') and is_entity_class(n.get('rcls')):
            for i, a in enumerate(n['args']):
                r = fn.root_var(a)
                if r is not None and r[0] == 'var' and r[1] == dv:
                    for g in fb.by_usr.get(n['u'], []):
                        if g.has_cfg and i < len(g.params):
                            for m in g.all_nodes():
                                l2 = _strcmp_lit(g, m, g.params[i]['d'])
                                if l2 is not None:
                                    out.add(l2)
                            break
    return out


def name_dispatch(fb, fn, depth=0, seen=None, name_idx=0, value_idx=1):
    """[RName] for a function / lambda one of whose parameters (name_idx) is the attribute name (const char*): strcmp and char-wise
    tests on it, and, through calls that pass the name on (at any argument position), the callee's tests."""
    out = []
    seen = set() if seen is None else seen
    if (id(fn), name_idx) in seen or depth > 4 or name_idx >= len(fn.params):
        return out
    seen.add((id(fn), name_idx))
    d0 = fn.params[name_idx]['d']
    dv = fn.params[value_idx]['d'] if value_idx is not None and value_idx < len(fn.params) else None
    for n in fn.all_nodes():
        lit = _strcmp_lit(fn, n, d0)
        if lit is not None:
            rn = RName(lit, fn, n['id'], setters_under(fn, n['id'], False))
            rn.value_d = dv
            out.append(rn)
    for (s, cond) in _char_name_conditions(fn, d0):
        rn = RName(s, fn, fn.strip(cond), set())
        rn.value_d = dv
        out.append(rn)
    for c in fn.all_nodes():
        if c.get('k') == 'call' and c.get('u') and c.get('args'):
            ni = vi = None
            for i, a in enumerate(c['args']):
                r = fn.root_var(a)
                if r is not None and r[0] == 'var' and r[1] == d0:
                    ni = i
                elif r is not None and r[0] == 'var' and dv is not None and r[1] == dv:
                    vi = i
            if ni is None:
                continue
            for g in fb.by_usr.get(c['u'], []):
                if g.has_cfg and ni < len(g.params) and g.params[ni]['tC'].replace('&&', '').replace('&', '').replace('const', '').replace(' ', '') in ('char*',):
                    out.extend(name_dispatch(fb, g, depth + 1, seen, ni, vi))
                    break
    return out


def xml_reader_vocab(fb, parser_cls):
    """(elements {name: site}, attrs {element: {attr: [RName]}}, problems)"""
    elements = {}
    attrs = {}
    problems = []
    fns = [f for f in fb.functions if f.has_cfg and f.cls == parser_cls and not f.is_lambda]
    for F in fns:
        tys = [p['tC'] for p in F.params]
        if not ('const char *' in tys and 'const char **' in tys):
            continue
        pe = F.params[tys.index('const char *')]['d']
        pa = F.params[tys.index('const char **')]['d']
        el_tests = {}
        for n in F.all_nodes():
            lit = _strcmp_lit(F, n, pe)
            if lit is not None:
                el_tests[n['id']] = lit
                elements.setdefault(lit, F.loc(n['id']))
        if not el_tests:
            continue
        # attribute sites: calls that receive `attrs`
        for c in F.all_nodes():
            if c.get('k') != 'call' or not c.get('args') or c['id'] not in F.positions():
                continue
            if not any((F.sn(a) or {}).get('k') == 'var' and (F.sn(a) or {}).get('d') == pa for a in c['args']):
                continue
            if any((F.sn(a) or {}).get('k') == 'var' and (F.sn(a) or {}).get('d') == pe for a in c['args']):
                continue   # hands element *and* attributes on: a dispatcher, analysed as a function of its own
            names = _attr_names_of_call(fb, F, c, pa)
            gs = edge_guards(F, c['id'])
            els = [el for (g, s, _b) in gs for (tid, el) in el_tests.items() if _guard_is(F, g, s, tid, False)]
            if not els:
                els = sorted(set(el_tests.values()))
            for el in els:
                for rn in names:
                    lst = attrs.setdefault(el, {}).setdefault(rn.name, [])
                    if not any(x.fn.pat == rn.fn.pat and x.fn.nodes[x.node].get('o') == rn.fn.nodes[rn.node].get('o') for x in lst):
                        lst.append(rn)
    return elements, attrs, problems


def _attr_names_of_call(fb, F, c, pa, depth=0):
    """Attribute names accepted by call c of F which is handed the attribute array."""
    out = []
    # lambdas among the arguments: their first parameter is the name
    for a in c['args']:
        for x in F.subtree(a):
            nx = F.nodes[x]
            if nx.get('k') == 'lambda':
                g = fb.lambda_fn(F, nx)
                if g is not None and len(g.params) >= 2:
                    out.extend(name_dispatch(fb, g))
    if out or depth > 3:
        return out
    # a helper that receives the attribute array itself
    for i, a in enumerate(c['args']):
        s = F.sn(a)
        if s is not None and s.get('k') == 'var' and s.get('d') == pa:
            for g in fb.by_usr.get(c.get('u'), []):
                if not g.has_cfg or i >= len(g.params):
                    continue
                pd = g.params[i]['d']
                for cc in g.all_nodes():
                    if cc.get('k') == 'call' and cc.get('args') and cc['id'] in g.positions():
                        if any((g.sn(x) or {}).get('k') == 'var' and (g.sn(x) or {}).get('d') == pd for x in cc['args']):
                            out.extend(_attr_names_of_call(fb, g, cc, pd, depth + 1))
                break
    return out


# ------------------------------------------------------------------------------------------------ OPL writer / reader

def opl_writer_fields(fb, cls, handlers=('node', 'way', 'relation', 'changeset')):
    """{kind: [WField]} -- every alphabetic character the OPL writer can emit for an object kind (closure over the
    helpers the handler calls), with the entity accessors that feed the value written right after it."""
    fns = writer_functions(fb, (cls,))
    usrs = {f.usr for f in fns}
    naming = {id(f) for f in fns if any(e.kind == 'param' for e in out_events(fb, f, usrs))}

    def is_value(e):
        if e.kind == 'value':
            return True
        return e.kind == 'call' and not any(id(g) in naming for g in e.callees) and bool(
            entity_accessors(e.fn, e.node) or param_refs(e.fn, e.node))

    def is_name(e):
        return e.kind in ('lit', 'param') or (e.kind == 'call' and any(id(g) in naming for g in e.callees))

    summaries = {id(f): name_param_summary(fb, f, out_events(fb, f, usrs), is_value) for f in fns}
    out = {}
    for h in handlers:
        roots = [f for f in fns if f.cls == cls and f.name == h]
        fields = []
        seen = set()
        work = [(f, 0) for f in roots]
        while work:
            f, depth = work.pop()
            if id(f) in seen or depth > 5:
                continue
            seen.add(id(f))
            evs = out_events(fb, f, usrs)
            for e in evs:
                if e.kind in ('lit', 'value') and e.texts:
                    for t in e.texts:
                        for ch in t:
                            if ch.isalpha():
                                w = WField(ch, f, e.node, kind='letter')
                                if e.kind == 'value':
                                    w.getters |= entity_accessors(f, e.node)
                                    w.const = True
                                elif t.endswith(ch):
                                    for v in nearest_after(f, e, evs, is_name, is_value):
                                        w.getters |= entity_accessors(f, v.node)
                                fields.append(w)
                elif e.kind == 'call':
                    c = f.nodes[e.node]
                    for g in e.callees[:1]:
                        for pi, (vps, acc) in summaries.get(id(g), {}).items():
                            if pi >= len(c.get('args', [])):
                                continue
                            texts = _literal_texts(f, c['args'][pi])
                            if texts is None:
                                continue
                            for t in texts:
                                for ch in t:
                                    if ch.isalpha():
                                        w = WField(ch, f, e.node, getters=set(acc), kind='letter')
                                        w.paired = True
                                        for vp in vps:
                                            if vp < len(c['args']):
                                                w.getters |= entity_accessors(f, c['args'][vp])
                                        fields.append(w)
                    for g in e.callees:
                        work.append((g, depth + 1))
        out[h] = fields
    return out


class OplCase:
    def __init__(self, letter, fn, node, setters):
        self.name, self.fn, self.node, self.setters = letter, fn, node, setters

    @property
    def site(self):
        return self.fn.loc(self.node)


def _char_constants(fn):
    """Character constants a parser function compares its input against or demands (opl_parse_char(.., 'c'))."""
    out = set()
    for n in fn.all_nodes():
        if n.get('k') == 'binop' and n['op'] in ('==', '!='):
            for side in (n['lhs'], n['rhs']):
                s = fn.sn(side)
                if s is not None and s.get('k') == 'lit' and s.get('char') and 'cv' in s:
                    out.add(chr(int(s['cv']) & 0xff))
        if n.get('k') == 'call' and n.get('args'):
            for a in n['args']:
                s = fn.sn(a)
                if s is not None and s.get('k') == 'lit' and s.get('char') and 'cv' in s and n.get('q', '').startswith('osmium::io::detail::opl_'):
                    out.add(chr(int(s['cv']) & 0xff))
    return out


def opl_reader_vocab(fb, ns='osmium::io::detail::'):
    """{kind: {'cases': {letter: OplCase}, 'nested': set(chars), 'type_letters': set, 'fn': Fn}}"""
    out = {}
    line = [f for f in fb.fns(ns + 'opl_parse_line') if f.has_cfg]
    for kind in ('node', 'way', 'relation', 'changeset'):
        fns = [f for f in fb.fns(ns + 'opl_parse_' + kind) if f.has_cfg]
        if not fns:
            continue
        F = fns[0]
        cases = {}
        from .codec import _case_regions
        for b in F.blocks.values():
            if b.get('termcls') != 'SwitchStmt':
                continue
            for (s, lab, lo, hi) in _case_regions(F, b['id']):
                if 'case' not in lab:
                    continue
                v = F.const_value(lab['case'])
                if v is None:
                    continue
                setters = set()
                for n in F.all_nodes():
                    if n.get('k') == 'call' and lo <= n.get('o', -1) < hi and is_entity_class(n.get('rcls')):
                        nm = n['q'].rsplit('::', 1)[-1]
                        if nm.startswith(('set_', 'add_')):
                            setters.add(nm)
                            if n.get('recv') is not None:
                                setters |= entity_accessors(F, n['recv'])
                    elif n.get('k') == 'call' and lo <= n.get('o', -1) < hi and n.get('u') and not n.get('q', '').startswith(ns + 'opl_parse_') \
                            and any(is_entity_class((F.sn(a) or {}).get('t', '').replace('const ', '').rstrip('&* ').strip()) for a in n.get('args', [])):
                        # the body of the case moved into a helper that is handed the builder
                        for g in fb.by_usr.get(n['u'], []):
                            if g.has_cfg and g.file == F.file:
                                for m in g.all_nodes():
                                    if m.get('k') == 'call' and is_entity_class(m.get('rcls')):
                                        nm = m['q'].rsplit('::', 1)[-1]
                                        if nm.startswith(('set_', 'add_')):
                                            setters.add(nm)
                                            if m.get('recv') is not None:
                                                setters |= entity_accessors(g, m['recv'])
                                break
                cases[chr(v & 0xff)] = OplCase(chr(v & 0xff), F, lab['case'], setters)
        # the same dispatch written as an if-chain: `if (c == 'v') { ... } else if (c == 'd') ...` on a local character
        for n in F.all_nodes():
            if n.get('k') != 'binop' or n.get('op') != '==' or n['id'] not in F.positions():
                continue
            for (a, b) in ((n['lhs'], n['rhs']), (n['rhs'], n['lhs'])):
                va, lb = F.sn(a), F.sn(b)
                if va is not None and va.get('k') == 'var' and va.get('vk', 'local') == 'local' and lb is not None and lb.get('k') == 'lit' \
                        and lb.get('char') and 'cv' in lb:
                    ch = chr(int(lb['cv']) & 0xff)
                    if not ch.isalpha() or ch in cases:
                        continue
                    setters = set()
                    for m in F.all_nodes():
                        if m.get('k') == 'call' and m['id'] in F.positions() and is_entity_class(m.get('rcls')):
                            nm = m['q'].rsplit('::', 1)[-1]
                            if nm.startswith(('set_', 'add_')) and any(F.strip(g) == n['id'] and sg for (g, sg, _b) in edge_guards(F, m['id'])):
                                setters.add(nm)
                                if m.get('recv') is not None:
                                    setters |= entity_accessors(F, m['recv'])
                    cases[ch] = OplCase(ch, F, n['id'], setters)
        nested = set()
        for qn in fb.callees_closure(F, depth=4):
            if qn.startswith(ns + 'opl_'):
                for g in fb.fns(qn):
                    if g.has_cfg:
                        nested |= _char_constants(g)
        type_letters = set()
        for L in line:
            for b in L.blocks.values():
                if b.get('termcls') != 'SwitchStmt':
                    continue
                for (s, lab, lo, hi) in _case_regions(L, b['id']):
                    if 'case' not in lab:
                        continue
                    v = L.const_value(lab['case'])
                    if v is None:
                        continue
                    if any(n.get('k') == 'call' and n.get('q') == F.q and lo <= n.get('o', -1) < hi for n in L.all_nodes()):
                        type_letters.add(chr(v & 0xff))
        out[kind] = {'cases': cases, 'nested': nested, 'type_letters': type_letters, 'fn': F}
    return out


# ------------------------------------------------------------------------------------------------ value flow to sinks (PBF reader)

PASS_THROUGH = ('osmium::DeltaDecode::update', 'std::vector::at', 'std::vector::operator[]', 'std::move', 'std::forward')


def value_sinks(fb, fn, nid, depth=0, seen=None, ret_to=()):
    """Where does the value computed at node nid end up?  Set of tokens:
         'set_x' / 'add_y#i' / 'convert_z'   entity setter, builder call (argument index), or member function of fn's own class
         'Location#i'                        i-th argument of an osmium::Location constructor
         'return'                            returned from fn
       Follows casts, arithmetic, DeltaDecode::update, container lookups, initialisation of / assignment to locals (and the
       later uses of those locals)."""
    out = set()
    seen = set() if seen is None else seen
    if (id(fn), nid) in seen or depth > 6:
        return out
    seen.add((id(fn), nid))
    pm = fn.parent_map()
    x = nid
    hops = 0
    while x in pm and hops < 40:
        p = fn.nodes[pm[x]]
        hops += 1
        k = p.get('k')
        if k in ('wrap', 'icast', 'cast', 'unop'):
            x = p['id']
            continue
        if k == 'binop':
            if p['op'] in ('<', '<=', '>', '>=', '&&', '||'):
                return out           # only tested, not stored
            x = p['id']              # arithmetic; `v != 0` turns a varint into the bool that is stored
            continue
        if k == 'condop':
            if x == p.get('cond'):
                return out
            x = p['id']
            continue
        if k == 'member':          # u.first / u.second of a looked-up pair
            x = p['id']
            continue
        if k == 'construct':
            rc = p.get('rcls', '')
            if rc == 'osmium::Location' and len(p.get('args', [])) == 2 and x in p['args']:
                out.add('Location#%d' % p['args'].index(x))
            x = p['id']
            continue
        if k == 'call':
            q = p.get('q', '')
            if q in PASS_THROUGH or q.startswith('std::pair::'):
                if p.get('op') == '=' and p.get('recv') is not None and x in p.get('args', []):
                    r = fn.root_var(p['recv'])
                    if r is not None and r[0] == 'var':
                        out |= _var_uses(fb, fn, r[1], depth, seen)
                    return out
                x = p['id']
                continue
            args = p.get('args', [])
            nm = q.rsplit('::', 1)[-1]
            if x in args:
                i = args.index(x)
                if is_entity_class(p.get('rcls')):
                    out.add(nm if nm.startswith('set_') and len(args) == 1 else '%s/%d#%d' % (nm, len(args), i))
                    return out
                callee = next((g for g in fb.by_usr.get(p.get('u'), []) if g.has_cfg and i < len(g.params)), None)
                if p.get('rcls') == fn.cls and fn.cls:
                    # helper of the decoder itself: what does it do with the parameter?  A pure conversion (convert_pbf_lon) is named
                    # and its result followed; a helper that stores the value (set_way_id) contributes the sinks inside it.
                    sub = set()
                    if callee is not None and depth < 4:
                        sub = _var_uses(fb, callee, callee.params[i]['d'], depth + 1, seen)
                    stored = {t for t in sub if t != 'return'}
                    out |= stored
                    if not stored:
                        out.add(nm)
                    if callee is None or 'return' in sub or not stored:
                        x = p['id']
                        continue
                    return out
                if callee is not None and callee.file.startswith(fn.file.rsplit('/include/osmium/', 1)[0] + '/include/osmium/') and depth < 4 \
                        and not q.startswith('std::'):
                    # any other library function with a body: where does its parameter go?
                    sub = _var_uses(fb, callee, callee.params[i]['d'], depth + 1, seen)
                    out |= {t for t in sub if t != 'return'}
                    if 'return' in sub:
                        x = p['id']
                        continue
                    return out
                if p.get('op') == '=' and p.get('recv') is not None:
                    r = fn.root_var(p['recv'])
                    if r is not None and r[0] == 'var':
                        out |= _var_uses(fb, fn, r[1], depth, seen)
                    return out
                return out
            if p.get('recv') is not None and x == p['recv']:
                x = p['id']        # method called on the value (e.g. .first) -> follow the result
                continue
            return out
        if k == 'assign':
            if x == p.get('rhs'):
                r = fn.root_var(p['lhs'])
                if r is not None and r[0] == 'var':
                    out |= _var_uses(fb, fn, r[1], depth, seen)
            return out
        if k == 'decl':
            for v in p['vars']:
                if isinstance(v.get('init'), int) and x in fn.subtree(v['init']):
                    out |= _var_uses(fb, fn, v['d'], depth, seen)
            return out
        if k == 'return':
            if ret_to:
                (cf, cn) = ret_to[-1]
                out |= value_sinks(fb, cf, cn, depth + 1, seen, ret_to[:-1])
            else:
                out.add('return')
            return out
        return out
    return out


def _var_uses(fb, fn, d, depth, seen):
    out = set()
    for n in fn.all_nodes():
        if n.get('k') == 'var' and n.get('d') == d:
            out |= value_sinks(fb, fn, n['id'], depth + 1, seen)
    return out


# ------------------------------------------------------------------------------------------------ XML self-closing elements

def _is_collection_call(fb, n):
    """call on an OSM entity that returns one of its sub-collections (a record derived from osmium::memory::Item)"""
    if n.get('k') != 'call' or not is_entity_class(n.get('rcls')) or 'q' not in n:
        return False
    t = (n.get('t') or '').replace('const ', '').rstrip('&* ').strip()
    r = fb.record(t.split('<', 1)[0]) if t else None
    if r is not None:
        return 'osmium::memory::Item' in r.allbases and 'osmium::OSMEntity' not in r.allbases
    # record outside the analysed roots: a type whose values are iterated / tested for emptiness through the osmium container API
    ct = getattr(fb, '_c01_coll_types', None)
    if ct is None:
        ct = set()
        for f in fb.functions:
            if not f.has_cfg:
                continue
            for c in f.all_nodes():
                if c.get('k') == 'call' and c.get('recv') is not None and c.get('q', '').startswith('osmium::') \
                        and c['q'].rsplit('::', 1)[-1] in ('begin', 'end', 'cbegin', 'cend', 'empty'):
                    rt = ((f.sn(c['recv']) or {}).get('t') or '').replace('const ', '').rstrip('&* ').strip()
                    if rt:
                        ct.add(rt)
        fb._c01_coll_types = ct
    return t in ct


_EMPTY_TESTS = ('empty', 'size', 'begin', 'end', 'cbegin', 'cend')


def _used_for_emptiness_only(fn, nid):
    pm = fn.parent_map()
    x = nid
    hops = 0
    while x in pm and hops < 6:
        p = fn.nodes[pm[x]]
        hops += 1
        if p.get('k') in ('wrap', 'icast', 'cast'):
            x = p['id']
            continue
        if p.get('k') == 'member' and p.get('name') in ('empty', 'size'):
            return True
        if p.get('k') == 'call' and p.get('recv') == x and p.get('q', '').rsplit('::', 1)[-1] in ('empty', 'size'):
            return True
        return False
    return False


def written_collections(fb, fn, depth=0, seen=None):
    """Names of the sub-collection accessors whose result fn (or a helper it hands the entity / collection to) writes."""
    out = set()
    seen = set() if seen is None else seen
    if id(fn) in seen or depth > 2:
        return out
    seen.add(id(fn))
    for n in fn.all_nodes():
        if _is_collection_call(fb, n) and not _used_for_emptiness_only(fn, n['id']):
            out.add(n['q'].rsplit('::', 1)[-1])
        elif n.get('k') == 'call' and n.get('u') and n.get('rcls') == fn.cls and fn.cls and n.get('args'):
            # a helper of the writer that is handed the whole entity
            if any(is_entity_class(((fn.sn(a) or {}).get('t') or '').replace('const ', '').rstrip('&* ').strip()) and (fn.sn(a) or {}).get('k') == 'var'
                   for a in n['args']):
                for g in fb.by_usr.get(n['u'], []):
                    if g.has_cfg:
                        out |= written_collections(fb, g, depth + 1, seen)
                        break
    return out


def xml_self_closing_sites(fb, classes):
    """[(fn, literal node, root element, written collections)] for every `/>` literal that closes the root element of the function
    that opened it (not a child element written in a loop)."""
    fns = writer_functions(fb, classes)
    usrs = {f.usr for f in fns}
    out = []
    seen = set()
    for f in fns:
        if f.cls not in classes or f.pat in seen:
            continue
        evs = out_events(fb, f, usrs)
        opens = []
        closes = []
        for e in evs:
            if e.kind != 'lit':
                continue
            for t in e.texts:
                for m in _XML_TOKEN.finditer(t):
                    if m.group(1):
                        opens.append((e.node, m.start(), m.group(1)))
                if t.lstrip('"').startswith('/>'):
                    closes.append(e.node)
        if not closes or not opens:
            continue
        seen.add(f.pat)
        for c in closes:
            doms = [o for o in opens if f.elem_dominates(o[0], c)]
            if not doms:
                continue
            # nearest dominating open
            best = doms[0]
            for o in doms[1:]:
                if f.elem_dominates(best[0], o[0]) or (best[0] == o[0] and best[1] < o[1]):
                    best = o
            inloop = any(f.in_range(best[0], l['b'], l['e']) for l in f.loops)
            is_root = all(o is best or f.elem_dominates(best[0], o[0]) or (o[0] == best[0]) for o in opens)
            if inloop or not is_root:
                continue
            out.append((f, c, best[2], written_collections(fb, f)))
    return out


def _begin_end_pair(fn, n):
    """collection name if n compares X.c().begin() with X.c().end() (built-in or overloaded ==/!=)"""
    if n.get('k') == 'binop':
        sides = [n['lhs'], n['rhs']]
    else:
        sides = ([n['recv']] if n.get('recv') is not None else []) + list(n.get('args', []))
    if len(sides) != 2:
        return None
    names, colls = set(), set()
    for x in sides:
        c = fn.sn(x)
        hops = 0
        while c is not None and c.get('k') == 'construct' and c.get('args') and hops < 3:
            c = fn.sn(c['args'][0])
            hops += 1
        if c is None or c.get('k') != 'call' or c.get('recv') is None:
            return None
        names.add(c.get('q', '').rsplit('::', 1)[-1].lstrip('c'))
        for y in fn.subtree(c['recv']):
            m = fn.nodes[y]
            if m.get('k') == 'call' and is_entity_class(m.get('rcls')):
                colls.add(m['q'].rsplit('::', 1)[-1])
    if names == {'begin', 'end'} and len(colls) == 1:
        return next(iter(colls))
    return None


def emptiness_guards(fb, fn, nid):
    """Sub-collections known to be empty when node nid executes: X.c().empty(), X.c().size() == 0, !X.c().size() ..."""
    out = set()

    def coll_of(x):
        for y in fn.subtree(x):
            n = fn.nodes[y]
            if _is_collection_call(fb, n):
                return n['q'].rsplit('::', 1)[-1]
        return None
    from .codec import through_locals
    for (c, s, _b) in edge_guards(fn, nid):
        n = through_locals(fn, c)
        if n is None:
            continue
        if n.get('k') == 'call' and n.get('q', '').rsplit('::', 1)[-1] == 'empty' and s and n.get('recv') is not None:
            nm = coll_of(n['recv'])
            if nm:
                out.add(nm)
        elif n.get('k') == 'call' and n.get('q', '').rsplit('::', 1)[-1] == 'size' and not s and n.get('recv') is not None:
            nm = coll_of(n['recv'])      # `!x.size()` / `if (x.size()) {} else {...}`
            if nm:
                out.add(nm)
        elif (n.get('k') in ('binop', 'call') and n.get('op') in ('==', '!=') and
              _begin_end_pair(fn, n) is not None):
            # x.begin() == x.end()
            if s == (n['op'] == '=='):
                out.add(_begin_end_pair(fn, n))
        elif n.get('k') == 'binop' and n.get('op') in ('==', '!=', '>', '<', '<=', '>='):
            for (a, b, op) in ((n['lhs'], n['rhs'], n['op']), (n['rhs'], n['lhs'], {'>': '<', '<': '>', '<=': '>=', '>=': '<='}.get(n['op'], n['op']))):
                ca = through_locals(fn, a)
                if ca is not None and ca.get('k') == 'call' and ca.get('q', '').rsplit('::', 1)[-1] == 'size' and ca.get('recv') is not None:
                    v = fn.const_value(b)
                    nm = coll_of(ca['recv'])
                    if nm is None or v is None:
                        continue
                    # size op v holds (s) / does not hold (not s): is size == 0 implied?
                    import operator
                    ops = {'==': operator.eq, '!=': operator.ne, '>': operator.gt, '<': operator.lt, '<=': operator.le, '>=': operator.ge}
                    sat = [k for k in range(0, 4) if ops[op](k, v) == s]
                    if sat == [0]:
                        out.add(nm)
    return out


# ------------------------------------------------------------------------------------------------ formatters / strict parsers

def may_return_empty_string(fb, g):
    """Can the std::string-returning function g return a default-constructed (empty) string: it returns a local that was
    constructed without arguments and some path to the return never touches that local."""
    from .flow import path_search
    if not g.has_cfg:
        return None
    for r in g.all_nodes():
        if r.get('k') != 'return' or 'sub' not in r:
            continue
        rv = g.root_var(r['sub'])
        if rv is None or rv[0] != 'var':
            continue
        d = rv[1]
        decl = None
        for n in g.all_nodes():
            if n.get('k') == 'decl':
                for v in n['vars']:
                    if v['d'] == d and v.get('tC', '').startswith('std::basic_string'):
                        init = g.sn(v['init']) if isinstance(v.get('init'), int) else None
                        if init is None or (init.get('k') == 'construct' and not init.get('args')):
                            decl = n['id']
        if decl is None:
            continue
        touch = set()
        for n in g.all_nodes():
            if n.get('k') == 'call' and n['id'] in g.positions():
                if any(g.nodes[x].get('k') == 'var' and g.nodes[x].get('d') == d for x in g.subtree(n['id'])):
                    touch.add(n['id'])
        if path_search(g, decl, lambda x: x == r['id'], lambda x: x in touch) is not None:
            return True
    return False


def strict_value_parsers(fb, rn, names=('osmium::detail::parse_timestamp',)):
    """Does the reader hand the value of attribute rn, without testing it first, to a parser that throws on an empty string
    (closure of the callee, depth 2)?  Returns the call site or None."""
    fn = rn.fn
    dv = getattr(rn, 'value_d', None)
    if dv is None:
        if len(fn.params) < 2:
            return None
        dv = fn.params[1]['d']

    def reaches(g, depth):
        for c in g.calls():
            if c.get('q') in names:
                return True
            if depth < 2:
                for h in fb.by_usr.get(c.get('u'), []):
                    if h.has_cfg and h.file.find('/osmium/') >= 0 and reaches(h, depth + 1):
                        return True
                    break
        return False
    for n in fn.all_nodes():
        if n.get('k') not in ('call', 'construct') or not n.get('args') or not n.get('u'):
            continue
        if not any((fn.root_var(a) or (None, None))[:2] == ('var', dv) for a in n['args']):
            continue
        pos_node = n['id']
        x = pos_node
        pm = fn.parent_map()
        while x not in fn.positions() and x in pm:
            x = pm[x]
        gs = edge_guards(fn, x)
        if not any(_guard_is(fn, c, s, rn.node, False) for (c, s, _b) in gs):
            continue
        # a test of the value itself (emptiness) makes the parser call conditional
        if any(any(fn.nodes[y].get('k') == 'var' and fn.nodes[y].get('d') == dv for y in fn.subtree(c)) for (c, s, _b) in gs):
            continue
        if n.get('q') in names:
            return fn.loc(n['id'])
        for h in fb.by_usr.get(n['u'], []):
            if h.has_cfg and reaches(h, 0):
                return fn.loc(n['id'])
            break
    return None
