"""CHARSET engine (DESIGN.md section 3): exact truth sets of character predicates.

Two small abstract domains over the expression trees of the fact base.  Nothing is executed and nothing is sampled:
both are exact for the operator set they accept and raise `Unsupported` for everything else (the rule then reports
analysis-broken, never a pass or a violation).

1. `Pred` -- interval arithmetic.  For a boolean expression over ONE free integer variable (the "leaf": a code point,
   a byte read through a cursor, a parameter) it computes the exact set of values of the leaf, inside a given domain
   (default: the code points 0..0x10FFFF), for which the expression is true.  Sets are finite unions of closed integer
   intervals (`ISet`).  The evaluation is backward: truth(e) for `&& || !` combines sets; a comparison `t <op> K`
   becomes preimage(t, {y | y <op> K}); preimage() pushes the target set through the arithmetic of `t`
   (+ - * / % << >> & | ^ with a constant operand, unary - ~, integral conversions with two's complement wrap-around,
   ?:, locals with a unique reaching definition) down to the leaf.  Forward interval bounds of every sub-term are used
   only to clip unbounded target sets and to decide whether a conversion / modular operation can wrap.

2. `Bits` -- bit-slice evaluation.  For terms built from shifts, masks, or/xor with constants, disjoint additions and
   integral conversions every result bit is the constant 0/1 or one particular bit of one particular input.  Two
   terms denote the same function iff their bit vectors are equal; this decides "the index is nibble k of the value"
   or "this byte is the UTF-8 continuation byte for payload bits 6..11" for all inputs at once.
"""
from .flow import forward_may

MAXCP = 0x10FFFF
INF = 1 << 80


class Unsupported(Exception):
    """The expression uses an operator / shape the engine cannot evaluate exactly."""


# ------------------------------------------------------------------------------------------------ interval sets

class ISet(object):
    """Immutable finite union of closed integer intervals, normalised (sorted, disjoint, non-adjacent)."""
    __slots__ = ('iv',)

    def __init__(self, ivs=()):
        items = sorted((int(a), int(b)) for (a, b) in ivs if a <= b)
        out = []
        for a, b in items:
            if out and a <= out[-1][1] + 1:
                if b > out[-1][1]:
                    out[-1] = (out[-1][0], b)
            else:
                out.append((a, b))
        self.iv = tuple(out)

    # constructors
    @staticmethod
    def of(*vals):
        return ISet((v, v) for v in vals)

    @staticmethod
    def span(lo, hi):
        return ISet(((lo, hi),))

    # queries
    def __bool__(self):
        return bool(self.iv)

    __nonzero__ = __bool__

    def __eq__(self, other):
        return isinstance(other, ISet) and self.iv == other.iv

    def __ne__(self, other):
        return not self.__eq__(other)

    def __hash__(self):
        return hash(self.iv)

    def __contains__(self, x):
        lo, hi = 0, len(self.iv) - 1
        while lo <= hi:
            mid = (lo + hi) // 2
            a, b = self.iv[mid]
            if x < a:
                hi = mid - 1
            elif x > b:
                lo = mid + 1
            else:
                return True
        return False

    def count(self):
        return sum(b - a + 1 for a, b in self.iv)

    def min(self):
        return self.iv[0][0]

    def max(self):
        return self.iv[-1][1]

    def values(self, limit=100000):
        if self.count() > limit:
            raise Unsupported('set too large to enumerate')
        for a, b in self.iv:
            for v in range(a, b + 1):
                yield v

    def issubset(self, other):
        return not (self - other)

    # algebra
    def __or__(self, other):
        return ISet(self.iv + other.iv)

    def __and__(self, other):
        out = []
        i = j = 0
        A, B = self.iv, other.iv
        while i < len(A) and j < len(B):
            lo = max(A[i][0], B[j][0])
            hi = min(A[i][1], B[j][1])
            if lo <= hi:
                out.append((lo, hi))
            if A[i][1] < B[j][1]:
                i += 1
            else:
                j += 1
        r = ISet()
        r.iv = tuple(out)
        return r

    def __sub__(self, other):
        if not other.iv or not self.iv:
            return self
        comp = []
        prev = -INF
        for a, b in other.iv:
            if prev <= a - 1:
                comp.append((prev, a - 1))
            prev = b + 1
        comp.append((prev, INF))
        return self & ISet(comp)

    def clip(self, lo, hi):
        return self & ISet.span(lo, hi)

    def shift(self, k):
        r = ISet()
        r.iv = tuple((a + k, b + k) for a, b in self.iv)
        return r

    def reflect(self, k):
        """{k - x | x in self}"""
        return ISet((k - b, k - a) for a, b in self.iv)

    def fmt(self, cp=True, limit=12):
        def one(v):
            if v <= -INF // 2:
                return '-inf'
            if v >= INF // 2:
                return '+inf'
            return ('U+%04X' % v) if cp and v >= 0 else str(v)
        parts = [one(a) if a == b else '%s..%s' % (one(a), one(b)) for a, b in self.iv[:limit]]
        if len(self.iv) > limit:
            parts.append('... (%d intervals)' % len(self.iv))
        return '{' + ', '.join(parts) + '}'

    def __repr__(self):
        return 'ISet' + self.fmt(cp=False)


EMPTY = ISet()
CODEPOINTS = ISet.span(0, MAXCP)
ALL = ISet.span(-INF, INF)


def _floordiv_set(T, k):
    """{m | m * k in T}, k > 0."""
    return ISet((-((-a) // k), b // k) for a, b in T.iv)


def _blocks_set(T, k):
    """{m | floor(m / k) in T}, k > 0."""
    return ISet((a * k, b * k + k - 1) for a, b in T.iv)


def _periodic(T, period, lo, hi, base=0):
    """{m in [lo,hi] | base + ((m - base) mod period) in T}: every residue window [base, base+period) shifted."""
    Tw = T.clip(base, base + period - 1)
    if not Tw or lo > hi:
        return EMPTY
    p0 = (lo - base) // period
    p1 = (hi - base) // period
    if (p1 - p0 + 1) * len(Tw.iv) > 4000000:
        raise Unsupported('periodic preimage too large (%d periods)' % (p1 - p0 + 1))
    out = []
    for p in range(p0, p1 + 1):
        off = p * period
        for a, b in Tw.iv:
            out.append((a + off, b + off))
    return ISet(out).clip(lo, hi)


# ------------------------------------------------------------------------------------------------ types

_TYPES = {
    'bool': (False, 1), 'char': (True, 8), 'signed char': (True, 8), 'unsigned char': (False, 8),
    'short': (True, 16), 'unsigned short': (False, 16), 'int': (True, 32), 'unsigned int': (False, 32),
    'long': (True, 64), 'unsigned long': (False, 64), 'long long': (True, 64), 'unsigned long long': (False, 64),
    'char16_t': (False, 16), 'char32_t': (False, 32), 'wchar_t': (True, 32), '__int128': (True, 128), 'unsigned __int128': (False, 128),
}


def int_type(t, char_signed=True):
    """(signed, bits) of a canonical integer type spelling, or None."""
    if t is None:
        return None
    t = t.replace('const ', '').replace('volatile ', '').strip()
    if t.endswith(' const'):
        t = t[:-6]
    if t == 'char':
        return (char_signed, 8)
    return _TYPES.get(t)


def type_range(ty):
    s, b = ty
    return (-(1 << (b - 1)), (1 << (b - 1)) - 1) if s else (0, (1 << b) - 1)


_CMP = ('<', '<=', '>', '>=', '==', '!=')
_TRANSPARENT_CASTS = ('LValueToRValue', 'NoOp', 'ConstructorConversion', 'UserDefinedConversion')


def _contig_mask(m):
    """(lo, width) if m is a non-empty run of consecutive one bits."""
    if m <= 0:
        return None
    lo = (m & -m).bit_length() - 1
    w = (m >> lo)
    if w & (w + 1):
        return None
    return lo, w.bit_length()


# ------------------------------------------------------------------------------------------------ reaching definitions

def unique_def_resolver(fn):
    """Returns resolve(fn, var_node) -> expression node id of the single definition (`T v = e` / `v = e`) that
    reaches this use of a local variable, or None.  Compound assignments, ++/-- and taking the address are opaque
    definitions: a use they can reach resolves to None (flow-sensitive, so an earlier use is still resolved)."""
    cache = {}

    def build():
        defs = {}  # element node id -> [(decl id, expr id | -element id for opaque)]
        for n in fn.all_nodes():
            k = n.get('k')
            if k == 'decl':
                for v in n['vars']:
                    if isinstance(v.get('init'), int):
                        defs.setdefault(n['id'], []).append((v['d'], v['init']))
            elif k == 'assign':
                l = fn.sn(n['lhs'])
                if l is not None and l.get('k') == 'var':
                    defs.setdefault(n['id'], []).append((l['d'], n['rhs'] if n['op'] == '=' else -1 - n['id']))
            elif k == 'unop' and n['op'] in ('++', '--', '&'):
                s = fn.sn(n['sub'])
                if s is not None and s.get('k') == 'var':
                    defs.setdefault(n['id'], []).append((s['d'], -1 - n['id']))

        def transfer(st, node):
            ds = defs.get(node['id'])
            if not ds:
                return st
            killed = {d for (d, _e) in ds}
            return frozenset(x for x in st if x[0] not in killed) | frozenset(ds)
        return forward_may(fn, transfer)

    def resolve(_fn, node):
        if 'rd' not in cache:
            cache['rd'] = build()
        before = cache['rd']
        d = node.get('d')
        if d is None:
            return None
        st = before.get(node['id'])
        if st is None:
            pos = fn.positions().get(node['id'])
            if pos is None:
                return None
            b, i = pos
            elems = fn.blocks[b]['elems']
            st = before.get(elems[i]) if i < len(elems) else before.get(('out', b))
            if st is None:
                return None
        cands = {e for (dd, e) in st if dd == d}
        if len(cands) != 1:
            return None
        e = next(iter(cands))
        return e if e >= 0 else None
    return resolve


def never_modified(fn, d):
    """Local / parameter with decl id d is never assigned, incremented or address-taken in fn."""
    for n in fn.all_nodes():
        k = n.get('k')
        if k == 'assign':
            l = fn.sn(n['lhs'])
            if l is not None and l.get('k') == 'var' and l.get('d') == d:
                return False
        elif k == 'unop' and n['op'] in ('++', '--', '&'):
            s = fn.sn(n['sub'])
            if s is not None and s.get('k') == 'var' and s.get('d') == d:
                return False
    return True


# ------------------------------------------------------------------------------------------------ interval engine

class Pred(object):
    """Exact truth sets / preimages of expressions of `fn` over one free variable.

    leaf(fn, node) -> bool   identifies the occurrences of the free variable (tested on every node before descending)
    domain                   ISet of the values the free variable ranges over
    resolve(fn, var_node)    optional: defining expression of another local (see unique_def_resolver)
    """

    def __init__(self, fn, leaf, domain=CODEPOINTS, resolve=None, char_signed=True, callee=None, consts=None):
        self.consts = consts or {}   # decl id -> integer value (e.g. the induction variable of an unrolled loop)
        self.callee = callee      # optional: callee(fn, call node, argument domain) -> (arg index, truthy argument set) | None
        self.fn = fn
        self.leaf = leaf
        self.domain = domain
        self.resolve = resolve
        self.char_signed = char_signed
        self._depth = 0
        if not domain:
            self.dlo, self.dhi = 0, -1
        else:
            self.dlo, self.dhi = domain.min(), domain.max()

    # -- helpers
    def _ty(self, n):
        return int_type(n.get('t'), self.char_signed)

    def const(self, nid):
        """Integer value of a constant sub-expression (clang-folded), else None."""
        n = self.fn.nodes.get(nid)
        if n is None:
            return None
        if self.leaf(self.fn, n):
            return None
        if 'cv' in n and not n.get('float'):
            try:
                return int(n['cv'])
            except ValueError:
                return None
        k = n.get('k')
        if k == 'var' and n.get('d') in self.consts:
            return self.consts[n['d']]
        if k == 'wrap' and 'sub' in n:
            return self.const(n['sub'])
        if k == 'icast' and n.get('ck') in _TRANSPARENT_CASTS:
            return self.const(n['sub'])
        if k in ('icast', 'cast') and n.get('ck') == 'IntegralCast':
            v = self.const(n['sub'])
            ty = self._ty(n)
            if v is None or ty is None:
                return None
            return _wrap_value(v, ty)
        if k == 'binop' and self.consts and n.get('op') in ('+', '-', '*', '/', '%', '<<', '>>', '&', '|', '^'):
            # constant folding is only needed (and only attempted) when an unrolled loop counter supplies constants
            a, b = self.const(n['lhs']), self.const(n['rhs'])
            ty = self._ty(n)
            if a is None or b is None or ty is None:
                return None
            op = n['op']
            if op in ('/', '%') and (b == 0 or a < 0 or b < 0):
                return None
            if op in ('<<', '>>') and not 0 <= b < 128:
                return None
            if op in ('>>', '&', '|', '^') and (a < 0 or (b < 0 and op != '>>')):
                return None
            v = {'+': lambda: a + b, '-': lambda: a - b, '*': lambda: a * b, '/': lambda: a // b, '%': lambda: a % b, '<<': lambda: a << b,
                 '>>': lambda: a >> b, '&': lambda: a & b, '|': lambda: a | b, '^': lambda: a ^ b}[op]()
            return _wrap_value(v, ty)
        return None

    def _wrapset(self, T, n, mlo, mhi):
        """Set of mathematical results m in [mlo,mhi] whose conversion to n's type lies in T."""
        ty = self._ty(n)
        if ty is None:
            raise Unsupported('non-integer type %r' % n.get('t'))
        lo, hi = type_range(ty)
        if lo <= mlo and mhi <= hi:
            return T.clip(mlo, mhi)
        return _periodic(T, 1 << ty[1], mlo, mhi, base=lo)

    def _wrapbounds(self, n, mlo, mhi):
        ty = self._ty(n)
        if ty is None:
            raise Unsupported('non-integer type %r' % n.get('t'))
        lo, hi = type_range(ty)
        if lo <= mlo and mhi <= hi:
            return (mlo, mhi)
        period = 1 << ty[1]
        if (mlo - lo) // period == (mhi - lo) // period:
            off = ((mlo - lo) // period) * period      # the whole range wraps by the same multiple of 2^bits
            return (mlo - off, mhi - off)
        return (lo, hi)

    # -- forward bounds (conservative, only used for clipping and wrap decisions)
    def bounds(self, nid):
        fn = self.fn
        n = fn.nodes.get(nid)
        if n is None:
            raise Unsupported('missing node')
        if self.leaf(fn, n):
            return (self.dlo, self.dhi)
        c = self.const(nid)
        if c is not None:
            return (c, c)
        k = n.get('k')
        if k == 'wrap':
            return self.bounds(n['sub'])
        if k in ('icast', 'cast'):
            ck = n.get('ck')
            if ck in _TRANSPARENT_CASTS:
                return self.bounds(n['sub'])
            if ck == 'IntegralToBoolean':
                return (0, 1)
            if ck == 'IntegralCast':
                lo, hi = self.bounds(n['sub'])
                return self._wrapbounds(n, lo, hi)
            raise Unsupported('cast kind %s' % ck)
        if k == 'var':
            e = self.resolve(fn, n) if self.resolve else None
            if e is None:
                raise Unsupported('free variable %s besides the analysed one' % n.get('name'))
            return self.bounds(e)
        if k == 'binop':
            op = n['op']
            if op in _CMP or op in ('&&', '||'):
                return (0, 1)
            (al, ah), (bl, bh) = self.bounds(n['lhs']), self.bounds(n['rhs'])
            if op == '+':
                m = (al + bl, ah + bh)
            elif op == '-':
                m = (al - bh, ah - bl)
            elif op == '*':
                cs = [al * bl, al * bh, ah * bl, ah * bh]
                m = (min(cs), max(cs))
            elif op in ('/', '%', '>>', '<<', '&', '|', '^'):
                if al < 0 or bl < 0:
                    raise Unsupported('operator %s on a possibly negative operand' % op)
                if op == '/':
                    if bl == 0:
                        raise Unsupported('division by a possibly zero value')
                    m = (al // bh, ah // bl)
                elif op == '%':
                    if bl == 0:
                        raise Unsupported('division by a possibly zero value')
                    m = (0, min(ah, bh - 1))
                elif op == '>>':
                    m = (al >> min(bh, 200), ah >> bl)
                elif op == '<<':
                    if bh > 128:
                        raise Unsupported('shift count too large')
                    m = (al << bl, ah << bh)
                elif op == '&':
                    m = (0, min(ah, bh))
                else:
                    m = (0, (1 << max(ah.bit_length(), bh.bit_length())) - 1)
            else:
                raise Unsupported('operator %s' % op)
            return self._wrapbounds(n, m[0], m[1])
        if k == 'unop':
            op = n['op']
            if op == '!':
                return (0, 1)
            lo, hi = self.bounds(n['sub'])
            if op == '+':
                return (lo, hi)
            if op == '-':
                return self._wrapbounds(n, -hi, -lo)
            if op == '~':
                return self._wrapbounds(n, -hi - 1, -lo - 1)
            raise Unsupported('unary %s' % op)
        if k == 'condop':
            (al, ah), (bl, bh) = self.bounds(n['then']), self.bounds(n['else'])
            return (min(al, bl), max(ah, bh))
        if k == 'call' and self.callee is not None and int_type(n.get('t')) == (False, 1):
            return (0, 1)
        raise Unsupported('expression kind %s (%s)' % (k, n.get('cls')))

    # -- truth sets
    def truth(self, nid):
        """Subset of the domain for which the (contextually boolean) expression is true / non-zero."""
        fn = self.fn
        n = fn.nodes.get(nid)
        if n is None:
            raise Unsupported('missing node')
        k = n.get('k')
        if not self.leaf(fn, n):
            c = self.const(nid)
            if c is not None:
                return self.domain if c != 0 else EMPTY
            if k == 'wrap':
                return self.truth(n['sub'])
            if k in ('icast', 'cast') and (n.get('ck') in _TRANSPARENT_CASTS or n.get('ck') == 'IntegralToBoolean'):
                return self.truth(n['sub'])
            if k == 'binop':
                op = n['op']
                if op == '&&':
                    return self.truth(n['lhs']) & self.truth(n['rhs'])
                if op == '||':
                    return self.truth(n['lhs']) | self.truth(n['rhs'])
                if op in _CMP:
                    return self._compare(n)
            if k == 'unop' and n['op'] == '!':
                return self.domain - self.truth(n['sub'])
            if k == 'condop':
                c = self.truth(n['cond'])
                return (c & self.truth(n['then'])) | ((self.domain - c) & self.truth(n['else']))
        lo, hi = self.bounds(nid)
        return self.preimage(nid, ISet(((lo, -1), (1, hi))))

    def _compare(self, n):
        op = n['op']
        cl, cr = self.const(n['lhs']), self.const(n['rhs'])
        if cl is not None and cr is not None:
            r = {'<': cl < cr, '<=': cl <= cr, '>': cl > cr, '>=': cl >= cr, '==': cl == cr, '!=': cl != cr}[op]
            return self.domain if r else EMPTY
        if cl is not None:
            op = {'<': '>', '<=': '>=', '>': '<', '>=': '<=', '==': '==', '!=': '!='}[op]
            term, K = n['rhs'], cl
        elif cr is not None:
            term, K = n['lhs'], cr
        else:
            raise Unsupported('comparison of two non-constant operands')
        lo, hi = self.bounds(term)
        if op == '<':
            T = ISet.span(lo, min(hi, K - 1))
        elif op == '<=':
            T = ISet.span(lo, min(hi, K))
        elif op == '>':
            T = ISet.span(max(lo, K + 1), hi)
        elif op == '>=':
            T = ISet.span(max(lo, K), hi)
        elif op == '==':
            T = ISet.of(K).clip(lo, hi)
        else:
            T = ISet.span(lo, hi) - ISet.of(K)
        return self.preimage(term, T)

    # -- preimages
    def preimage(self, nid, T):
        """{x in domain | value of expression nid at leaf = x lies in T}."""
        self._depth += 1
        try:
            if self._depth > 200:
                raise Unsupported('expression too deep / cyclic definition')
            return self._preimage(nid, T)
        finally:
            self._depth -= 1

    def _preimage(self, nid, T):
        fn = self.fn
        n = fn.nodes.get(nid)
        if n is None:
            raise Unsupported('missing node')
        if self.leaf(fn, n):
            return T & self.domain
        c = self.const(nid)
        if c is not None:
            return self.domain if c in T else EMPTY
        k = n.get('k')
        if k == 'wrap':
            return self.preimage(n['sub'], T)
        if k in ('icast', 'cast'):
            ck = n.get('ck')
            if ck in _TRANSPARENT_CASTS:
                return self.preimage(n['sub'], T)
            if ck == 'IntegralToBoolean':
                t = self.truth(n['sub'])
                return (t if 1 in T else EMPTY) | ((self.domain - t) if 0 in T else EMPTY)
            if ck == 'IntegralCast':
                lo, hi = self.bounds(n['sub'])
                return self.preimage(n['sub'], self._wrapset(T, n, lo, hi))
            raise Unsupported('cast kind %s' % ck)
        if k == 'var':
            e = self.resolve(fn, n) if self.resolve else None
            if e is None:
                raise Unsupported('free variable %s besides the analysed one' % n.get('name'))
            return self.preimage(e, T)
        if k == 'call' and self.callee is not None and int_type(n.get('t')) == (False, 1):
            # boolean helper with one integer argument: its body is summarised as the set of arguments it accepts
            args = [a for a in n.get('args', []) if a is not None]
            if len(args) == 1:
                lo, hi = self.bounds(args[0])
                r = self.callee(fn, n, ISet.span(lo, hi), self.char_signed)
                if r is not None:
                    t = self.preimage(args[0], r[1])
                    return (t if 1 in T else EMPTY) | ((self.domain - t) if 0 in T else EMPTY)
            raise Unsupported('call of %s cannot be summarised' % n.get('q', '?'))
        if k == 'condop':
            c = self.truth(n['cond'])
            return (c & self.preimage(n['then'], T)) | ((self.domain - c) & self.preimage(n['else'], T))
        if k == 'unop':
            op = n['op']
            if op == '!':
                t = self.truth(n['sub'])
                return ((self.domain - t) if 1 in T else EMPTY) | (t if 0 in T else EMPTY)
            lo, hi = self.bounds(n['sub'])
            if op == '+':
                return self.preimage(n['sub'], T)
            if op == '-':
                return self.preimage(n['sub'], self._wrapset(T, n, -hi, -lo).reflect(0))
            if op == '~':
                return self.preimage(n['sub'], self._wrapset(T, n, -hi - 1, -lo - 1).reflect(-1))
            raise Unsupported('unary %s' % op)
        if k == 'binop':
            op = n['op']
            if op in _CMP or op in ('&&', '||'):
                t = self.truth(nid)
                return (t if 1 in T else EMPTY) | ((self.domain - t) if 0 in T else EMPTY)
            cl, cr = self.const(n['lhs']), self.const(n['rhs'])
            if cl is None and cr is None:
                raise Unsupported('operator %s with two non-constant operands' % op)
            if cr is not None:
                sub, K, const_right = n['lhs'], cr, True
            else:
                sub, K, const_right = n['rhs'], cl, False
            lo, hi = self.bounds(sub)
            if op == '+':
                return self.preimage(sub, self._wrapset(T, n, lo + K, hi + K).shift(-K))
            if op == '-':
                if const_right:
                    return self.preimage(sub, self._wrapset(T, n, lo - K, hi - K).shift(K))
                return self.preimage(sub, self._wrapset(T, n, K - hi, K - lo).reflect(K))
            if op == '*':
                if K == 0:
                    return self.domain if 0 in T else EMPTY
                if K < 0:
                    raise Unsupported('multiplication by a negative constant')
                return self.preimage(sub, _floordiv_set(self._wrapset(T, n, min(lo * K, hi * K), max(lo * K, hi * K)), K))
            if lo < 0 or K < 0:
                raise Unsupported('operator %s on a possibly negative operand' % op)
            if op == '<<':
                if not const_right:
                    raise Unsupported('shift of a constant by a variable amount')
                if K > 128:
                    raise Unsupported('shift count too large')
                f = 1 << K
                return self.preimage(sub, _floordiv_set(self._wrapset(T, n, lo * f, hi * f), f))
            if op == '>>':
                if not const_right:
                    raise Unsupported('shift of a constant by a variable amount')
                return self.preimage(sub, _blocks_set(T.clip(0, INF), 1 << min(K, 200)).clip(lo, hi))
            if op == '/':
                if not const_right or K == 0:
                    raise Unsupported('division by a variable or zero')
                return self.preimage(sub, _blocks_set(T.clip(0, INF), K).clip(lo, hi))
            if op == '%':
                if not const_right or K == 0:
                    raise Unsupported('modulo by a variable or zero')
                return self.preimage(sub, _periodic(T, K, lo, hi))
            if op == '&':
                cm = _contig_mask(K)
                if K == 0:
                    return self.domain if 0 in T else EMPTY
                if cm is None:
                    # split a general mask into its runs is not a product decomposition; only exact for run masks
                    raise Unsupported('mask %#x is not a run of consecutive bits' % K)
                blo, w = cm
                t1 = _floordiv_set(T.clip(0, INF), 1 << blo)           # {field value f | f << blo in T}
                t2 = _periodic(t1, 1 << w, lo >> blo, hi >> blo)          # (m >> blo) with that residue
                return self.preimage(sub, _blocks_set(t2, 1 << blo).clip(lo, hi))
            if op in ('|', '^'):
                # exact when the constant's bits lie entirely above the operand's possible bits: then it is an addition
                if hi < 0 or (K & ((1 << hi.bit_length()) - 1)) != 0:
                    raise Unsupported('operator %s with overlapping constant bits' % op)
                return self.preimage(sub, T.shift(-K).clip(lo, hi))
            raise Unsupported('operator %s' % op)
        raise Unsupported('expression kind %s (%s)' % (k, n.get('cls')))

    # -- point evaluation of a term (used to read a value table, e.g. digit value of an alphabet character)
    def value_at(self, nid, x):
        """The value of term nid when the leaf has value x (x must be in the domain); exact, via the preimage of
        singletons restricted to {x} -- implemented by a one-point domain."""
        p = Pred(self.fn, self.leaf, ISet.of(x), self.resolve, self.char_signed, self.callee, self.consts)
        lo, hi = p.bounds(nid)
        if lo == hi:
            return lo
        # bisect on the target interval: exactly one y has x in preimage(nid, {y})
        while lo < hi:
            mid = (lo + hi) // 2
            if p.preimage(nid, ISet.span(lo, mid)):
                hi = mid
            else:
                lo = mid + 1
        return lo


def _wrap_value(v, ty):
    s, b = ty
    v &= (1 << b) - 1
    if s and v >= (1 << (b - 1)):
        v -= (1 << b)
    return v


def char_truth(fn, cond, leaf, signed, resolve=None, callee=None):
    """Truth set of a predicate over a plain `char` read from memory, as a set of BYTE values 0..255, under one
    interpretation of plain char (signed: values -128..127, byte b >= 128 is the value b - 256)."""
    if signed:
        s = Pred(fn, leaf, ISet.span(-128, 127), resolve, char_signed=True, callee=callee).truth(cond)
        return s.clip(0, 127) | s.clip(-128, -1).shift(256)
    return Pred(fn, leaf, ISet.span(0, 255), resolve, char_signed=False, callee=callee).truth(cond)


def char_truth_bytes(fn, cond, leaf, resolve=None):
    """As char_truth, but the result must not depend on whether plain char is signed: both interpretations are
    evaluated and have to agree (otherwise Unsupported)."""
    sb = char_truth(fn, cond, leaf, True, resolve)
    u = char_truth(fn, cond, leaf, False, resolve)
    if sb != u:
        raise Unsupported('predicate depends on the signedness of plain char: %s vs %s' % (sb.fmt(), u.fmt()))
    return u


# ------------------------------------------------------------------------------------------------ bit-slice engine

ZERO, ONE = 0, 1
W = 64


class Bits(object):
    """Symbolic bit vectors: each result bit is 0, 1 or (input name, bit index).

    leaf(fn, node) -> input name or None;  widths: {name: number of possibly non-zero low bits of that input}.
    """

    def __init__(self, fn, leaf, widths, resolve=None, char_signed=True, env=None):
        self.fn = fn
        self.leaf = leaf
        self.widths = widths
        self.resolve = resolve
        self.char_signed = char_signed
        self.env = env if env is not None else {}      # decl id -> bit vector (for locals assigned step by step by the caller)
        self._depth = 0

    @staticmethod
    def const_vec(v):
        if v < 0:
            v &= (1 << W) - 1
        return tuple((v >> i) & 1 for i in range(W))

    def input_vec(self, name):
        w = self.widths[name]
        return tuple((name, i) if i < w else ZERO for i in range(W))

    @staticmethod
    def is_const(vec):
        return all(b in (0, 1) for b in vec)

    @staticmethod
    def value(vec):
        return sum(1 << i for i, b in enumerate(vec) if b == 1)

    def _trunc(self, vec, n):
        ty = int_type(n.get('t'), self.char_signed)
        if ty is None:
            raise Unsupported('non-integer type %r' % n.get('t'))
        s, b = ty
        if b >= W:
            return vec
        if s:
            top = vec[b - 1]
            return vec[:b] + (top,) * (W - b)
        return vec[:b] + (ZERO,) * (W - b)

    def eval(self, nid):
        self._depth += 1
        try:
            if self._depth > 200:
                raise Unsupported('expression too deep')
            return self._eval(nid)
        finally:
            self._depth -= 1

    def _eval(self, nid):
        fn = self.fn
        n = fn.nodes.get(nid)
        if n is None:
            raise Unsupported('missing node')
        name = self.leaf(fn, n)
        if name is not None:
            return self.input_vec(name)
        if 'cv' in n and not n.get('float'):
            return self.const_vec(int(n['cv']))
        k = n.get('k')
        if k == 'wrap':
            return self.eval(n['sub'])
        if k in ('icast', 'cast'):
            ck = n.get('ck')
            if ck in _TRANSPARENT_CASTS:
                return self.eval(n['sub'])
            if ck == 'IntegralCast':
                return self._trunc(self.eval(n['sub']), n)
            raise Unsupported('cast kind %s' % ck)
        if k == 'var':
            if n.get('d') in self.env:
                return self.env[n['d']]
            e = self.resolve(fn, n) if self.resolve else None
            if e is None:
                raise Unsupported('free variable %s' % n.get('name'))
            return self.eval(e)
        if k == 'binop':
            op = n['op']
            a, b = self.eval(n['lhs']), self.eval(n['rhs'])
            return self._trunc(self.binop(op, a, b), n)
        raise Unsupported('expression kind %s (%s)' % (k, n.get('cls')))

    def binop(self, op, a, b):
        if op in ('<<', '>>'):
            if not self.is_const(b):
                raise Unsupported('variable shift count')
            kk = self.value(b)
            if kk >= W:
                raise Unsupported('shift count too large')
            if op == '<<':
                return ((ZERO,) * kk + a)[:W]
            if a[W - 1] != ZERO:
                raise Unsupported('right shift of a possibly negative value')
            return a[kk:] + (ZERO,) * kk
        if op == '&':
            return tuple(_and(x, y) for x, y in zip(a, b))
        if op == '|':
            return tuple(_or(x, y) for x, y in zip(a, b))
        if op == '^':
            return tuple(_xor(x, y) for x, y in zip(a, b))
        if op == '+':
            if all(x == ZERO or y == ZERO for x, y in zip(a, b)):
                return tuple(y if x == ZERO else x for x, y in zip(a, b))
            raise Unsupported('addition of operands with overlapping bits')
        raise Unsupported('operator %s' % op)


def _and(x, y):
    if x == ZERO or y == ZERO:
        return ZERO
    if x == ONE:
        return y
    if y == ONE:
        return x
    if x == y:
        return x
    raise Unsupported('and of two different symbolic bits')


def _or(x, y):
    if x == ONE or y == ONE:
        return ONE
    if x == ZERO:
        return y
    if y == ZERO:
        return x
    if x == y:
        return x
    raise Unsupported('or of two different symbolic bits')


def _xor(x, y):
    if x == ZERO:
        return y
    if y == ZERO:
        return x
    if x == ONE and y == ONE:
        return ZERO
    raise Unsupported('xor with a symbolic bit')


def field_vec(name, lo, width):
    """Bit vector of ((input >> lo) & (2^width - 1))."""
    return tuple((name, lo + i) if i < width else ZERO for i in range(W))
