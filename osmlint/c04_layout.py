"""C04 S7: agreement between the bytes a builder reserves for the user name and the offsets the readers compute.

Abstract interpretation of the extracted arithmetic (no libosmium code is run): the quantity `length` is evaluated in a
congruence domain.  An abstract value is  base*B + a*(8k) + c  with  a in N, c in Z, k a symbolic non-negative integer
(k >= K0) and B the (8-aligned) address of the item.  `length` is instantiated once per residue class r = 0..7 as
8k + r (covers every length >= 8*K0) and once per concrete value 0 .. 8*K0-1 (a = 0).  Because 8k is a multiple of the
alignment, masks of the form ~(p-1), p | 8, act on c alone, so `padded_length` is interpreted exactly from its own body.
Equal linear forms are equal for every k, so the 8 + 8*K0 abstract runs decide the obligation for EVERY length.

Comparisons return True / False / None (None: undetermined for k >= K0, both branches are followed).
"""

K0 = 8
ALIGN = 8


class Unknown(Exception):
    pass


class V:
    __slots__ = ('b', 'a', 'c')

    def __init__(self, c, a=0, b=0):
        self.b, self.a, self.c = b, a, c

    def __add__(self, o):
        return V(self.c + o.c, self.a + o.a, self.b + o.b)

    def __sub__(self, o):
        return V(self.c - o.c, self.a - o.a, self.b - o.b)

    def key(self):
        return (self.b, self.a, self.c)

    def __eq__(self, o):
        return self.key() == o.key()

    def __hash__(self):
        return hash(self.key())

    def concrete(self):
        return self.a == 0 and self.b == 0

    def __repr__(self):
        s = []
        if self.b:
            s.append('%sitem' % ('' if self.b == 1 else '%d*' % self.b))
        if self.a:
            s.append('%s8k' % ('' if self.a == 1 else '%d*' % self.a))
        if self.c or not s:
            s.append(str(self.c))
        return '+'.join(s)


def compare(op, x, y):
    """three-valued comparison of two abstract values (k >= K0)"""
    d = x - y
    if d.b != 0:
        return None
    if d.a == 0:
        v = d.c
        return {'<': v < 0, '<=': v <= 0, '>': v > 0, '>=': v >= 0, '==': v == 0, '!=': v != 0}[op]
    # d = a*8k + c with a != 0, k >= K0, unbounded above
    lo = d.a * 8 * K0 + d.c
    if d.a > 0:   # d >= lo, grows
        if op in ('>', '>=', '!=') and (lo > 0 or (op == '>=' and lo >= 0)):
            return True
        if op in ('<', '<=', '==') and (lo > 0 or (op == '<' and lo >= 0)):
            return False
    else:         # d <= lo, decreases
        if op in ('<', '<=', '!=') and (lo < 0 or (op == '<=' and lo <= 0)):
            return True
        if op in ('>', '>=', '==') and (lo < 0 or (op == '>' and lo <= 0)):
            return False
    return None


class Eval:
    """evaluates expressions of one function body; `over` maps callee qnames / member names to abstract values or callables"""

    def __init__(self, fb, fn, env, over, depth=0):
        self.fb, self.fn, self.env, self.over, self.depth = fb, fn, dict(env), over, depth

    def ev(self, nid):
        fn = self.fn
        n = fn.nodes.get(nid)
        if n is None:
            raise Unknown('missing node')
        k = n.get('k')
        if 'cv' in n and not n.get('float'):
            try:
                return V(int(n['cv']))
            except ValueError:
                pass
        if k in ('wrap', 'icast', 'cast'):
            return self.ev(n['sub'])
        if k == 'var':
            if n['d'] in self.env:
                return self.env[n['d']]
            init = self._local_init(n['d'])
            if init is not None:
                v = self.ev(init)
                self.env[n['d']] = v
                return v
            raise Unknown('variable %s' % n.get('name'))
        if k == 'member':
            nm = n.get('name')
            if ('member', nm) in self.over:
                return self.over[('member', nm)]
            raise Unknown('member %s' % nm)
        if k == 'binop':
            op = n['op']
            if op in ('+', '-'):
                x, y = self.ev(n['lhs']), self.ev(n['rhs'])
                return x + y if op == '+' else x - y
            if op == '&':
                x, y = self.ev(n['lhs']), self.ev(n['rhs'])
                if x.concrete() and not y.concrete():
                    x, y = y, x
                if y.concrete():
                    m = y.c
                    if m >= 1 << 63:
                        m -= 1 << 64   # unsigned 64-bit mask
                    p = (~m) + 1        # mask == ~(p-1)  <=>  ~mask + 1 == p
                    if m < 0 and p > 0 and p & (p - 1) == 0 and ALIGN % p == 0 and x.b in (0,):
                        return V(x.c & m, x.a, x.b)
                    if x.concrete():
                        return V(x.c & m)
                raise Unknown('mask')
            if op == '*':
                x, y = self.ev(n['lhs']), self.ev(n['rhs'])
                if y.concrete() and x.b == 0:
                    return V(x.c * y.c, x.a * y.c)
                if x.concrete() and y.b == 0:
                    return V(x.c * y.c, y.a * x.c)
                raise Unknown('product')
            raise Unknown('operator %s' % op)
        if k == 'unop':
            x = self.ev(n['sub'])
            if n['op'] == '~' and x.concrete():
                return V(~x.c)
            if n['op'] == '-' and x.b == 0:
                return V(-x.c, -x.a)
            if n['op'] == '+':
                return x
            raise Unknown('unary %s' % n['op'])
        if k == 'condop':
            c = self.cond(n['cond'])
            if c is None:
                a, b = self.ev(n['then']), self.ev(n['else'])
                if a == b:
                    return a
                raise Unknown('undetermined conditional')
            return self.ev(n['then'] if c else n['else'])
        if k == 'call':
            q = n.get('q')
            if q in self.over:
                o = self.over[q]
                return o(self, n) if callable(o) else o
            return self.inline(n)
        raise Unknown('%s node' % k)

    def cond(self, nid):
        fn = self.fn
        n = fn.sn(nid)
        if n is None:
            return None
        if 'cv' in n:
            try:
                return int(n['cv']) != 0
            except ValueError:
                return None
        k = n.get('k')
        try:
            if k == 'binop' and n['op'] in ('<', '<=', '>', '>=', '==', '!='):
                return compare(n['op'], self.ev(n['lhs']), self.ev(n['rhs']))
            if k == 'binop' and n['op'] in ('&&', '||'):
                a, b = self.cond(n['lhs']), self.cond(n['rhs'])
                if n['op'] == '&&':
                    if a is False or b is False:
                        return False
                    return True if (a and b) else None
                if a is True or b is True:
                    return True
                return False if (a is False and b is False) else None
            if k == 'unop' and n['op'] == '!':
                c = self.cond(n['sub'])
                return None if c is None else (not c)
            v = self.ev(n['id'])
            return compare('!=', v, V(0))
        except Unknown:
            return None

    def _local_init(self, d):
        for n in self.fn.all_nodes():
            if n.get('k') == 'decl':
                for v in n.get('vars', []):
                    if v['d'] == d and v.get('init') is not None and 'const' in (v.get('t') or ''):
                        return v['init']
        return None

    def inline(self, n):
        """single-return function whose value is an expression of its parameters"""
        if self.depth > 6:
            raise Unknown('inlining depth')
        q = n.get('q')
        cands = [f for f in self.fb.fns(q) if len(f.params) == len(n.get('args', []))] if q else []
        if not cands:
            raise Unknown('call of %s' % (q or n.get('name')))
        f = cands[0]
        rets = [x for x in f.all_nodes() if x.get('k') == 'return']
        if len(rets) != 1 or 'sub' not in rets[0]:
            raise Unknown('%s is not a single-expression function' % q)
        env = {}
        for p, a in zip(f.params, n.get('args', [])):
            try:
                env[p['d']] = self.ev(a)
            except Unknown:
                pass
        return Eval(self.fb, f, env, self.over, self.depth + 1).ev(rets[0]['sub'])


def lengths():
    """abstract instantiations of `length`: concrete 0..8*K0-1 and the 8 residue classes 8k+r, k >= K0"""
    for c in range(8 * K0):
        yield V(c)
    for r in range(8):
        yield V(r, 1)


def paths(fb, fn, env, over, on_call):
    """enumerate the normal-return paths of an acyclic CFG under `env`; on_call(ev, node, state) records effects.
    yields (state, evaluator) per path that reaches the exit without throwing"""
    if fn.loops:
        raise Unknown('loop in %s' % fn.q)
    out = []

    def walk(bid, state, seen):
        if bid in seen:
            raise Unknown('cycle in %s' % fn.q)
        blk = fn.blocks[bid]
        ev = Eval(fb, fn, env, over)
        st = dict((k, list(v)) for k, v in state.items())
        for e in blk['elems']:
            n = fn.nodes[e]
            if n.get('k') == 'throw':
                return
            if n.get('k') == 'call':
                if n.get('noret'):
                    return
                on_call(ev, n, st)
        succs = blk.get('succs', [])
        if bid == fn.exit or not succs:
            out.append((st, ev))
            return
        if 'cond' in blk and len(succs) == 2:
            c = ev.cond(blk['cond'])
            nxt = [succs[0]] if c is True else [succs[1]] if c is False else list(succs)
        else:
            nxt = list(succs)
        for s in nxt:
            if s is not None:
                walk(s, st, seen | {bid})
    walk(fn.entry, {}, frozenset())
    return out


# ------------------------------------------------------------------------------------------------ symbolic linear forms

class Sym(dict):
    """linear form over named symbols: {symbol: coefficient}, constant under key 1"""

    @staticmethod
    def of(name, k=1):
        return Sym({name: k})

    def add(self, o, sign=1):
        r = Sym(self)
        for k, v in o.items():
            r[k] = r.get(k, 0) + sign * v
            if r[k] == 0:
                del r[k]
        return r

    def subst(self, name, form):
        if name not in self:
            return Sym(self)
        k = self[name]
        r = Sym({a: b for a, b in self.items() if a != name})
        for a, b in form.items():
            r[a] = r.get(a, 0) + k * b
            if r[a] == 0:
                del r[a]
        return r

    def text(self):
        if not self:
            return '0'
        out = []
        for k in sorted(self, key=str):
            v = self[k]
            out.append(('%s' % k if v == 1 else '-%s' % k if v == -1 else '%d*%s' % (v, k)) if k != 1 else str(v))
        return ' + '.join(out).replace('+ -', '- ')


ACCESSORS = {'osmium::memory::Buffer::data': 'data', 'osmium::memory::Buffer::committed': 'committed',
             'osmium::memory::Buffer::written': 'written', 'osmium::memory::Buffer::capacity': 'capacity'}
FIELDS = {'m_data': 'data', 'm_committed': 'committed', 'm_written': 'written', 'm_capacity': 'capacity'}


def sym_eval(fn, nid, who=lambda fn, recv: '', members=None, fb=None, env=None, depth=0):
    """linear form of a pointer/size expression over data/committed/written of buffers; `who` names the buffer a receiver
    denotes (so that m_data and data() of the same buffer unify); other leaves become their own symbols; raises Unknown"""
    n = fn.nodes.get(nid)
    if n is None:
        raise Unknown('missing node')
    k = n.get('k')
    if k in ('wrap', 'icast', 'cast'):
        return sym_eval(fn, n['sub'], who, members, fb, env, depth)
    if 'cv' in n and not n.get('float'):
        try:
            v = int(n['cv'])
            return Sym({1: v}) if v else Sym()
        except ValueError:
            pass
    if k == 'binop' and n['op'] in ('+', '-'):
        return sym_eval(fn, n['lhs'], who, members, fb, env, depth).add(sym_eval(fn, n['rhs'], who, members, fb, env, depth), 1 if n['op'] == '+' else -1)
    if k == 'call' and n.get('q') in ACCESSORS and not n.get('args'):
        return Sym.of('%s(%s)' % (ACCESSORS[n['q']], who(fn, n.get('recv'))))
    if k == 'member' and n.get('field'):
        if members and n['name'] in members:
            return Sym.of(members[n['name']])
        if n['name'] in FIELDS:
            return Sym.of('%s(%s)' % (FIELDS[n['name']], who(fn, n.get('base'))))
        return Sym.of('field:' + n['name'])
    if k == 'var':
        init = None
        for m in fn.all_nodes():
            if m.get('k') == 'decl':
                for v in m.get('vars', []):
                    if v['d'] == n['d'] and v.get('init') is not None and 'const' in (v.get('t') or ''):
                        init = v['init']
        if init is not None:
            return sym_eval(fn, init, who, members, fb, env, depth)
        if env and n.get('d') in env:
            return env[n['d']]
        return Sym.of('var:%s' % n.get('name'))
    if k == 'call' and fb is not None and depth < 3 and n.get('q'):
        # a helper whose value is a single expression of its parameters (and of the same buffer's accessors)
        cands = [f for f in fb.fns(n['q']) if len(f.params) == len(n.get('args', []))]
        if cands:
            f = cands[0]
            rets = [x for x in f.all_nodes() if x.get('k') == 'return' and 'sub' in x]
            if len(rets) == 1:
                e2 = {}
                for p_, a_ in zip(f.params, n.get('args', [])):
                    try:
                        e2[p_['d']] = sym_eval(fn, a_, who, members, fb, env, depth)
                    except Unknown:
                        pass
                return sym_eval(f, rets[0]['sub'], who, members, fb, e2, depth + 1)
    raise Unknown('%s node in a position expression' % k)
