"""Helpers for the C03 rule module: the GUARD primitive (checkpoint edges) and small expression classifiers.

GUARD primitive.  A *checkpoint* is a two-way branch whose condition establishes a fact K on one of its edges (the
*pass* edge).  "Operation A is protected by K" is decided as: after removing every pass edge of K from the CFG, A is not
reachable from any definition of the value K talks about (or from the function entry for parameters).  That is the
exact graph formulation of "on every path from the definition to the use the test was taken and came out right"; it
covers dominance (`if (bad) throw; use`), loop tests (`while (ok) { use }`), short-circuit conditions (each operand is a
separate CFG block) and checks placed inside a switch case inside a loop (PBF raw_size).  Nothing depends on statement
order, spelling or positions.
"""
from .errdisc import effective_cond
from .flow import path_search

CMP = ('<', '<=', '>', '>=', '==', '!=')
_FLIP = {'<': '>', '<=': '>=', '>': '<', '>=': '<=', '==': '==', '!=': '!='}


def elem_of(fn, nid):
    """CFG element containing node nid."""
    pos = fn.positions()
    if nid not in pos:
        return None
    b, i = pos[nid]
    elems = fn.blocks[b]['elems']
    if i < len(elems):
        return elems[i]
    return None


def strip_not(fn, cid):
    """(inner condition id, polarity) with leading `!` folded into polarity."""
    pol = True
    n = fn.sn(cid)
    hops = 0
    while n is not None and n.get('k') == 'unop' and n.get('op') == '!' and hops < 10:
        pol = not pol
        cid = n['sub']
        n = fn.sn(cid)
        hops += 1
    return fn.strip(cid), pol


def cmp_parts(fn, cid):
    """(op, lhs id, rhs id) of a comparison (built-in or overloaded operator), else None."""
    n = fn.sn(cid)
    if n is None:
        return None
    if n.get('k') == 'binop' and n.get('op') in CMP:
        return n['op'], n['lhs'], n['rhs']
    if n.get('k') == 'call' and n.get('op') in CMP:
        a = [x for x in n.get('args', []) if x is not None]
        if n.get('recv') is not None and len(a) == 1:
            return n['op'], n['recv'], a[0]
        if len(a) == 2:
            return n['op'], a[0], a[1]
    return None


def roots(fn, nid):
    """Storage roots read anywhere in the expression: {('var', decl id)} for locals/params, {('field', name)} for
    this-members, {('global', q)} for globals / enumerators."""
    out = set()
    for x in fn.subtree(nid):
        n = fn.nodes[x]
        k = n.get('k')
        if k == 'var':
            if n.get('vk') in ('local', 'param'):
                out.add(('var', n['d']))
            elif n.get('vk') in ('global', 'static_member', 'enumconst'):
                out.add(('global', n.get('q', n.get('name'))))
        elif k == 'member' and n.get('field'):
            b = fn.sn(n['base'])
            if b is not None and b.get('k') == 'this':
                out.add(('field', n['name']))
    return out


def local_roots(fn, nid):
    return {r for r in roots(fn, nid) if r[0] in ('var', 'field')}


def classify_edges(fn, classify):
    """classify(fn, cond id) -> 'T' (fact holds on the true edge) | 'F' (on the false edge) | None.
    Returns the set of pass edges {(block id, successor index)}; leading negations are folded."""
    out = set()
    for blk in fn.blocks.values():
        if 'cond' not in blk or len(blk['succs']) != 2 or blk.get('termcls') == 'SwitchStmt':
            continue
        c = effective_cond(fn, blk)
        if c is None:
            continue
        inner, pol = strip_not(fn, c)
        r = classify(fn, inner)
        if r is None:
            continue
        on_true = (r == 'T') == pol
        out.add((blk['id'], 0 if on_true else 1))
    return out


def upper_bound(is_subject, is_bound):
    """classifier: condition compares subject against bound; the pass edge establishes subject <= bound (or <)."""
    def classify(fn, cid):
        p = cmp_parts(fn, cid)
        if p is None:
            return None
        op, l, r = p
        if is_subject(fn, l) and is_bound(fn, r):
            pass
        elif is_subject(fn, r) and is_bound(fn, l):
            op = _FLIP[op]
        else:
            return None
        if op in ('>', '>='):
            return 'F'
        if op in ('<', '<='):
            return 'T'
        return None
    return classify


def lower_bound(is_subject, is_bound):
    """classifier: pass edge establishes subject >= bound (or >)."""
    def classify(fn, cid):
        p = cmp_parts(fn, cid)
        if p is None:
            return None
        op, l, r = p
        if is_subject(fn, l) and is_bound(fn, r):
            pass
        elif is_subject(fn, r) and is_bound(fn, l):
            op = _FLIP[op]
        else:
            return None
        if op in ('<', '<='):
            return 'F'
        if op in ('>', '>='):
            return 'T'
        return None
    return classify


def equals(is_subject, is_value, want_equal=True):
    """classifier: pass edge establishes subject == value (want_equal) or subject != value."""
    def classify(fn, cid):
        p = cmp_parts(fn, cid)
        if p is None:
            return None
        op, l, r = p
        if not ((is_subject(fn, l) and is_value(fn, r)) or (is_subject(fn, r) and is_value(fn, l))):
            return None
        if op == '==':
            return 'T' if want_equal else 'F'
        if op == '!=':
            return 'F' if want_equal else 'T'
        return None
    return classify


def truthy(is_expr, want_true=True):
    """classifier: the (boolean / converted) expression itself is the condition."""
    def classify(fn, cid):
        if is_expr(fn, cid):
            return 'T' if want_true else 'F'
        return None
    return classify


def reaches_unchecked(fn, starts, targets, pass_edges):
    """Witness path from one of `starts` (element ids; 'entry' = function entry) to an element of `targets` that uses
    no pass edge, or None.  targets: node ids (mapped to their CFG elements)."""
    tg = set()
    for t in targets:
        e = elem_of(fn, t) if t not in _elemset(fn) else t
        if e is not None:
            tg.add(e)
    if not tg:
        return None

    def edge_ok(b, idx, s):
        return (b, idx) not in pass_edges
    for s in starts:
        if s == 'entry':
            w = path_search(fn, fn.entry, lambda e: e in tg, lambda e: False, edge_ok, from_block_start=True)
        else:
            se = s if s in _elemset(fn) else elem_of(fn, s)
            if se is None:
                continue
            w = path_search(fn, se, lambda e: e in tg, lambda e: False, edge_ok)
        if w is not None:
            return [s if s == 'entry' else ('from', s)] + w
    return None


def _elemset(fn):
    es = getattr(fn, '_c03_elemset', None)
    if es is None:
        es = set()
        for b in fn.blocks.values():
            es.update(b['elems'])
        fn._c03_elemset = es
    return es


def describe(fn, w):
    out = []
    for p in w or []:
        if p == 'entry':
            out.append('entry')
        elif isinstance(p, tuple) and p[0] == 'from':
            out.append('def@l%s' % fn.nodes[p[1]].get('l'))
        elif isinstance(p, tuple):
            out.append('%s%s' % (p[0], p[1]))
        else:
            out.append('%s@l%s' % (fn.expr(p)[:50], fn.nodes[p].get('l')))
    if len(out) > 10:
        out = out[:4] + ['...'] + out[-5:]
    return ' -> '.join(out)


def definitions(fn, decl):
    """Elements that (re)define local `decl` with a non-constant value: declarations with an initialiser, assignments,
    ++/--, compound assignments, and calls that receive its address.  Constant initialisers (`int x = 0`) are skipped:
    the guards below protect against *input* values."""
    out = []
    for n in fn.all_nodes():
        k = n.get('k')
        if k == 'decl':
            for v in n['vars']:
                if v['d'] == decl and isinstance(v.get('init'), int):
                    if fn.const_value(v['init']) is None:
                        out.append(n['id'])
        elif k == 'assign':
            l = fn.sn(n['lhs'])
            if l is not None and l.get('k') == 'var' and l.get('d') == decl:
                if n.get('op') != '=' or fn.const_value(n['rhs']) is None:
                    out.append(n['id'])
        elif k == 'unop' and n.get('op') in ('++', '--'):
            s = fn.sn(n['sub'])
            if s is not None and s.get('k') == 'var' and s.get('d') == decl:
                out.append(n['id'])
        elif k in ('call', 'construct'):
            for a in n.get('args', []) or []:
                an = fn.sn(a) if a is not None else None
                if an is not None and an.get('k') == 'unop' and an.get('op') == '&':
                    s = fn.sn(an['sub'])
                    if s is not None and s.get('k') == 'var' and s.get('d') == decl:
                        out.append(n['id'])
    return out


def is_param(fn, decl):
    return any(p['d'] == decl for p in fn.params)


def starts_for(fn, decl):
    """Where the value of a local/param comes into being: function entry for parameters, definitions otherwise."""
    s = list(definitions(fn, decl))
    if is_param(fn, decl):
        s.append('entry')
    return s


def var_name(fn, decl):
    for p in fn.params:
        if p['d'] == decl:
            return p['name']
    for n in fn.all_nodes():
        if n.get('k') == 'decl':
            for v in n['vars']:
                if v['d'] == decl:
                    return v['name']
        if n.get('k') == 'var' and n.get('d') == decl:
            return n['name']
    return '?'


def sig(fn):
    """short parameter-type signature used to tell overloads apart in instance keys (types, never names)."""
    def short(t):
        t = t.replace('const ', '').replace(' const', '').replace('std::__cxx11::', 'std::').strip()
        t = t.replace('std::basic_string<char>', 'std::string')
        t = t.replace('std::size_t', 'size_t').replace('unsigned long', 'size_t')
        return t.replace(' ', '')
    return '(%s)' % ','.join(short(p['tC']) for p in fn.params)
