"""Helpers for the C03 rule module: the GUARD primitive (checkpoint edges) and small expression classifiers.

GUARD primitive.  A *checkpoint* is a two-way branch whose condition establishes a fact K on one of its edges (the
*pass* edge).  "Operation A is protected by K" is decided as: after removing every pass edge of K from the CFG, A is not
reachable from any definition of the value K talks about (or from the function entry for parameters).  That is the
exact graph formulation of "on every path from the definition to the use the test was taken and came out right"; it
covers dominance (`if (bad) throw; use`), loop tests (`while (ok) { use }`), short-circuit conditions (each operand is a
separate CFG block) and checks placed inside a switch case inside a loop (PBF raw_size).  Nothing depends on statement
order, spelling or positions.
"""
from .errdisc import effective_cond
from .flow import path_search

CMP = ('<', '<=', '>', '>=', '==', '!=')
_FLIP = {'<': '>', '<=': '>=', '>': '<', '>=': '<=', '==': '==', '!=': '!='}


def elem_of(fn, nid):
    """CFG element containing node nid."""
    pos = fn.positions()
    if nid not in pos:
        return None
    b, i = pos[nid]
    elems = fn.blocks[b]['elems']
    if i < len(elems):
        return elems[i]
    return None


def strip_not(fn, cid):
    """(inner condition id, polarity) with leading `!` folded into polarity."""
    pol = True
    n = fn.sn(cid)
    hops = 0
    while n is not None and n.get('k') == 'unop' and n.get('op') == '!' and hops < 10:
        pol = not pol
        cid = n['sub']
        n = fn.sn(cid)
        hops += 1
    return fn.strip(cid), pol


def cmp_parts(fn, cid):
    """(op, lhs id, rhs id) of a comparison (built-in or overloaded operator), else None."""
    n = fn.sn(cid)
    if n is None:
        return None
    if n.get('k') == 'binop' and n.get('op') in CMP:
        return n['op'], n['lhs'], n['rhs']
    if n.get('k') == 'call' and n.get('op') in CMP:
        a = [x for x in n.get('args', []) if x is not None]
        if n.get('recv') is not None and len(a) == 1:
            return n['op'], n['recv'], a[0]
        if len(a) == 2:
            return n['op'], a[0], a[1]
    return None


def roots(fn, nid):
    """Storage roots read anywhere in the expression: {('var', decl id)} for locals/params, {('field', name)} for
    this-members, {('global', q)} for globals / enumerators."""
    out = set()
    for x in fn.subtree(nid):
        n = fn.nodes[x]
        k = n.get('k')
        if k == 'var':
            if n.get('vk') in ('local', 'param'):
                out.add(('var', n['d']))
            elif n.get('vk') in ('global', 'static_member', 'enumconst'):
                out.add(('global', n.get('q', n.get('name'))))
        elif k == 'member' and n.get('field'):
            b = fn.sn(n['base'])
            if b is not None and b.get('k') == 'this':
                out.add(('field', n['name']))
    return out


def local_roots(fn, nid):
    return {r for r in roots(fn, nid) if r[0] in ('var', 'field')}


def _expand_atoms(fn, cond, sense, out, depth=0):
    """atomic conditions whose truth value is implied by `cond` having evaluated to `sense`:
    (a && b) true => a true, b true; (a || b) false => a false, b false; !a flips."""
    if cond is None or depth > 12:
        return
    c = fn.strip(cond)
    n = fn.nodes.get(c)
    if n is None:
        return
    if n.get('k') == 'binop' and n.get('op') in ('&&', '||'):
        if (n['op'] == '&&' and sense) or (n['op'] == '||' and not sense):
            _expand_atoms(fn, n['lhs'], sense, out, depth + 1)
            _expand_atoms(fn, n['rhs'], sense, out, depth + 1)
        return
    if n.get('k') == 'unop' and n.get('op') == '!':
        _expand_atoms(fn, n['sub'], not sense, out, depth + 1)
        return
    if n.get('k') == 'var' and n.get('vk') == 'local':
        init = single_init(fn, n['d'], pure=False)        # named condition: `const bool at_end = (p == end);`
        if init is not None:
            _expand_atoms(fn, init, sense, out, depth + 1)
            return
    out.append((c, sense))


def edge_atoms(fn, blk):
    """[(atomic condition id, truth value, successor index)] -- what is known on each outgoing edge of a two-way branch.
    Both the whole terminator condition (valid on the edge of the block that decides it, including join blocks of
    `!(a && b)`) and the part decided in this block (short-circuit operand) are expanded."""
    if 'cond' not in blk or len(blk['succs']) != 2 or blk.get('termcls') == 'SwitchStmt':
        return []
    out = []
    conds = [blk['cond']]
    e = effective_cond(fn, blk)
    if e is not None and fn.strip(e) != fn.strip(blk['cond']):
        conds.append(e)
    seen = set()
    for c in conds:
        for idx, sense in ((0, True), (1, False)):
            atoms = []
            _expand_atoms(fn, c, sense, atoms)
            for (a, s) in atoms:
                if (a, s, idx) not in seen:
                    seen.add((a, s, idx))
                    out.append((a, s, idx))
    return out


def _holds(fn, cond, sense, classify, depth=0):
    """the fact recognised by `classify` is true in every way `cond` can evaluate to `sense`
    (a || b true: needed in both cases; a && b true: either operand suffices; ...)."""
    if cond is None or depth > 12:
        return False
    c = fn.strip(cond)
    n = fn.nodes.get(c)
    if n is None:
        return False
    if n.get('k') == 'binop' and n.get('op') in ('&&', '||'):
        l = _holds(fn, n['lhs'], sense, classify, depth + 1)
        r = _holds(fn, n['rhs'], sense, classify, depth + 1)
        both_known = (n['op'] == '&&') == sense     # (a && b) true / (a || b) false: both operand values are known
        return (l or r) if both_known else (l and r)
    if n.get('k') == 'unop' and n.get('op') == '!':
        return _holds(fn, n['sub'], not sense, classify, depth + 1)
    r = classify(fn, c)
    if r is not None:
        return (r == 'T') == sense
    if n.get('k') == 'var' and n.get('vk') == 'local':
        init = single_init(fn, n['d'], pure=False)        # `const bool ok = check(x); if (!ok) ...`
        if init is not None:
            return _holds(fn, init, sense, classify, depth + 1)
    return False


def classify_edges(fn, classify):
    """classify(fn, atomic cond id) -> 'T' (fact holds when the condition is true) | 'F' (when it is false) | None.
    Returns the set of pass edges {(block id, successor index)} on which the fact is established, looking at the whole
    terminator condition (join blocks of negated / parenthesised conditions), at the operand decided in the block, and at
    the case edges of a switch over the subject (classifiers built here carry `on_switch`)."""
    out = set()
    on_switch = getattr(classify, 'on_switch', None)
    for blk in fn.blocks.values():
        if 'cond' not in blk:
            continue
        if blk.get('termcls') == 'SwitchStmt':
            if on_switch is None:
                continue
            for idx, s2 in enumerate(blk['succs']):
                if s2 is None:
                    continue
                lab = fn.blocks[s2].get('label') or {}
                if 'case' in lab and on_switch(fn, blk['cond'], lab['case']):
                    out.add((blk['id'], idx))
            continue
        if len(blk['succs']) != 2:
            continue
        conds = [blk['cond']]
        e = effective_cond(fn, blk)
        if e is not None and fn.strip(e) != fn.strip(blk['cond']):
            conds.append(e)
        for c in conds:
            for idx, sense in ((0, True), (1, False)):
                if _holds(fn, c, sense, classify) and not _assert_branch(fn, blk, idx):
                    out.add((blk['id'], idx))
    return out


def _assert_branch(fn, blk, pass_idx):
    """the branch is the expansion of assert(): its other edge runs straight into __assert_fail.  An assert is not a guard
    (it is absent under NDEBUG and aborts otherwise)."""
    other = blk['succs'][1 - pass_idx]
    if other is None:
        return False
    return any(fn.nodes[e].get('k') == 'call' and (fn.nodes[e].get('q') or fn.nodes[e].get('name') or '') in ('__assert_fail', '__assert_rtn')
               for e in fn.blocks[other]['elems'])


def matching_conds(fn, classify):
    """atomic condition ids (anywhere in a branch condition) the classifier recognises."""
    out = []
    for blk in fn.blocks.values():
        for (a, _t, _i) in edge_atoms(fn, blk):
            if classify(fn, a) is not None and a not in out:
                out.append(a)
    return out


_PURE_CALLS = ('size', 'length', 'data', 'c_str', 'empty', 'strlen', 'distance', 'get', 'value', 'begin', 'end', 'cbegin', 'cend',
               'min', 'max', 'move', 'forward', 'addressof', 'operator*', 'operator->')


def _pure_expr(fn, nid):
    """expression built from locals, constants, casts, arithmetic and const accessors only (its value is a function of the
    variables it reads; evaluating it has no effect)."""
    for x in fn.subtree(nid):
        n = fn.nodes[x]
        k = n.get('k')
        if k in ('var', 'lit', 'icast', 'cast', 'wrap', 'binop', 'member', 'sizeof', 'this', 'index', 'condop'):
            continue
        if k == 'unop' and n.get('op') not in ('++', '--'):
            continue
        if k == 'construct' and (n.get('elidable') or n.get('copymove')):
            continue
        if k == 'call':
            q = n.get('q') or n.get('name') or ''
            if q.rsplit('::', 1)[-1] in _PURE_CALLS or n.get('op') in CMP + ('!', '-', '+', '*', '->'):
                continue
        return False
    return True


def single_init(fn, d, pure=True):
    """initialiser of a local that is defined exactly once, by its declaration (and, if `pure`, by a pure expression)."""
    if is_param(fn, d):
        return None
    cache = fn.__dict__.setdefault('_c03_single_init', {})
    if (d, pure) in cache:
        return cache[(d, pure)]
    res = None
    ds = definitions(fn, d)
    if len(ds) == 1 and fn.nodes[ds[0]].get('k') == 'decl':
        for v in fn.nodes[ds[0]]['vars']:
            if v['d'] == d and isinstance(v.get('init'), int):
                if not pure or _pure_expr(fn, v['init']):
                    res = v['init']
    cache[(d, pure)] = res
    return res


def resolve_local(fn, nid, depth=0):
    """follow a named local (`const auto status = f(x);` ... `status`) to the expression it names; other nodes unchanged."""
    x = fn.strip(nid)
    n = fn.nodes.get(x)
    while n is not None and n.get('k') == 'var' and n.get('vk') == 'local' and depth < 4:
        init = single_init(fn, n['d'], pure=False)
        if init is None:
            break
        x = fn.strip(init)
        n = fn.nodes.get(x)
        depth += 1
    return x


def deep_roots(fn, nid, depth=0, stop=()):
    """local_roots with named locals for pure sub-expressions (`const auto n = static_cast<T>(len);`) replaced by the
    roots of their initialiser; roots listed in `stop` are kept as they are."""
    out = set()
    for r in local_roots(fn, nid):
        if r[0] == 'var' and depth < 4 and r not in stop:
            init = single_init(fn, r[1])
            if init is not None:
                sub = deep_roots(fn, init, depth + 1, stop)
                if sub:
                    out |= sub
                    continue
        out.add(r)
    return out


def rooted_in(want):
    """expression reads at least one of the wanted roots and no other local storage (named locals looked through)."""
    def f(fn, nid):
        r = deep_roots(fn, nid, stop=want)
        return bool(r) and r <= want
    return f


def upper_bound(is_subject, is_bound):
    """classifier: condition compares subject against bound; the pass edge establishes subject <= bound (or <)."""
    def classify(fn, cid):
        p = cmp_parts(fn, cid)
        if p is None:
            return None
        op, l, r = p
        if is_subject(fn, l) and is_bound(fn, r):
            pass
        elif is_subject(fn, r) and is_bound(fn, l):
            op = _FLIP[op]
        else:
            return None
        if op in ('>', '>='):
            return 'F'
        if op in ('<', '<='):
            return 'T'
        return None
    classify.on_switch = lambda fn, cond, label: is_subject(fn, cond) and is_bound(fn, label)
    return classify


def lower_bound(is_subject, is_bound):
    """classifier: pass edge establishes subject >= bound (or >)."""
    def classify(fn, cid):
        p = cmp_parts(fn, cid)
        if p is None:
            return None
        op, l, r = p
        if is_subject(fn, l) and is_bound(fn, r):
            pass
        elif is_subject(fn, r) and is_bound(fn, l):
            op = _FLIP[op]
        else:
            return None
        if op in ('<', '<='):
            return 'F'
        if op in ('>', '>='):
            return 'T'
        return None
    classify.on_switch = lambda fn, cond, label: is_subject(fn, cond) and is_bound(fn, label)
    return classify


def equals(is_subject, is_value, want_equal=True):
    """classifier: pass edge establishes subject == value (want_equal) or subject != value."""
    def classify(fn, cid):
        p = cmp_parts(fn, cid)
        if p is None:
            return None
        op, l, r = p
        if not ((is_subject(fn, l) and is_value(fn, r)) or (is_subject(fn, r) and is_value(fn, l))):
            return None
        if op == '==':
            return 'T' if want_equal else 'F'
        if op == '!=':
            return 'F' if want_equal else 'T'
        return None
    if want_equal:
        classify.on_switch = lambda fn, cond, label: is_subject(fn, cond) and is_value(fn, label)
    else:
        classify.on_switch = lambda fn, cond, label: is_subject(fn, cond) and fn.const_value(label) is not None and not is_value(fn, label)
    return classify


def truthy(is_expr, want_true=True):
    """classifier: the (boolean / converted) expression itself is the condition."""
    def classify(fn, cid):
        if is_expr(fn, cid):
            return 'T' if want_true else 'F'
        return None
    return classify


def reaches_unchecked(fn, starts, targets, pass_edges, barriers=()):
    """Witness path from one of `starts` (element ids; 'entry' = function entry) to an element of `targets` that uses
    no pass edge (and crosses no barrier element), or None.  targets: node ids (mapped to their CFG elements)."""
    bar = set()
    for t in barriers:
        e = t if t in _elemset(fn) else elem_of(fn, t)
        if e is not None:
            bar.add(e)
    tg = set()
    for t in targets:
        e = elem_of(fn, t) if t not in _elemset(fn) else t
        if e is not None:
            tg.add(e)
    if not tg:
        return None

    def edge_ok(b, idx, s):
        return (b, idx) not in pass_edges
    for s in starts:
        if s == 'entry':
            w = path_search(fn, fn.entry, lambda e: e in tg, lambda e: e in bar, edge_ok, from_block_start=True)
        else:
            se = s if s in _elemset(fn) else elem_of(fn, s)
            if se is None:
                continue
            w = path_search(fn, se, lambda e: e in tg, lambda e: e in bar, edge_ok)
        if w is not None:
            return [s if s == 'entry' else ('from', s)] + w
    return None


_NORETURN = ('__assert_fail', 'abort', 'std::abort', 'std::terminate', '__builtin_unreachable', '__assert_rtn')


def ends_path(fn, e):
    """element after which control does not continue normally: throw, or a call that does not return (failed assert)"""
    n = fn.nodes.get(e, {}) if not isinstance(e, tuple) else {}
    return n.get('k') == 'throw' or (n.get('k') == 'call' and (n.get('q') or n.get('name') or '') in _NORETURN)


def helper_barriers(fb, fn, subj, make_classifier, depth=0):
    """Calls in fn that hand a value rooted in `subj` to a helper which establishes the fact itself: in the helper, no
    path from the entry to a normal exit avoids the pass edges of make_classifier(<that parameter>) (or a nested helper
    call of the same kind).  Such a call is as good as the inline test (`check_length(len);`), so it acts as a barrier for
    reaches_unchecked."""
    out = []
    for c in fn.all_nodes():
        if c.get('k') != 'call' or not c.get('u'):
            continue
        bodies = [g for g in fb.by_usr.get(c['u'], []) if g.has_cfg]
        if not bodies:
            continue
        g = bodies[0]
        for i, a in enumerate(c.get('args', []) or []):
            if a is None or i >= len(g.params):
                continue
            r = deep_roots(fn, a, stop=subj)
            if not r or not r <= subj:
                continue
            if definitions(g, g.params[i]['d']):
                continue
            ps = {('var', g.params[i]['d'])}
            pe = classify_edges(g, make_classifier(rooted_in(ps)))
            inner = set()
            if depth < 2:
                for b in helper_barriers(fb, g, ps, make_classifier, depth + 1):
                    e = b if b in _elemset(g) else elem_of(g, b)
                    if e is not None:
                        inner.add(e)
            if not pe and not inner:
                continue

            def edge_ok(b, idx, s2, pe=pe):
                return (b, idx) not in pe
            w = path_search(g, g.entry, lambda e: isinstance(e, tuple) and e[0] == 'exit',
                            lambda e, g=g, inner=inner: ends_path(g, e) or e in inner, edge_ok, from_block_start=True)
            if w is None:
                out.append(c['id'])
                break
    return out


def guarded(fb, fn, starts, targets, subj, make_classifiers, extra_pass=(), extra_barriers=(), strict_targets=False):
    """The GUARD decision with every equivalent placement of the test accepted: inline branch, short-circuit operand,
    negated / joined condition, named bool, switch case, checking helper (nested).  make_classifiers: one factory or a list
    of factories `is_subject -> classifier` whose pass edges are united.  Returns a witness path or None."""
    if callable(make_classifiers):
        make_classifiers = [make_classifiers]
    pe = set(extra_pass)
    bars = list(extra_barriers)
    for mk in make_classifiers:
        pe |= classify_edges(fn, mk(rooted_in(subj)))
        bars += helper_barriers(fb, fn, subj, mk)
    if strict_targets:
        # the targets are calls known to contain the unprotected operation: a test inside them comes too late
        bars = [b for b in bars if b not in set(targets)]
    barset = set(bars)
    tg = [t for t in targets if t not in barset]
    if not tg:
        return None
    return reaches_unchecked(fn, starts, tg, pe, barriers=bars)


def guarded_ip(fb, fn, starts, targets, subj, make_classifiers, depth=0, **kw):
    """guarded(), and when the protected operation sits in a helper whose parameters carry the value unchecked from the
    entry (operation extracted into a helper, test left in the caller): every call site of that helper must guard the
    corresponding arguments instead.  Returns (function, witness) of the first unguarded place, or None."""
    w = guarded(fb, fn, starts, targets, subj, make_classifiers, **kw)
    if w is None:
        return None
    if depth >= 2 or not w or w[0] != 'entry':
        return (fn, w)
    pidx = {}
    for r in subj:
        i = next((i for i, p in enumerate(fn.params) if r[0] == 'var' and p['d'] == r[1]), None)
        if i is None or definitions(fn, fn.params[i]['d']):
            return (fn, w)
        pidx[i] = r
    sites = []
    for g in fb.functions:
        if not g.has_cfg:
            continue
        for c in g.all_nodes():
            if c.get('k') == 'call' and c.get('u') == fn.usr and c.get('u'):
                sites.append((g, c))
    if not sites:
        return (fn, w)
    seen = set()
    for (g, c) in sites:
        if (g.usr, g.pat, c['id']) in seen:
            continue
        seen.add((g.usr, g.pat, c['id']))
        args = c.get('args', []) or []
        sub2 = set()
        for i in pidx:
            if i >= len(args) or args[i] is None:
                return (fn, w)
            sub2 |= {r for r in deep_roots(g, args[i]) if r[0] == 'var'}
            if fn_const(g, args[i]):
                continue
        if not sub2:
            # constant arguments: nothing from the input flows in at this site
            if all(i < len(args) and args[i] is not None and fn_const(g, args[i]) for i in pidx):
                continue
            return (g, ['entry', c['id']])
        st = []
        for r in sub2:
            st += starts_for(g, r[1])
        r2 = guarded_ip(fb, g, st, [c['id']], sub2, make_classifiers, depth + 1, strict_targets=True)
        if r2 is not None:
            return r2
    return None


def fn_const(fn, nid):
    n = fn.sn(nid)
    return fn.const_value(nid) is not None or (n is not None and n.get('k') == 'lit')


def _elemset(fn):
    es = getattr(fn, '_c03_elemset', None)
    if es is None:
        es = set()
        for b in fn.blocks.values():
            es.update(b['elems'])
        fn._c03_elemset = es
    return es


def describe(fn, w):
    out = []
    for p in w or []:
        if p == 'entry':
            out.append('entry')
        elif isinstance(p, tuple) and p[0] == 'from':
            out.append('def@l%s' % fn.nodes[p[1]].get('l'))
        elif isinstance(p, tuple):
            out.append('%s%s' % (p[0], p[1]))
        else:
            out.append('%s@l%s' % (fn.expr(p)[:50], fn.nodes[p].get('l')))
    if len(out) > 10:
        out = out[:4] + ['...'] + out[-5:]
    return ' -> '.join(out)


def definitions(fn, decl):
    """Elements that (re)define local `decl` with a non-constant value: declarations with an initialiser, assignments,
    ++/--, compound assignments, and calls that receive its address.  Constant initialisers (`int x = 0`) are skipped:
    the guards below protect against *input* values."""
    out = []
    for n in fn.all_nodes():
        k = n.get('k')
        if k == 'decl':
            for v in n['vars']:
                if v['d'] == decl and isinstance(v.get('init'), int):
                    if fn.const_value(v['init']) is None:
                        out.append(n['id'])
        elif k == 'assign':
            l = fn.sn(n['lhs'])
            if l is not None and l.get('k') == 'var' and l.get('d') == decl:
                if n.get('op') != '=' or fn.const_value(n['rhs']) is None:
                    out.append(n['id'])
        elif k == 'unop' and n.get('op') in ('++', '--'):
            s = fn.sn(n['sub'])
            if s is not None and s.get('k') == 'var' and s.get('d') == decl:
                out.append(n['id'])
        elif k in ('call', 'construct'):
            for a in n.get('args', []) or []:
                an = fn.sn(a) if a is not None else None
                if an is not None and an.get('k') == 'unop' and an.get('op') == '&':
                    s = fn.sn(an['sub'])
                    if s is not None and s.get('k') == 'var' and s.get('d') == decl:
                        out.append(n['id'])
    return out


def is_param(fn, decl):
    return any(p['d'] == decl for p in fn.params)


def starts_for(fn, decl):
    """Where the value of a local/param comes into being: function entry for parameters, definitions otherwise."""
    s = list(definitions(fn, decl))
    if is_param(fn, decl):
        s.append('entry')
    return s


def var_name(fn, decl):
    for p in fn.params:
        if p['d'] == decl:
            return p['name']
    for n in fn.all_nodes():
        if n.get('k') == 'decl':
            for v in n['vars']:
                if v['d'] == decl:
                    return v['name']
        if n.get('k') == 'var' and n.get('d') == decl:
            return n['name']
    return '?'


def sig(fn):
    """short parameter-type signature used to tell overloads apart in instance keys (types, never names)."""
    def short(t):
        t = t.replace('const ', '').replace(' const', '').replace('std::__cxx11::', 'std::').strip()
        t = t.replace('std::basic_string<char>', 'std::string')
        t = t.replace('std::size_t', 'size_t').replace('unsigned long', 'size_t')
        return t.replace(' ', '')
    return '(%s)' % ','.join(short(p['tC']) for p in fn.params)


# ------------------------------------------------------------------------------------------------ cursor dataflow
# A *cursor* is a `const char*` local / parameter (kind 'p'), or the pointer behind a `const char**` parameter (kind 'pp',
# the expression `*dataptr`).  Must-dataflow over three levels per cursor:
#   2 CHECKED    compared unequal to / below an end pointer since its last advance (or obtained from a source that returns a
#                dereferenceable pointer)
#   1 ENTRY      still holds the value the caller passed in (a dereference here is a precondition on the caller)
#   0 UNCHECKED  advanced / assigned since the last comparison
# A dereference needs level 2; at level 1 it is recorded as an entry precondition of the function (callers are then
# checked at the call site); at level 0 it is a violation.

UNCHECKED, ENTRY, CHECKED = 0, 1, 2
_PTR_T = ('const char *', 'const char *const', 'char *', 'const unsigned char *', 'const unsigned char *const')
_PPTR_T = ('const char **', 'const char **const', 'const char *const *')


class CursorFlow:
    def __init__(self, fn, summaries):
        self.fn = fn
        self.S = summaries          # usr -> {'pre': set(param idx), 'ret': bool}
        self.cursors = {}           # decl id -> ('p'|'pp', name, param index or None)
        for i, p in enumerate(fn.params):
            if p['tC'] in _PTR_T:
                if p['tC'].endswith('*const') or not definitions(fn, p['d']):
                    continue        # a pointer parameter that never moves is an end marker, not a cursor
                self.cursors[p['d']] = ('p', p['name'], i)
            elif p['tC'] in _PPTR_T:
                self.cursors[p['d']] = ('pp', p['name'], i)
        for n in fn.all_nodes():
            if n.get('k') == 'decl':
                for v in n['vars']:
                    if v['tC'] in _PTR_T:
                        self.cursors[v['d']] = ('p', v['name'], None)
        self.pre = set()
        self.post = set()           # indexes of const char** parameters whose cursor is CHECKED at every normal exit
        self.chk = set()            # (i, j): by-value pointer parameter i is compared against pointer parameter j on every normal exit
        self.events = []            # (cursor decl, node id, level at the dereference, what)
        self.ret_ok = None
        self._pm = fn.parent_map()

    # -- expression classification
    def cursor_of(self, nid):
        """decl id of the cursor the expression denotes as an lvalue / value (`data`, `*dataptr`), else None."""
        n = self.fn.sn(nid)
        if n is None:
            return None
        if n.get('k') == 'var' and n.get('d') in self.cursors and self.cursors[n['d']][0] == 'p':
            return n['d']
        if n.get('k') == 'unop' and n.get('op') == '*':
            s = self.fn.sn(n['sub'])
            if s is not None and s.get('k') == 'var' and s.get('d') in self.cursors and self.cursors[s['d']][0] == 'pp':
                return s['d']
        return None

    def pointer_to_cursor(self, nid):
        """decl id when the expression is the address of a cursor (`&data`, or a `const char**` parameter itself)."""
        n = self.fn.sn(nid)
        if n is None:
            return None
        if n.get('k') == 'unop' and n.get('op') == '&':
            c = self.cursor_of(n['sub'])
            if c is not None and self.cursors[c][0] == 'p':
                return c
        if n.get('k') == 'var' and n.get('d') in self.cursors and self.cursors[n['d']][0] == 'pp':
            return n['d']
        return None

    def _incdec_of(self, nid):
        n = self.fn.sn(nid)
        if n is not None and n.get('k') == 'unop' and n.get('op') in ('++', '--'):
            c = self.cursor_of(n['sub'])
            if c is not None:
                return c, bool(n.get('postfix'))
        return None

    def level_of(self, nid, st):
        fn = self.fn
        c = self.cursor_of(nid)
        if c is not None:
            return st.get(c, UNCHECKED)
        n = fn.sn(nid)
        if n is None:
            return UNCHECKED
        if n.get('k') == 'lit' and 'str' in n:
            return CHECKED
        if n.get('k') == 'call' and n.get('u') in self.S and self.S[n['u']].get('ret'):
            return CHECKED
        return UNCHECKED

    # -- transfer
    def _deref(self, c, nid, st, what):
        lvl = st.get(c, UNCHECKED)
        self.events.append((c, nid, lvl, what))
        if lvl == ENTRY and self.cursors[c][2] is not None:
            self.pre.add(self.cursors[c][2])

    def transfer(self, st, n, record):
        fn = self.fn
        k = n.get('k')
        st2 = st
        if k == 'unop' and n.get('op') == '*':
            c = self.cursor_of(n['sub'])
            if c is not None:
                if record:
                    self._deref(c, n['id'], st, 'dereference')
                return st
            idc = self._incdec_of(n['sub'])
            if idc is not None:
                c, postfix = idc
                if postfix:
                    if record:
                        self._deref(c, n['id'], st, 'dereference')
                    st2 = dict(st)
                    st2[c] = UNCHECKED
                    return st2
                if record:
                    self._deref(c, n['id'], st, 'dereference')
                return st
        elif k == 'index':
            c = self.cursor_of(n['base'])
            if c is not None and record:
                if fn.const_value(n['idx']) == 0:
                    self._deref(c, n['id'], st, 'dereference')
                else:
                    self.events.append((c, n['id'], UNCHECKED, 'indexed read at a non-zero offset'))
            return st
        elif k == 'unop' and n.get('op') in ('++', '--'):
            c = self.cursor_of(n['sub'])
            if c is not None:
                if n.get('postfix'):
                    p = self._pm.get(n['id'])
                    hops = 0
                    while p is not None and fn.nodes[p].get('k') in ('wrap', 'icast') and hops < 4:
                        p = self._pm.get(p)
                        hops += 1
                    if p is not None and fn.nodes[p].get('k') == 'unop' and fn.nodes[p].get('op') == '*':
                        return st       # `*c++`: handled at the dereference (old value is read, then the cursor moves)
                st2 = dict(st)
                st2[c] = UNCHECKED
                return st2
        elif k == 'assign':
            c = self.cursor_of(n['lhs'])
            if c is not None:
                st2 = dict(st)
                st2[c] = self.level_of(n['rhs'], st) if n.get('op') == '=' else UNCHECKED
                if st2[c] == ENTRY:
                    st2[c] = UNCHECKED      # a copy of a caller value is not the parameter itself
                return st2
        elif k == 'decl':
            for v in n['vars']:
                if v['d'] in self.cursors and isinstance(v.get('init'), int):
                    st2 = dict(st2)
                    lv = self.level_of(v['init'], st)
                    st2[v['d']] = UNCHECKED if lv == ENTRY else lv
            return st2
        elif k in ('call', 'construct'):
            summ = self.S.get(n.get('u')) if n.get('u') else None
            changed = None
            for i, a in enumerate(n.get('args', []) or []):
                if a is None:
                    continue
                pc = self.pointer_to_cursor(a)
                if pc is not None:
                    if summ is not None and i in summ.get('pre', ()):
                        if record:
                            self._deref(pc, n['id'], st, 'call of %s (dereferences it before any test)' % n.get('q'))
                    changed = changed or dict(st)
                    changed[pc] = CHECKED if (summ is not None and i in summ.get('post', ())) else UNCHECKED
                    continue
                c = self.cursor_of(a)
                if c is not None and summ is not None and i in summ.get('pre', ()):
                    if record:
                        self._deref(c, n['id'], st, 'call of %s (dereferences it before any test)' % n.get('q'))
                if c is not None and summ is not None:
                    # a checking helper: `expect_more(data, end)` compares its two pointer parameters and throws
                    args = n.get('args', []) or []
                    for (pi, pj) in summ.get('chk', ()):
                        if pi == i and pj < len(args) and args[pj] is not None and self.cursor_of(args[pj]) is None:
                            changed = changed or dict(st)
                            changed[c] = CHECKED
            if changed is not None:
                return changed
        return st

    def edge_facts(self, blk):
        """[(cursor decl, successor index on which it is CHECKED)] for a block whose condition compares cursors with other
        pointers."""
        fn = self.fn
        out = []
        for (a, truth, idx) in edge_atoms(fn, blk):
            p = cmp_parts(fn, a)
            if p is None:
                continue
            op, l, r = p
            cl, cr = self.cursor_of(l), self.cursor_of(r)
            if cl is not None and cr is None:
                cur, other = cl, r
            elif cr is not None and cl is None:
                cur, other, op = cr, l, _FLIP[op]
            else:
                continue
            on = fn.sn(other)
            if on is None or not (on.get('t', '').endswith('*') or on.get('t', '').endswith('*const')):
                continue
            if fn.const_value(other) is not None:
                continue        # comparison with nullptr says nothing about the end of the data
            if op in ('!=', '<'):
                good_when = True
            elif op in ('==', '>='):
                good_when = False
            else:
                continue
            if good_when == truth:
                out.append((cur, idx))
        return out

    # -- boolean flags (loop forms with a flag: `do { ...; more = ...; if (more) check; } while (more);`)
    def _bool_locals(self):
        out = set()
        for n in self.fn.all_nodes():
            if n.get('k') == 'decl':
                for v in n['vars']:
                    if v['tC'] in ('bool', 'const bool'):
                        out.add(v['d'])
        return out

    def _flag_transfer(self, st, n):
        """forget / learn the value of a bool local when it is written"""
        fn = self.fn
        k = n.get('k')
        tgt = None
        val = None
        if k == 'assign':
            l = fn.sn(n['lhs'])
            if l is not None and l.get('k') == 'var' and l.get('d') in self._flags:
                tgt = l['d']
                val = fn.const_value(n['rhs']) if n.get('op') == '=' else None
        elif k == 'decl':
            for v in n['vars']:
                if v['d'] in self._flags:
                    tgt = v['d']
                    val = fn.const_value(v['init']) if isinstance(v.get('init'), int) else None
        if tgt is None:
            return st
        st2 = dict(st)
        if val is None:
            st2.pop(('flag', tgt), None)
        else:
            st2[('flag', tgt)] = bool(val)
        return st2

    def _flag_edges(self, blk):
        """[(bool local, value, successor index)] learnt on the edges of a branch on a plain flag"""
        fn = self.fn
        out = []
        if 'cond' not in blk or len(blk['succs']) != 2 or blk.get('termcls') == 'SwitchStmt':
            return out
        conds = [blk['cond']]
        e = effective_cond(fn, blk)
        if e is not None and fn.strip(e) != fn.strip(blk['cond']):
            conds.append(e)
        for c in conds:
            for idx, sense in ((0, True), (1, False)):
                x, pol = strip_not(fn, c)
                n = fn.nodes.get(x)
                if n is not None and n.get('k') == 'var' and n.get('d') in self._flags:
                    out.append((n['d'], sense == pol, idx))
        return out

    @staticmethod
    def _canon(st):
        return tuple(sorted(st.items(), key=repr))

    def run(self):
        fn = self.fn
        self._flags = self._bool_locals()
        init = {}
        for d, (kind, name, pidx) in self.cursors.items():
            init[d] = ENTRY if pidx is not None else UNCHECKED
        # path-sensitive in the flags only: a block holds a small set of states; states that agree are one
        IN = {fn.entry: {self._canon(init): init}}
        OUT = {}
        work = [fn.entry]
        for b in fn.catch_entry_blocks():
            st0 = {d: UNCHECKED for d in self.cursors}
            IN[b] = {self._canon(st0): st0}
            work.append(b)
        guard = 0
        while work and guard < 40000:
            guard += 1
            b = work.pop()
            blk = fn.blocks[b]
            efs = self.edge_facts(blk)
            fes = self._flag_edges(blk)
            outs = []
            for st in list(IN[b].values()):
                for e in blk['elems']:
                    n = fn.nodes[e]
                    st = self.transfer(st, n, False)
                    if self._flags:
                        st = self._flag_transfer(st, n)
                outs.append(st)
            OUT[b] = outs
            for idx, s in enumerate(blk['succs']):
                if s is None:
                    continue
                for st in outs:
                    if any(eidx == idx and st.get(('flag', d)) is not None and st[('flag', d)] != val for (d, val, eidx) in fes):
                        continue        # this state cannot take this edge
                    out = st
                    for (cur, eidx) in efs:
                        if eidx == idx:
                            if out is st:
                                out = dict(st)
                            out[cur] = CHECKED
                    for (d, val, eidx) in fes:
                        if eidx == idx:
                            if out is st:
                                out = dict(st)
                            out[('flag', d)] = val
                    cur_in = IN.setdefault(s, {})
                    key = self._canon(out)
                    if key in cur_in:
                        continue
                    cur_in[key] = dict(out)
                    if len(cur_in) > 12:
                        # too many distinct states: fall back to the plain meet (sound, less precise)
                        sts = list(cur_in.values())
                        m = {d: min(x.get(d, UNCHECKED) for x in sts) for d in self.cursors}
                        cur_in.clear()
                        cur_in[self._canon(m)] = m
                    if s not in work:
                        work.append(s)
        # recording pass
        self.events = []
        self.pre = set()
        rets_ok = True
        n_ret = 0
        for b, sts in IN.items():
            blk = fn.blocks[b]
            for st in sts.values():
                for e in blk['elems']:
                    n = fn.nodes[e]
                    if n.get('k') == 'return' and 'sub' in n:
                        n_ret += 1
                        if not self._ret_checked(n['sub'], st):
                            rets_ok = False
                    st = self.transfer(st, n, True)
                    if self._flags:
                        st = self._flag_transfer(st, n)
        self.ret_ok = rets_ok and n_ret > 0
        # state of const char** parameters at the normal exits
        normal = [b for b in OUT if fn.exit in fn.succs(b) and not any(ends_path(fn, e) for e in fn.blocks[b]['elems'])]
        for d, (kind, name, pidx) in self.cursors.items():
            if kind == 'pp' and pidx is not None and normal and all(st.get(d, UNCHECKED) == CHECKED for b in normal for st in OUT[b]):
                self.post.add(pidx)
        # by-value pointer parameters that are only compared (checking helper)
        ptrs = [(i, p) for i, p in enumerate(fn.params) if p['tC'] in _PTR_T and p['d'] not in self.cursors]
        for (i, pi) in ptrs:
            for (j, pj) in ptrs:
                if i == j:
                    continue

                def classify(f, cid, pi=pi, pj=pj):
                    p = cmp_parts(f, cid)
                    if p is None:
                        return None
                    op, l, r = p
                    ln, rn = f.sn(l), f.sn(r)
                    if ln is None or rn is None or ln.get('k') != 'var' or rn.get('k') != 'var':
                        return None
                    if ln.get('d') == pi['d'] and rn.get('d') == pj['d']:
                        pass
                    elif ln.get('d') == pj['d'] and rn.get('d') == pi['d']:
                        op = _FLIP[op]
                    else:
                        return None
                    return {'!=': 'T', '<': 'T', '==': 'F', '>=': 'F'}.get(op)
                pe = classify_edges(fn, classify)
                if not pe:
                    continue
                w = path_search(fn, fn.entry, lambda e: isinstance(e, tuple) and e[0] == 'exit',
                                lambda e: ends_path(fn, e), lambda b, idx, s2, pe=pe: (b, idx) not in pe,
                                from_block_start=True)
                if w is None:
                    self.chk.add((i, j))
        return self

    def _ret_checked(self, nid, st):
        fn = self.fn
        if self.level_of(nid, st) == CHECKED:
            return True
        n = fn.sn(nid)
        if n is not None and n.get('k') == 'unop' and n.get('op') == '&':
            s = fn.sn(n['sub'])
            if s is not None and s.get('k') == 'call' and s.get('op') == '[]' and s.get('recv') is not None and fn.is_this_member(s['recv']):
                return True     # address of an element of an owned container member
        return False


# ------------------------------------------------------------------------------------------------ NUL-terminated prefix discipline
# A fixed-position text parser reads p[k] for constant k from a NUL-terminated string of unknown length.  The read of p[k] is
# inside the string only if p[0..k-1] are all non-NUL, i.e. each was tested on the way by a condition that is false for '\0'
# (digit range, == ':' ...).  Must-dataflow over the set of validated indices; facts live on branch edges (short-circuit
# operands are separate blocks; named bools are looked through).

_PSTR_T = ('const char *', 'const char *const', 'char *', 'const XML_Char *', 'const XML_Char *const')


def _zero_satisfies(op, c):
    return {'<': 0 < c, '<=': 0 <= c, '>': 0 > c, '>=': 0 >= c, '==': 0 == c, '!=': 0 != c}[op]


_CTYPE_NONZERO = ('isdigit', 'std::isdigit', 'isalpha', 'std::isalpha', 'isalnum', 'std::isalnum', 'isxdigit', 'std::isxdigit',
                  'isupper', 'std::isupper', 'islower', 'std::islower', 'ispunct', 'std::ispunct', 'isgraph', 'std::isgraph')


def predicate_excludes_zero(fb, g, depth=0):
    """a one-argument predicate helper (`is_digit(char c)`) that can only return true for a non-zero argument"""
    if g is None or not g.has_cfg or len(g.params) != 1 or depth > 2:
        return False
    d = g.params[0]['d']
    if definitions(g, d):
        return False

    def classify(f, cid):
        pc = cmp_parts(f, cid)
        if pc is None:
            n = f.sn(cid)
            if n is not None and n.get('k') == 'var' and n.get('d') == d:
                return 'T'
            return None
        op, l, r = pc
        ln, rn = f.sn(l), f.sn(r)
        if ln is not None and ln.get('k') == 'var' and ln.get('d') == d and f.const_value(r) is not None:
            c = f.const_value(r)
        elif rn is not None and rn.get('k') == 'var' and rn.get('d') == d and f.const_value(l) is not None:
            c, op = f.const_value(l), _FLIP[op]
        else:
            return None
        return 'F' if _zero_satisfies(op, c) else 'T'
    rets = [n for n in g.all_nodes() if n.get('k') == 'return' and 'sub' in n]
    if not rets:
        return False
    for r in rets:
        if g.const_value(r['sub']) == 0:
            continue
        if not _holds(g, r['sub'], True, classify):
            return False
    return True


class PrefixFlow:
    def __init__(self, fn, base_decl, fb=None):
        self.fn = fn
        self.p = base_decl
        self.fb = fb

    def _index_of(self, nid):
        """k if the expression is p[k] / *(p + k) / *p for the base pointer, else None"""
        fn = self.fn
        n = fn.sn(nid)
        hops = 0
        while n is not None and n.get('k') == 'cast' and hops < 4:     # static_cast<unsigned char>(p[k]) keeps zero / non-zero
            n = fn.sn(n['sub'])
            hops += 1
        if n is None:
            return None
        if n.get('k') == 'index':
            b = fn.sn(n['base'])
            if b is not None and b.get('k') == 'var' and b.get('d') == self.p:
                return fn.const_value(n['idx'])
        if n.get('k') == 'unop' and n.get('op') == '*':
            b = fn.sn(n['sub'])
            if b is not None and b.get('k') == 'var' and b.get('d') == self.p:
                return 0
            if b is not None and b.get('k') == 'binop' and b.get('op') == '+':
                l = fn.sn(b['lhs'])
                if l is not None and l.get('k') == 'var' and l.get('d') == self.p:
                    return fn.const_value(b['rhs'])
        return None

    def edge_facts(self, blk):
        """[(index, successor)] -- p[index] is known to be non-NUL on that edge"""
        fn = self.fn
        out = []
        for (a, truth, idx) in edge_atoms(fn, blk):
            k = self._index_of(a)
            if k is not None:
                if truth:
                    out.append((k, idx))
                continue
            pc = cmp_parts(fn, a)
            if pc is None:
                n = fn.sn(a)
                if truth and n is not None and n.get('k') == 'call' and len([x for x in n.get('args', []) if x is not None]) == 1:
                    k = self._index_of(n['args'][0])
                    if k is not None:
                        q = n.get('q') or n.get('name') or ''
                        g = (self.fb.by_usr.get(n.get('u')) or [None])[0] if (self.fb is not None and n.get('u')) else None
                        if q in _CTYPE_NONZERO or predicate_excludes_zero(self.fb, g):
                            out.append((k, idx))
                continue
            op, l, r = pc
            kl, kr = self._index_of(l), self._index_of(r)
            if kl is not None and fn.const_value(r) is not None:
                k, c = kl, fn.const_value(r)
            elif kr is not None and fn.const_value(l) is not None:
                k, c, op = kr, fn.const_value(l), _FLIP[op]
            else:
                continue
            if _zero_satisfies(op, c) != truth:
                out.append((k, idx))
        return out

    def run(self, extra_reads=()):
        """returns [(node id, k, missing indices)] for reads of p[k] reachable with an unvalidated smaller index"""
        fn = self.fn
        IN = {fn.entry: frozenset()}
        work = [fn.entry]
        while work:
            b = work.pop()
            st = IN[b]
            blk = fn.blocks[b]
            facts = self.edge_facts(blk)
            for idx, s2 in enumerate(blk['succs']):
                if s2 is None:
                    continue
                out = st | frozenset(k for (k, i) in facts if i == idx)
                old = IN.get(s2)
                new = out if old is None else (old & out)
                if old is None or new != old:
                    IN[s2] = new
                    work.append(s2)
        pos = fn.positions()
        bad = []
        reads = []
        for n in fn.all_nodes():
            k = self._index_of(n['id']) if n.get('k') in ('index', 'unop') else None
            if k is not None and k >= 1:
                reads.append((n['id'], k))
        reads += list(extra_reads)
        for (nid, k) in reads:
            if nid not in pos or pos[nid][0] not in IN:
                continue
            st = IN[pos[nid][0]]
            missing = [i for i in range(k) if i not in st]
            if missing:
                bad.append((nid, k, missing))
        return bad, reads
