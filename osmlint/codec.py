"""CODEC engine -- writer/reader table extraction for the PBF codec (shared by C01, C02).

Nothing here is rule logic: the functions turn the resolved program (fact base) into two tables

    pbf_emissions(fb)      every field the PBF *writer* side can emit                          -> [Emission]
    pbf_decoder_cases(fb)  every field the PBF *reader* side dispatches on                      -> Table([DecoderCase]), .problems
    pbf_switches(fb)       the same cases grouped per `switch (X.tag_and_type())`, with the `default` row (for C02: default skips,
                           every case consumes once)                                            -> [dict]
    pbf_spec(fb, M, n)     the specification witness transcribed in the enumerator name of field n of enum M in
                           protobuf_tags.hpp (`<label>_<type>_<field>`)                         -> Spec | None

Helpers of general use: template_args, var_types, static_object_type, tag_of, local_inits / through_locals (locals that only
name another expression), is_delta_encoded, enclosing_call, message_enums.  Rows are keyed by
(message enum, field number): the message is taken from the static type of the builder / message object the field is
written to / read from (`pbf_builder<M>`, `pbf_message<M>`), the number from the constant-folded tag expression, so an
enumerator of another enum with the same value, a renamed local or an extracted helper do not change the tables.

Writer shapes recognised (protozero API, resolved callees):
    X.add_<k>(TAG, value)                      scalar / string / bytes / message field
    X.add_packed_<k>(TAG, first, last)         packed field filled from an iterator range; when the range is a member
                                               container, the values are the arguments of push_back/emplace_back on
                                               that member anywhere in the same class
    packed_field_<k> f{X, TAG}; f.add_element(v)   packed field, values = add_element arguments on that variable
    pbf_builder<M2> sub{X, TAG}                nested message
Reader shapes:
    switch (X.tag_and_type()) { case tag_and_type(TAG, WIRE): ... }     one row per case label
    while (X.next(TAG, WIRE)) { ... }                                   one row
  and for each row what consumes the field: X.get_<k>() / X.skip(), X.get_view()/get_message()/get_string()/get_bytes()
  followed to (a) a varint_range variable and its next_<k>() calls (through by-reference parameters), (b) a nested
  pbf_message<M2>, (c) plain bytes.
A value "is delta coded" when it is the result of DeltaEncode::update (writer) / is passed to DeltaDecode::update (reader).
"""
import re

BUILDER = 'protozero::basic_pbf_builder'
WRITER = 'protozero::basic_pbf_writer'
MESSAGE = 'protozero::pbf_message'
READER = 'protozero::pbf_reader'
VARINT_RANGE = 'osmium::io::detail::varint_range'
DELTA_ENC = 'osmium::DeltaEncode::update'
DELTA_DEC = 'osmium::DeltaDecode::update'

WIRE_NAMES = {0: 'varint', 1: 'fixed64', 2: 'length_delimited', 5: 'fixed32'}

SCALARS = {'int32', 'int64', 'uint32', 'uint64', 'sint32', 'sint64', 'bool', 'enum',
           'fixed32', 'fixed64', 'sfixed32', 'sfixed64', 'float', 'double'}
BYTES = {'bytes', 'string', 'cstring', 'message'}

# C++ element type of protozero::detail::packed_field_{varint,svarint,fixed}<Buffer, T>  ->  protobuf scalar kind
_PACKED_T = {
    ('packed_field_varint', 'int'): 'int32', ('packed_field_varint', 'long'): 'int64',
    ('packed_field_varint', 'unsigned int'): 'uint32', ('packed_field_varint', 'unsigned long'): 'uint64',
    ('packed_field_varint', 'bool'): 'bool',
    ('packed_field_svarint', 'int'): 'sint32', ('packed_field_svarint', 'long'): 'sint64',
    ('packed_field_fixed', 'unsigned int'): 'fixed32', ('packed_field_fixed', 'unsigned long'): 'fixed64',
    ('packed_field_fixed', 'int'): 'sfixed32', ('packed_field_fixed', 'long'): 'sfixed64',
    ('packed_field_fixed', 'float'): 'float', ('packed_field_fixed', 'double'): 'double',
}


def template_args(t):
    """Top-level template arguments of a canonical type spelling ('A<B<C>, D>' -> ['B<C>', 'D'])."""
    if t is None or '<' not in t:
        return []
    s = t[t.index('<') + 1:t.rindex('>')]
    out, depth, cur = [], 0, ''
    for ch in s:
        if ch == '<':
            depth += 1
        elif ch == '>':
            depth -= 1
        if ch == ',' and depth == 0:
            out.append(cur.strip())
            cur = ''
        else:
            cur += ch
    if cur.strip():
        out.append(cur.strip())
    return out


def _clean_type(t):
    if t is None:
        return None
    t = t.strip()
    for pre in ('const ',):
        if t.startswith(pre):
            t = t[len(pre):]
    return t.rstrip('&* ').strip()


def short(q):
    """osmium::io::detail::OSMFormat::Way -> OSMFormat::Way"""
    if q is None:
        return '?'
    return q.replace('osmium::io::detail::', '')


class Emission:
    def __init__(self, **kw):
        self.msg = None        # qualified enum of the message written to
        self.num = None        # field number
        self.tag_enum = None   # qualified enum the TAG expression's enumerator belongs to (may differ from msg)
        self.kind = None       # int32 .. | bytes | string | message
        self.packed = False
        self.nested = None     # qualified enum of the nested message (pbf_builder<M2> sub{X, TAG})
        self.how = None        # add | add_packed | packed_field | nested
        self.values = []       # [(Fn, expr node id)] value expressions that end up in the field
        self.fn = None
        self.node = None
        self.column = None     # member container the values are collected in (add_packed_* from a member)
        self.__dict__.update(kw)

    @property
    def site(self):
        return self.fn.loc(self.node)

    def delta_flags(self):
        """set of booleans: is each value expression the result of DeltaEncode::update?"""
        return {is_delta_encoded(f, v) for (f, v) in self.values}

    def __repr__(self):
        return '<Emission %s#%s %s%s %s>' % (short(self.msg), self.num, 'packed ' if self.packed else '', self.kind, self.fn.name)


class Consumer:
    def __init__(self, kind, delta, fn, node):
        self.kind, self.delta, self.fn, self.node = kind, delta, fn, node

    def __repr__(self):
        return '<Consumer %s%s %s>' % (self.kind, ' delta' if self.delta else '', self.fn.name)


class DecoderCase:
    def __init__(self, **kw):
        self.msg = None
        self.num = None
        self.tag_enum = None
        self.wire = None         # numeric wire type in the case label
        self.fn = None
        self.node = None         # label expression / next() call
        self.accessors = []      # [(name, call node id)] calls on the message object inside the case
        self.scalar = None       # kind of the get_<k>() accessor
        self.view = False        # consumed through get_view / get_message / get_string / get_bytes
        self.nested = None       # nested pbf_message<M2> the view is parsed as
        self.packed = []         # [Consumer] next_<k>() calls on the varint_range the view ends up in
        self.range_var = None    # (Fn, decl id, name) of that varint_range
        self.throws = False
        self.__dict__.update(kw)

    @property
    def site(self):
        return self.fn.loc(self.node)

    @property
    def consumed(self):
        return self.scalar is not None or self.view

    def __repr__(self):
        return '<DecoderCase %s#%s wire=%s %s %s>' % (short(self.msg), self.num, self.wire, self.scalar or ('view' if self.view else 'skip'), self.fn.name)


# ------------------------------------------------------------------------------------------------ small helpers

def var_types(fn):
    """decl id -> canonical type for parameters and locals."""
    cache = getattr(fn, '_codec_vt', None)
    if cache is None:
        cache = {}
        for p in fn.params:
            cache[p['d']] = p['tC']
        for n in fn.all_nodes():
            if n.get('k') == 'decl':
                for v in n['vars']:
                    cache[v['d']] = v['tC']
        fn._codec_vt = cache
    return cache


def static_object_type(fn, nid):
    """Canonical type of the object an expression designates, looking through implicit derived-to-base casts."""
    x = nid
    hops = 0
    while x is not None and x in fn.nodes and hops < 20:
        hops += 1
        n = fn.nodes[x]
        if n.get('k') in ('wrap', 'icast') and 'sub' in n:
            x = n['sub']
            continue
        if n.get('k') == 'var' and n.get('d') in var_types(fn):
            return _clean_type(var_types(fn)[n['d']])
        return _clean_type(n.get('t'))
    return None


def message_of_type(t, classes):
    """M for 'protozero::basic_pbf_builder<Buf, M>' / 'protozero::pbf_message<M>' (None for untyped writers/readers)."""
    if t is None:
        return None
    base = t.split('<', 1)[0]
    if base not in classes:
        return None
    a = template_args(t)
    return a[-1] if a else None


def tag_of(fn, nid):
    """(number, qualified enum of the enumerator or None) of a TAG expression."""
    num = fn.const_value(nid)
    enum_q = None
    for x in fn.subtree(nid):
        n = fn.nodes[x]
        if n.get('k') == 'var' and n.get('vk') == 'enumconst':
            enum_q = n.get('t')
            if num is None and 'cv' in n:
                num = int(n['cv'])
            break
    return num, enum_q


def local_inits(fn):
    """decl id -> init expression id for locals that are initialised at their declaration and never written again
    (no assignment, ++/--, operator= or address-taking)."""
    cache = getattr(fn, '_codec_li', None)
    if cache is not None:
        return cache
    init = {}
    for n in fn.all_nodes():
        if n.get('k') == 'decl':
            for v in n['vars']:
                if isinstance(v.get('init'), int):
                    init[v['d']] = v['init']
    written = set()
    for n in fn.all_nodes():
        k = n.get('k')
        tgt = None
        if k == 'assign':
            tgt = n.get('lhs')
        elif k == 'unop' and n.get('op') in ('++', '--', '&'):
            tgt = n.get('sub')
        elif k == 'call' and n.get('op') in ('=', '+=', '-=', '++', '--') and n.get('recv') is not None:
            tgt = n['recv']
        if tgt is not None:
            s = fn.sn(tgt)
            if s is not None and s.get('k') == 'var':
                written.add(s.get('d'))
    cache = {d: i for d, i in init.items() if d not in written}
    fn._codec_li = cache
    return cache


def through_locals(fn, nid, max_hops=6):
    """Stripped node of an expression, looking through casts and through locals that only name another expression."""
    n = fn.sn(nid)
    hops = 0
    while n is not None and hops < max_hops:
        hops += 1
        if n.get('k') == 'cast':
            n = fn.sn(n['sub'])
            continue
        if n.get('k') == 'var' and n.get('vk', 'local') == 'local' and n.get('d') in local_inits(fn):
            n = fn.sn(local_inits(fn)[n['d']])
            continue
        break
    return n


def is_delta_encoded(fn, nid):
    n = through_locals(fn, nid)
    return n is not None and n.get('k') == 'call' and n.get('q') == DELTA_ENC


def enclosing_call(fn, nid, qname, max_hops=6):
    """Is node nid (transitively, through casts/wrappers only) an argument of a call to qname?  Returns that call node."""
    pm = fn.parent_map()
    x = nid
    hops = 0
    while x in pm and hops < max_hops:
        p = fn.nodes[pm[x]]
        hops += 1
        if p.get('k') in ('wrap', 'icast', 'cast'):
            x = p['id']
            continue
        if p.get('k') == 'call' and p.get('q') == qname and x in p.get('args', []):
            return p
        return None
    return None


def reaches_call(fn, nid, qname, depth=0):
    """Like enclosing_call, but also follows the value through locals that only name it (`const auto d = r.next_sint64();
    x.update(d)`).  Returns the call node or None."""
    c = enclosing_call(fn, nid, qname)
    if c is not None or depth > 3:
        return c
    pm = fn.parent_map()
    x = nid
    hops = 0
    while x in pm and hops < 8:
        p = fn.nodes[pm[x]]
        hops += 1
        if p.get('k') in ('wrap', 'icast', 'cast'):
            x = p['id']
            continue
        if p.get('k') == 'decl':
            for v in p['vars']:
                if isinstance(v.get('init'), int) and x in fn.subtree(v['init']) and local_inits(fn).get(v['d']) == v['init']:
                    for u in fn.all_nodes():
                        if u.get('k') == 'var' and u.get('d') == v['d']:
                            c = reaches_call(fn, u['id'], qname, depth + 1)
                            if c is not None:
                                return c
        return None
    return None


def _recv_root(fn, call):
    if call.get('recv') is None:
        return None
    return fn.root_var(call['recv'])


# ------------------------------------------------------------------------------------------------ specification witness

class Spec:
    def __init__(self, msg, num, enumerator, label, ptype, field):
        self.msg, self.num, self.enumerator, self.label, self.ptype, self.field = msg, num, enumerator, label, ptype, field

    @property
    def key(self):
        return '%s::%s' % (short(self.msg), self.enumerator)

    @property
    def packed(self):
        return self.label == 'packed'

    def __repr__(self):
        return '<Spec %s %s %s %s>' % (self.key, self.label, self.ptype, self.field)


_LABELS = ('required', 'optional', 'repeated', 'packed')


def pbf_spec(fb, msg, num):
    """Proto declaration transcribed in the enumerator name `<label>_<type>_<field>` of enum `msg` with value num."""
    e = fb.enum(msg)
    if e is None:
        return None
    for en in e.get('enumerators', e.get('values', [])):
        try:
            v = int(en.get('value', en.get('v')))
        except (TypeError, ValueError):
            continue
        if v == num:
            name = en['name']
            parts = name.split('_')
            if len(parts) >= 3 and parts[0] in _LABELS:
                return Spec(msg, num, name, parts[0], parts[1], '_'.join(parts[2:]))
            return Spec(msg, num, name, None, None, name)
    return None


def message_enums(fb, like):
    """Qualified names of all enums in the namespace of enum `like` (= the messages of that .proto file)."""
    ns = like.rsplit('::', 1)[0] + '::'
    return {e['q'] for e in fb.enums if e['q'].startswith(ns) and '::' not in e['q'][len(ns):]}


# ------------------------------------------------------------------------------------------------ writer side

def _column_values(fb, fn, field_q):
    """Arguments of push_back/emplace_back on member `field_q` in any method of fn's class."""
    out = []
    seen = set()
    for g in fb.functions:
        if g.cls != fn.cls or not g.has_cfg or g.pat in seen:
            continue
        vals = []
        for c in g.all_nodes():
            if c.get('k') != 'call' or not c.get('args'):
                continue
            nm = c.get('q', '').rsplit('::', 1)[-1]
            if nm not in ('push_back', 'emplace_back') or not c.get('q', '').startswith('std::vector'):
                continue
            r = _recv_root(g, c)
            if r is not None and r[0] == 'field' and r[1] == field_q:
                vals.append((g, c['args'][0], c['id']))
        if vals:
            seen.add(g.pat)
            out.extend(vals)
    return out


def pbf_emissions(fb):
    """All PBF field emissions found in function bodies of the fact base (deduplicated per template pattern + message)."""
    out = []
    seen = set()
    for fn in fb.functions:
        if not fn.has_cfg:
            continue
        for n in fn.all_nodes():
            k = n.get('k')
            e = None
            if k == 'call' and n.get('rcls') == BUILDER and n.get('q', '').startswith(BUILDER + '::add_') and n.get('args'):
                nm = n['q'].rsplit('::', 1)[-1][len('add_'):]
                msg = message_of_type(n.get('rclsT'), (BUILDER,))
                num, tenum = tag_of(fn, n['args'][0])
                e = Emission(msg=msg, num=num, tag_enum=tenum, fn=fn, node=n['id'])
                if nm.startswith('packed_'):
                    e.kind = nm[len('packed_'):]
                    e.packed = True
                    e.how = 'add_packed'
                    if len(n['args']) >= 2:
                        r = fn.root_var(n['args'][1])
                        if r is not None and r[0] == 'field':
                            e.column = (r[1], r[2])
                            e.values = [(g, v) for (g, v, _c) in _column_values(fb, fn, r[1])]
                            e.pushes = _column_values(fb, fn, r[1])
                else:
                    e.kind = nm
                    e.how = 'add'
                    e.values = [(fn, a) for a in n['args'][1:2]]
            elif k == 'construct' and n.get('rcls', '').startswith('protozero::detail::packed_field_') and len(n.get('args', [])) >= 2:
                base = n['rcls'].rsplit('::', 1)[-1]
                ta = template_args(n.get('rclsT'))
                kind = _PACKED_T.get((base, ta[-1] if ta else None))
                msg = message_of_type(static_object_type(fn, n['args'][0]), (BUILDER,))
                num, tenum = tag_of(fn, n['args'][1])
                e = Emission(msg=msg or tenum, num=num, tag_enum=tenum, fn=fn, node=n['id'], kind=kind, packed=True, how='packed_field')
                e.elem_type = ta[-1] if ta else None
                # the variable this temporary initialises, then its add_element calls
                d = None
                for m in fn.all_nodes():
                    if m.get('k') == 'decl':
                        for v in m['vars']:
                            if isinstance(v.get('init'), int) and fn.strip(v['init']) == n['id']:
                                d = v['d']
                e.var = d
                if d is not None:
                    for c in fn.all_nodes():
                        if c.get('k') == 'call' and c.get('q', '').endswith('::add_element') and c.get('args'):
                            r = _recv_root(fn, c)
                            if r is not None and r[0] == 'var' and r[1] == d:
                                e.values.append((fn, c['args'][0]))
            elif k == 'construct' and n.get('rcls') == BUILDER and len(n.get('args', [])) == 2:
                ptype = static_object_type(fn, n['args'][0])
                if ptype is not None and ptype.split('<', 1)[0] in (BUILDER, WRITER):
                    msg = message_of_type(ptype, (BUILDER,))
                    num, tenum = tag_of(fn, n['args'][1])
                    e = Emission(msg=msg or tenum, num=num, tag_enum=tenum, fn=fn, node=n['id'], kind='message', how='nested',
                                 nested=message_of_type(n.get('rclsT'), (BUILDER,)))
            if e is None:
                continue
            key = (fn.pat, n.get('o'), e.msg, e.num)
            if key in seen:
                continue
            seen.add(key)
            out.append(e)
    return out


# ------------------------------------------------------------------------------------------------ reader side

_GETTERS_VIEW = ('get_view', 'get_message', 'get_string', 'get_bytes', 'get_data')


def _range_consumers(fb, fn, d, depth=0, seen=None):
    """next_<k>() calls on the varint_range variable d of fn, following by-reference parameter passing."""
    out = []
    seen = set() if seen is None else seen
    if (id(fn), d) in seen or depth > 4:
        return out
    seen.add((id(fn), d))
    for c in fn.all_nodes():
        if c.get('k') != 'call':
            continue
        if c.get('rcls') == VARINT_RANGE and c.get('q', '').rsplit('::', 1)[-1].startswith('next_'):
            r = _recv_root(fn, c)
            if r is not None and r[0] == 'var' and r[1] == d:
                kind = c['q'].rsplit('::', 1)[-1][len('next_'):]
                out.append(Consumer(kind, reaches_call(fn, c['id'], DELTA_DEC) is not None, fn, c['id']))
        elif c.get('args') and c.get('u'):
            for i, a in enumerate(c['args']):
                s = fn.sn(a)
                if s is not None and s.get('k') == 'var' and s.get('d') == d:
                    for g in fb.by_usr.get(c['u'], []):
                        if g.has_cfg and i < len(g.params) and g.params[i]['tC'].startswith(VARINT_RANGE):
                            out.extend(_range_consumers(fb, g, g.params[i]['d'], depth + 1, seen))
    # one representative per (function pattern, source offset)
    uniq = {}
    for c in out:
        uniq.setdefault((c.fn.pat, c.fn.nodes[c.node].get('o')), c)
    return list(uniq.values())


def _range_var_from(fn, nid):
    """The variable a varint_range value (construct / call result at node nid) is stored in: (fn, decl id, name) or None."""
    pm = fn.parent_map()
    y = nid
    h2 = 0
    while y in pm and h2 < 8:
        pp = fn.nodes[pm[y]]
        h2 += 1
        if pp.get('k') in ('wrap', 'icast') or (pp.get('k') == 'construct' and (pp.get('elidable') or pp.get('copymove'))):
            y = pp['id']
            continue
        if pp.get('k') == 'call' and pp.get('op') == '=' and pp.get('recv') is not None:
            r = fn.root_var(pp['recv'])
            if r is not None and r[0] == 'var':
                return (fn, r[1], r[2])
        if pp.get('k') == 'decl':
            for v in pp['vars']:
                if isinstance(v.get('init'), int) and y in fn.subtree(v['init']):
                    return (fn, v['d'], v['name'])
        if pp.get('k') == 'return':
            return 'return'
        break
    return None


def _store_range(fb, fn, nid, case, stack):
    rv = _range_var_from(fn, nid)
    hops = 0
    st = list(stack)
    while rv == 'return' and st and hops < 4:
        hops += 1
        (cf, cn) = st.pop()
        rv = _range_var_from(cf, cn)
    # a helper that builds the range in a local and returns that local
    hops = 0
    while rv is not None and rv != 'return' and st and hops < 4:
        g, d = rv[0], rv[1]
        returned = any(n.get('k') == 'return' and 'sub' in n and (g.root_var(n['sub']) or (None, None))[:2] == ('var', d) for n in g.all_nodes())
        if not returned or g is not fn:
            break
        hops += 1
        (cf, cn) = st.pop()
        rv = _range_var_from(cf, cn)
        fn = cf
    if rv is not None and rv != 'return':
        case.range_var = rv
        case.packed = _range_consumers(fb, rv[0], rv[1])


def _follow_view(fb, fn, call, case, stack=()):
    """Where does the data_view / message returned by accessor `call` go?  `stack` = call sites ((fn, call node), ...) through
    which fn was entered when the accessor sits in a helper that was handed the message."""
    pm = fn.parent_map()
    x = call['id']
    hops = 0
    while x in pm and hops < 10:
        p = fn.nodes[pm[x]]
        hops += 1
        k = p.get('k')
        if k in ('wrap', 'icast', 'cast'):
            x = p['id']
            continue
        if k == 'construct' and p.get('rcls') == VARINT_RANGE:
            _store_range(fb, fn, p['id'], case, stack)
            return
        if k == 'construct' and p.get('rcls') == MESSAGE:
            case.nested = message_of_type(p.get('rclsT'), (MESSAGE,))
            return
        if k == 'construct' and (p.get('elidable') or p.get('copymove')):
            x = p['id']
            continue
        if k == 'call' and p.get('u') and x in p.get('args', []):
            i = p['args'].index(x)
            for g in fb.by_usr.get(p['u'], []):
                if not g.has_cfg or i >= len(g.params):
                    continue
                d = g.params[i]['d']
                for m in g.all_nodes():
                    if m.get('k') == 'construct' and m.get('rcls') == MESSAGE and m.get('args'):
                        r = g.root_var(m['args'][0])
                        if r is not None and r[0] == 'var' and r[1] == d:
                            case.nested = message_of_type(m.get('rclsT'), (MESSAGE,))
                            return
                    if m.get('k') == 'construct' and m.get('rcls') == VARINT_RANGE and m.get('args'):
                        r = g.root_var(m['args'][0])
                        if r is not None and r[0] == 'var' and r[1] == d:
                            # helper that wraps the view into a varint_range and returns it / stores it
                            _store_range(fb, g, m['id'], case, tuple(stack) + ((fn, p['id']),))
                            return
                break
            return
        if k == 'decl':
            # `pbf_message<M2> sub = X.get_message();` (elided copy) or `const auto view = X.get_view();`
            for v in p['vars']:
                t = _clean_type(v.get('tC'))
                if t and t.split('<', 1)[0] == MESSAGE:
                    case.nested = message_of_type(t, (MESSAGE,))
                    return
                if isinstance(v.get('init'), int) and x in fn.subtree(v['init']):
                    # a named local for the view: follow its uses
                    for u in fn.all_nodes():
                        if u.get('k') == 'var' and u.get('d') == v['d']:
                            _follow_view(fb, fn, u, case, stack)
                            if case.nested is not None or case.range_var is not None:
                                return
            return
        if k == 'return' and stack:
            (cf, cn) = stack[-1]
            _follow_view(fb, cf, cf.nodes[cn], case, stack[:-1])
            return
        return


def _case_regions(fn, sw_block):
    """[(label block, label dict, lo offset, hi offset)] for the labelled successors of a switch block, by source range."""
    labs = []
    for s in fn.blocks[sw_block]['succs']:
        if s is None:
            continue
        lab = fn.blocks[s].get('label')
        if lab and ('case' in lab or lab.get('default')):
            labs.append((lab.get('o', 0), s, lab))
    labs.sort(key=lambda x: x[0])
    term = fn.blocks[sw_block].get('term')
    tn = fn.nodes.get(term) if isinstance(term, int) else None
    end = tn.get('oe') if tn is not None else None
    if end is None:
        for sw in fn.switches:
            if labs and sw['b'] <= labs[0][0] <= sw['e']:
                end = sw['e'] if end is None else min(end, sw['e'])
    out = []
    for i, (o, s, lab) in enumerate(labs):
        hi = labs[i + 1][0] if i + 1 < len(labs) else (end if end is not None else 1 << 60)
        out.append((s, lab, o, hi))
    return out


def _fill_case(fb, fn, case, msg_root, lo, hi, label_tree, region=None, stack=()):
    """Collect what happens to the field in the part of fn given by the source range [lo, hi) or the predicate region(node):
    accessor calls on the message object msg_root, also inside helpers that are handed the message object."""
    def inside(n):
        if region is not None:
            return region(n)
        return lo <= n.get('o', -1) < hi
    for c in fn.all_nodes():
        if c.get('k') == 'throw' and inside(c):
            case.throws = True
        if c.get('k') != 'call' or c['id'] in label_tree or not inside(c):
            continue
        if c.get('rcls') not in (READER, MESSAGE):
            # a helper that receives the message object: its body belongs to the case
            if c.get('u') and c.get('args') and len(stack) < 3 and msg_root is not None:
                for i, a in enumerate(c['args']):
                    if fn.root_var(a) == msg_root and (fn.sn(a) or {}).get('k') == 'var':
                        for g in fb.by_usr.get(c['u'], []):
                            if g.has_cfg and i < len(g.params) and _clean_type(g.params[i]['tC']).split('<', 1)[0] in (READER, MESSAGE):
                                _fill_case(fb, g, case, ('var', g.params[i]['d'], g.params[i]['name']), -1, 1 << 60, set(), None,
                                           tuple(stack) + ((fn, c['id']),))
                                break
            continue
        r = _recv_root(fn, c)
        if r != msg_root:
            continue
        nm = c['q'].rsplit('::', 1)[-1]
        case.accessors.append((nm, c['id']))
        if nm in _GETTERS_VIEW:
            case.view = True
            case.view_accessor = nm
            _follow_view(fb, fn, c, case, stack)
        elif nm.startswith('get_packed_'):
            case.view = True
            case.view_accessor = nm
            case.packed.append(Consumer(nm[len('get_packed_'):], False, fn, c['id']))
        elif nm.startswith('get_'):
            case.scalar = nm[len('get_'):]
            case.scalar_node = c['id']
            case.scalar_fn = fn
            case.scalar_stack = tuple(stack)


def _ifchain_of(fb, fn):
    """Pseudo switch rows for `if (X.tag_and_type() == tag_and_type(TAG, WIRE)) ... else if ...` (X possibly named by a local)."""
    from .c01_util import edge_guards
    vt = var_types(fn)
    groups = {}
    used = set()
    for n in fn.all_nodes():
        if n.get('k') != 'binop' or n.get('op') != '==':
            continue
        sides = [(n['lhs'], n['rhs']), (n['rhs'], n['lhs'])]
        for (a, b) in sides:
            ta = through_locals(fn, a)
            tb = through_locals(fn, b)
            if (ta is not None and ta.get('k') == 'call' and ta.get('q', '').rsplit('::', 1)[-1] == 'tag_and_type' and ta.get('recv') is not None
                    and ta.get('rcls') in (READER, MESSAGE)
                    and tb is not None and tb.get('k') == 'call' and tb.get('q') == 'protozero::tag_and_type' and len(tb.get('args', [])) == 2):
                root = fn.root_var(ta['recv'])
                if root is not None and root[0] == 'var':
                    groups.setdefault(root, []).append((n, tb))
                    used.add(ta['id'])
                break
    out = []
    for root, cmps in groups.items():
        msg = message_of_type(_clean_type(vt.get(root[1])), (MESSAGE,))
        sw = {'fn': fn, 'block': None, 'cond': None, 'msg': msg, 'root': root, 'cases': [], 'default': None, 'kind': 'if-chain'}
        ids = [c[0]['id'] for c in cmps]
        for (n, tb) in cmps:
            num, tenum = tag_of(fn, tb['args'][0])
            wire = fn.const_value(tb['args'][1])
            case = DecoderCase(msg=msg or tenum, num=num, tag_enum=tenum, wire=wire, fn=fn, node=n['id'], how='if-chain')
            case.lo = n.get('o', 0)
            case.hi = case.lo
            case.block = None
            cid = n['id']

            def region(x, cid=cid):
                if x['id'] not in fn.positions():
                    return False
                return any(fn.strip(g) == cid and s for (g, s, _b) in edge_guards(fn, x['id']))
            _fill_case(fb, fn, case, root, 0, 0, set(fn.subtree(n['id'])), region)
            sw['cases'].append(case)
        d = DecoderCase(msg=msg, num=None, fn=fn, node=None, how='default')
        d.lo = d.hi = 0
        d.block = None

        def dregion(x):
            if x['id'] not in fn.positions():
                return False
            gs = edge_guards(fn, x['id'])
            return all(any(fn.strip(g) == cid and not s for (g, s, _b) in gs) for cid in ids)
        _fill_case(fb, fn, d, root, 0, 0, set(), dregion)
        if d.accessors:
            sw['default'] = d
        out.append(sw)
    return out, used


def _switches_of(fb, fn):
    """Rows for every `switch (X.tag_and_type())` of fn over a pbf_message<M> variable X."""
    out = []
    vt = var_types(fn)
    for b in fn.blocks.values():
        if b.get('termcls') != 'SwitchStmt' or 'cond' not in b:
            continue
        cn = through_locals(fn, b['cond'])   # `const auto tt = X.tag_and_type(); switch (tt)`
        if cn is None or cn.get('k') != 'call' or cn.get('q', '').rsplit('::', 1)[-1] != 'tag_and_type' or cn.get('recv') is None:
            continue
        root = fn.root_var(cn['recv'])
        if root is None or root[0] != 'var':
            continue
        msg = message_of_type(_clean_type(vt.get(root[1])), (MESSAGE,))
        sw = {'fn': fn, 'block': b['id'], 'cond': cn['id'], 'msg': msg, 'root': root, 'cases': [], 'default': None}
        for (s, lab, lo, hi) in _case_regions(fn, b['id']):
            if 'case' not in lab:
                if lab.get('default'):
                    d = DecoderCase(msg=msg, num=None, fn=fn, node=None, how='default')
                    d.lo, d.hi, d.block = lo, hi, s
                    _fill_case(fb, fn, d, root, lo, hi, set())
                    sw['default'] = d
                continue
            tree = set(fn.subtree(lab['case']))
            call = None
            for x in tree:
                nx = fn.nodes[x]
                if nx.get('k') == 'call' and nx.get('q') == 'protozero::tag_and_type' and len(nx.get('args', [])) == 2:
                    call = nx
            if call is None:
                continue
            num, tenum = tag_of(fn, call['args'][0])
            wire = fn.const_value(call['args'][1])
            case = DecoderCase(msg=msg or tenum, num=num, tag_enum=tenum, wire=wire, fn=fn, node=lab['case'], how='switch')
            case.lo, case.hi, case.block = lo, hi, s
            _fill_case(fb, fn, case, root, lo, hi, tree)
            sw['cases'].append(case)
        out.append(sw)
    return out


def pbf_switches(fb):
    """Every `switch (X.tag_and_type())` over a pbf_message<M>: dict(fn, block, cond, msg, root=('var', decl, name),
    cases=[DecoderCase with .lo/.hi source range, .block, .accessors], default=DecoderCase-like row (accessors = calls on X) or None).
    One row per function body (template instantiations are separate bodies; de-duplicate by fn.pat if needed)."""
    out = []
    for fn in fb.functions:
        if fn.has_cfg:
            out.extend(_switches_of(fb, fn))
            if any(c.get('k') == 'call' and c.get('q', '').endswith('::tag_and_type') and c.get('rcls') in (READER, MESSAGE) for c in fn.all_nodes()):
                out.extend(_ifchain_of(fb, fn)[0])
    return out


class Table(list):
    """list of rows + `problems`: shapes that look like part of the codec but were not understood (=> analysis-broken)."""

    def __init__(self, *a):
        list.__init__(self, *a)
        self.problems = []


def pbf_decoder_cases(fb):
    out = Table()
    seen = set()
    for fn in fb.functions:
        if not fn.has_cfg:
            continue
        vt = var_types(fn)
        # dispatch on the field of a pbf_message<> that is not `switch (X.tag_and_type())` / `X.next(TAG, WIRE)`
        sw_conds = {through_locals(fn, b['cond'])['id'] for b in fn.blocks.values()
                    if b.get('termcls') == 'SwitchStmt' and 'cond' in b and through_locals(fn, b['cond']) is not None}
        chains, chain_used = ([], set())
        if any(c.get('k') == 'call' and c.get('rcls') in (READER, MESSAGE) and c.get('q', '').endswith('::tag_and_type') and c['id'] not in sw_conds
               for c in fn.all_nodes()):
            chains, chain_used = _ifchain_of(fb, fn)
        for sw in chains:
            for case in sw['cases']:
                key = (fn.pat, case.lo, case.msg, case.num)
                if key not in seen:
                    seen.add(key)
                    out.append(case)
        for c in fn.all_nodes():
            if c.get('k') == 'call' and c.get('rcls') in (READER, MESSAGE) and c.get('q', '').rsplit('::', 1)[-1] in ('tag_and_type', 'tag', 'wire_type'):
                if c['id'] not in sw_conds and c['id'] not in chain_used:
                    out.problems.append('%s: %s() is used outside a switch condition at %s -- dispatch shape not understood'
                                        % (fn.q, c['q'].rsplit('::', 1)[-1], fn.loc(c['id'])))
        # ---- switch (X.tag_and_type())
        for sw in _switches_of(fb, fn):
            for case in sw['cases']:
                key = (fn.pat, case.lo, case.msg, case.num)
                if key not in seen:
                    seen.add(key)
                    out.append(case)
        # ---- while (X.next(TAG, WIRE))
        for c in fn.all_nodes():
            if c.get('k') == 'call' and c.get('q') in (MESSAGE + '::next', READER + '::next') and len(c.get('args', [])) == 2 and c.get('recv') is not None:
                root = fn.root_var(c['recv'])
                if root is None or root[0] != 'var':
                    continue
                msg = message_of_type(_clean_type(vt.get(root[1])), (MESSAGE,))
                num, tenum = tag_of(fn, c['args'][0])
                wire = fn.const_value(c['args'][1])
                case = DecoderCase(msg=msg or tenum, num=num, tag_enum=tenum, wire=wire, fn=fn, node=c['id'], how='next')
                _fill_case(fb, fn, case, root, -1, 1 << 60, set(fn.subtree(c['id'])))
                key = (fn.pat, c.get('o'), case.msg, case.num)
                if key not in seen:
                    seen.add(key)
                    out.append(case)
    return out


def pbf_tables(fb):
    """(emissions, decoder cases) -- convenience for rule modules."""
    return pbf_emissions(fb), pbf_decoder_cases(fb)
