"""Helpers for the C09 rule module: the pull-function convention table (how zlib / libbz2 / read(2) report data, end of
stream and end of input), status assumptions on top of the ERRDISC walk, and small shape recognisers.  No verdicts here."""
from . import errdisc as E
from .c08_util import scn, strip_casts, vars_in, cond_blocks, is_exit, catch_all_handler, nodes_in_handler, must_pass  # noqa: F401
from .flow import path_search

DECOMP = 'osmium::io::Decompressor'
RTM = 'osmium::io::detail::ReadThreadManager'

STRING_MUTATORS = {'resize', 'append', 'assign', 'clear', 'erase', 'push_back', 'pop_back', 'operator+=', 'operator=', 'insert',
                   'replace', 'swap', 'shrink_to_fit'}


class Pull:
    """Convention of a library function a Decompressor::read override pulls decompressed bytes from.

    status       'ret' (the return value is the status) or ('out', i) (status stored through pointer argument i)
    more         status values meaning "delivered data, more may follow"
    eof          status values meaning "end of the input" (a true end), or None
    stream_end   status values meaning "end of ONE compressed stream" (the input may hold further streams), or None
    count        'ret': the return value is the number of bytes produced; 'stream': the bytes produced are the advance of
                 <stream>.next_out / the decrease of <stream>.avail_out
    positive     under `more` the convention itself guarantees count >= 1
    stream_arg   index of the argument that is the address of the z_stream / bz_stream (count == 'stream')
    reinit       functions that start decoding the next stream
    unused       how the library exposes input it has read but not consumed: ('query', function, pointer arg, count arg)
                 or ('avail_in',) (field of the stream object)
    """

    def __init__(self, name, status, more, eof=None, stream_end=None, count='ret', positive=False, stream_arg=None, reinit=(),
                 unused=None, names=None, file_arg=None):
        self.name = name
        self.status = status
        self.more = more
        self.eof = eof
        self.stream_end = stream_end
        self.count = count
        self.positive = positive
        self.stream_arg = stream_arg
        self.reinit = set(reinit)
        self.unused = unused
        self.names = names or {}
        # index of the FILE* argument of a reinit call when the library reads the file itself: it reads in blocks, so "no unused
        # bytes" does not mean "no more input" (the stream may end exactly on a block) -- only an end-of-file probe does
        self.file_arg = file_arg

    def statuses(self):
        out = [('more', self.more)]
        if self.eof is not None:
            out.append(('eof', self.eof))
        if self.stream_end is not None:
            out.append(('stream-end', self.stream_end))
        return out


PULLS = {
    # zlib gz layer: > 0 bytes, 0 at end of file, -1 error; handles concatenated members itself (whitelisted for clause 3)
    'gzread': Pull('gzread', 'ret', E.ge(1), eof=E.fin(0), positive=True, names={'more': 'data'}),
    'read': Pull('read', 'ret', E.ge(1), eof=E.fin(0), positive=True, names={'more': 'data'}),
    # libbz2 high level: *bzerror BZ_OK (0): the buffer was filled completely (len > 0); BZ_STREAM_END (4): the logical end of
    # one stream, return value = bytes produced (possibly 0)
    'BZ2_bzRead': Pull('BZ2_bzRead', ('out', 0), E.fin(0), stream_end=E.fin(4), positive=True, reinit={'BZ2_bzReadOpen'},
                       unused=('query', 'BZ2_bzReadGetUnused', 2, 3), names={'more': 'BZ_OK', 'stream-end': 'BZ_STREAM_END'}, file_arg=1),
    # zlib inflate: Z_OK (0) progress was made (possibly on the input only: zero bytes produced), Z_STREAM_END (1)
    'inflate': Pull('inflate', 'ret', E.fin(0), stream_end=E.fin(1), count='stream', stream_arg=0,
                    reinit={'inflateReset', 'inflateReset2', 'inflateInit_', 'inflateInit2_'}, unused=('avail_in',),
                    names={'more': 'Z_OK', 'stream-end': 'Z_STREAM_END'}),
    # libbz2 low level: BZ_OK (0) also when the input ran dry (no BUF_ERROR equivalent), BZ_STREAM_END (4)
    'BZ2_bzDecompress': Pull('BZ2_bzDecompress', 'ret', E.fin(0), stream_end=E.fin(4), count='stream', stream_arg=0,
                             reinit={'BZ2_bzDecompressInit'}, unused=('avail_in',),
                             names={'more': 'BZ_OK', 'stream-end': 'BZ_STREAM_END'}),
}

# Where a decompressor may take the read offset it reports from (Reader::offset() is compared with the file size):
OFFSET_COMPRESSED = {'gzoffset', 'gzoffset64', 'ftell', 'ftello', 'ftello64', 'lseek', 'lseek64'}   # position in the (compressed) file
OFFSET_UNCOMPRESSED = {'gztell', 'gztell64'}                                                          # position in the decoded data
# End-of-file probes on a FILE*: a byte is fetched (and pushed back); EOF == -1
EOF_PROBES = {'fgetc', 'getc', 'fgetc_unlocked', 'getc_unlocked', '_IO_getc'}
EOF_FLAG = {'feof', 'feof_unlocked'}
# extern "C" functions of the read side without an error convention that osmlint/errdisc.py does not list
LOCAL_IGNORABLE = dict({n: 'offset source (rule O1)' for n in OFFSET_COMPRESSED | OFFSET_UNCOMPRESSED},
                       **{n: 'end-of-file probe: the result is the tested value (rule X2)' for n in EOF_PROBES | EOF_FLAG},
                       ungetc='push-back of the probed byte; cannot fail for one byte after a successful read')

# handle-producing open function -> functions that close such a handle (read side)
OPEN_CLOSE = {
    'gzdopen': {'gzclose_r', 'gzclose'}, 'gzopen': {'gzclose_r', 'gzclose'}, 'gzopen64': {'gzclose_r', 'gzclose'},
    'BZ2_bzReadOpen': {'BZ2_bzReadClose'},
}


def dedupe(fns):
    seen = set()
    out = []
    for f in fns:
        if f.pat in seen or not f.has_cfg:
            continue
        seen.add(f.pat)
        out.append(f)
    return out


def decompressor_classes(fb):
    return [r for r in fb.derived_from(DECOMP)]


def read_path_functions(fb):
    """Everything reachable from the Decompressor subclasses, their record-typed members (file_wrapper) and the read thread."""
    classes = {DECOMP, RTM} | {r.q for r in decompressor_classes(fb)}
    for c in list(classes):
        for r in fb.records_named(c):
            for f in r.fields:
                if f.get('rec', '').startswith('osmium::io::'):
                    classes.add(f['rec'])
    roots = [f for f in fb.functions if f.cls in classes]
    return E.closure_fns(fb, roots), classes


def method_of(fb, cls, name):
    return dedupe([f for f in fb.functions if f.cls == cls and f.name == name and f.kind == 'method'])


def elements(fn):
    return {e for b in fn.blocks.values() for e in b['elems']}


def assigned_from(fn, call):
    """decl id of the local that receives the call's result (declaration initialiser or plain assignment), else None."""
    pm = fn.parent_map()
    x = call['id']
    hops = 0
    while x in pm and hops < 8:
        x = pm[x]
        hops += 1
        n = fn.nodes[x]
        if n.get('k') == 'assign' and n.get('op') == '=':
            c = E.carrier_of(fn, n['lhs'])
            return c[1] if c and c[0] == 'var' else None
        if n.get('k') == 'decl':
            for v in n['vars']:
                if isinstance(v.get('init'), int) and call['id'] in fn.subtree(v['init']):
                    return v['d']
            return None
        if n.get('k') == 'initlist' and len(fn.children(x)) == 1:
            continue
        if n.get('k') not in ('wrap', 'icast', 'cast', 'construct'):
            return None
    return None


def field_assigned_from(fn, call):
    """qualified name of the this-member that receives the call's result (assignment or ctor initialiser), else None."""
    pm = fn.parent_map()
    x = call['id']
    hops = 0
    while x in pm and hops < 8:
        x = pm[x]
        hops += 1
        n = fn.nodes[x]
        if n.get('k') == 'assign' and n.get('op') == '=':
            c = E.carrier_of(fn, n['lhs'])
            return c[1] if c and c[0] == 'field' else None
        if n.get('k') == 'init' and n.get('q'):
            return n['q']
        if n.get('k') not in ('wrap', 'icast', 'cast'):
            return None
    return None


def addr_carrier(fn, arg):
    """carrier whose address is passed as `arg` (&local / &this->member), else None."""
    an = fn.sn(arg) if arg is not None else None
    if an is not None and an.get('k') == 'unop' and an.get('op') == '&':
        return E.carrier_of(fn, an['sub'])
    return None


def wrapper_pull(fb, call):
    """The callee is a library helper that returns, untouched, the result of exactly one 'ret'-status pull function whose
    failure never leaves the helper by `return` (reliable_read around ::read).  Returns the Pull or None."""
    if E.is_extern_c(call) or 'u' not in call or not call.get('q', '').startswith('osmium::'):
        return None
    for g in dedupe(fb.by_usr.get(call['u'], [])):
        pulls = [n for n in g.all_nodes() if E.is_extern_c(n) and n['q'] in PULLS]
        if len(pulls) != 1:
            return None
        p = PULLS[pulls[0]['q']]
        if p.status != 'ret' or p.count != 'ret':
            return None
        d = assigned_from(g, pulls[0])
        rets = [n for n in g.all_nodes() if n.get('k') == 'return' and isinstance(n.get('sub'), int)]
        if not rets:
            return None
        for r in rets:
            s = scn(g, r['sub'])
            if s is None:
                return None
            if s.get('id') == pulls[0]['id']:
                continue
            if not (d is not None and s.get('k') == 'var' and s.get('d') == d):
                return None
        conv = E.CONVENTIONS.get(pulls[0]['q'])
        if conv is None:
            return None
        verdict, _msg, _o = E.check_site(fb, g, pulls[0], conv)
        if verdict != 'ok':
            return None
        return p
    return None


def pull_calls(fb, fn):
    """[(call node, Pull)] of a read() body."""
    out = []
    for n in fn.all_nodes():
        if n.get('k') != 'call':
            continue
        if E.is_extern_c(n) and n.get('q') in PULLS:
            out.append((n, PULLS[n['q']]))
        else:
            p = wrapper_pull(fb, n)
            if p is not None:
                out.append((n, p))
    return out


def call_name(call):
    return call['q'].rsplit('::', 1)[-1]


def position_after(fn, call):
    pos = fn.positions()
    if call['id'] not in pos:
        return None
    b, i = pos[call['id']]
    elems = fn.blocks[b]['elems']
    if i >= len(elems) or elems[i] != call['id']:
        return None
    return (b, i + 1)


def assume(fb, fn, call, pull, fs, stop_at=(), extra=None):
    """ERRDISC walk from `call` under the assumption that its status lies in fs.  None if the status channel has an unknown shape."""
    if pull.status == 'ret':
        env = {('node', call['id']): fs}
    else:
        idx = pull.status[1]
        args = call.get('args', [])
        c = addr_carrier(fn, args[idx]) if idx < len(args) else None
        if c is None:
            return None
        env = {c: fs}
    start = position_after(fn, call)
    if start is None:
        return None
    for k, v in state_env(fn, call).items():
        env.setdefault(k, v)
    for k, v in seed_env(fn, exclude=(call['id'],)).items():
        env.setdefault(k, v)
    for k, v in (extra or {}).items():
        env[k] = v
    return E.explore(fn, start, env, site=call['id'], fb=fb, facts=E.guard_facts(fn, call['id']), stop_at=set(stop_at))


def _success_set(fs):
    """the values a call returns when it did not fail, as far as the failure set determines them."""
    if fs.kind == 'fin':
        if fs.data == frozenset([0]):
            return E.ge(1)                 # null / 0 on failure: non-null otherwise
        if fs.data == frozenset([-1]):
            return E.ge(0)                 # POSIX
        if 0 not in fs.data and 1 not in fs.data:
            return E.fin(0)                # zlib / libbz2 codes: Z_OK / BZ_OK
        return None
    if fs.kind == 'lt':
        return E.ge(fs.data)
    return None


def seed_env(fn, exclude=(), _memo={}):
    """Static facts the three-valued walk cannot derive by itself, as environment entries keyed by expression node:
      * an integer / null constant stored to a variable or member (`result = Z_BUF_ERROR;`, `m_buffer = nullptr;`) is that value
        (the engine only propagates values it was seeded with);
      * a call of a convention-table function other than the pull functions returns its success value: its failure is a site of
        its own (E1 requires that no normal exit is reachable from it), so the rules about normal paths need not follow it."""
    key = (id(fn), tuple(exclude))
    if key in _memo:
        return _memo[key]
    env = {}
    for n in fn.all_nodes():
        k = n.get('k')
        if k == 'assign' and n.get('op') == '=' and isinstance(n.get('rhs'), int):
            v = E.const_of(fn, n['rhs'])
            if v is not None and E.carrier_of(fn, n['lhs']) is not None:
                env[('node', n['rhs'])] = E.fin(v)
        elif k == 'decl':
            for var in n['vars']:
                # (const locals are constants wherever they are read; seeding them would put a value on both sides of `x == k`)
                if isinstance(var.get('init'), int) and not var.get('tC', '').startswith('const '):
                    v = E.const_of(fn, var['init'])
                    if v is not None:
                        env[('node', var['init'])] = E.fin(v)
        elif E.is_extern_c(n) and n['id'] not in exclude and n['q'] not in PULLS:
            conv = E.CONVENTIONS.get(n['q'])
            if conv is not None:
                for ch in conv.channels:
                    if ch[0] == 'ret':
                        ok = _success_set(ch[1])
                        if ok is not None:
                            env[('node', n['id'])] = ok
    _memo[key] = env
    return env


def state_env(fn, call, until=None):
    """What the guards of the pull call say about the object's own members when the call executes (`if (m_buffer)`: m_buffer is
    non-null; `if (!m_stream_end)`: m_stream_end is 0), as an ERRDISC environment: the walk keeps it until the member is assigned.
    With `until`, members that can be assigned between the call and element `until` are left out."""
    env = {}
    for (c, sense, fields) in state_guards(fn, call):
        if len(fields) != 1:
            continue
        car = ('field', next(iter(fields)))
        zero, nonzero = E.fin(0), E.ge(1)
        for cand, other in ((zero, nonzero), (nonzero, zero)):
            if E.eval3(fn, c, {car: cand}) is sense and E.eval3(fn, c, {car: other}) is (not sense):
                env[car] = cand
    if until is not None:
        for n in fn.all_nodes():
            if n.get('k') == 'assign':
                car = E.carrier_of(fn, n['lhs'])
                bar = lambda e: e == call['id']       # passing the pull call again re-establishes its guards
                if car in env and reaches(fn, call['id'], n['id'], barrier=bar) and reaches(fn, n['id'], until, barrier=bar):
                    env.pop(car)
    return env


def walk_from(fb, fn, node, site=None, stop_at=(), env=None, seeded=False):
    """ERRDISC walk from just after element `node` without any assumption (all branches feasible)."""
    start = position_after(fn, node)
    if start is None:
        return None
    env = dict(env or {})
    if seeded:
        for k, v in seed_env(fn).items():
            env.setdefault(k, v)
    return E.explore(fn, start, env, site=site, fb=fb, stop_at=set(stop_at))


def on_normal_path(o, fn, start_node, nid):
    """Outcome o of a walk that started right after element start_node: is element nid on a path that reaches a normal exit?
    (Every distinct (block, environment) state keeps a witness path; a constant stored by nid changes the environment, so a
    path through nid is never merged with one around it.)"""
    if o is None:
        return False
    pos = fn.positions()
    if nid not in pos or nid not in o.reached:
        return False
    bd = pos[nid][0]
    same_block = start_node in pos and pos[start_node][0] == bd and pos[start_node][1] < pos[nid][1]
    for p in o.exits:
        if same_block or ('B', bd) in p:
            return True
    return False


def returned_local(fn):
    """decl id of the local every value-returning `return` hands back, or None (temporaries, several variables)."""
    ds = set()
    for n in fn.all_nodes():
        if n.get('k') == 'return' and isinstance(n.get('sub'), int):
            rv = fn.root_var(n['sub'])
            if rv is None or rv[0] != 'var':
                return None
            ds.add(rv[1])
    # `return helper();` in normal form: the result local of the inlined helper stands for the local(s) the helper returned
    hops = 0
    while hops < 4:
        hops += 1
        nxt = set()
        moved = False
        for d in ds:
            inits = [v['init'] for m in fn.all_nodes() if m.get('k') == 'decl' and m.get('inlined_return')
                     for v in m['vars'] if v['d'] == d and isinstance(v.get('init'), int)]
            if not inits:
                nxt.add(d)
                continue
            for i in inits:
                rv = fn.root_var(i)
                if rv is None or rv[0] != 'var':
                    return None
                nxt.add(rv[1])
                moved = True
        ds = nxt
        if not moved:
            break
    return ds.pop() if len(ds) == 1 else None


def stream_field(fn, call, pull):
    """qualified name of the this-member whose address is the stream argument of the pull call."""
    if pull.stream_arg is None:
        return None
    args = call.get('args', [])
    if pull.stream_arg >= len(args):
        return None
    c = addr_carrier(fn, args[pull.stream_arg])
    return c[1] if c is not None and c[0] == 'field' else None


def is_stream_member(fn, nid, sq, names):
    """node is <this->stream>.<name> for one of names."""
    n = fn.nodes.get(nid)
    if n is None or n.get('k') != 'member' or n.get('name') not in names:
        return False
    b = fn.sn(n.get('base'))
    return b is not None and b.get('k') == 'member' and b.get('q') == sq and fn.is_this_member(b['id'])


def string_call_on(fn, n, d, names):
    """call node n is std::basic_string::<name> on local d."""
    if n.get('k') != 'call' or not n.get('q', '').startswith('std::basic_string::') or call_name(n) not in names:
        return False
    if n.get('recv') is None:
        return False
    rv = fn.root_var(n['recv'])
    return rv is not None and rv[0] == 'var' and rv[1] == d


def points_into_string(fn, nid, d):
    """expression derives a pointer to the first character of local string d (data(), c_str(), &*begin(), &front(), &s[0])."""
    for x in fn.subtree(nid):
        n = fn.nodes[x]
        if string_call_on(fn, n, d, {'data', 'c_str', 'begin', 'front', 'operator[]'}):
            return True
    return False


def resolve_alias(fn, nid, depth=3):
    """Look through `const auto n = <expr>;` : the (cast-stripped) node an expression denotes, following locals that are
    initialised once and never assigned."""
    n = scn(fn, nid)
    hops = 0
    while n is not None and n.get('k') == 'var' and n.get('vk') == 'local' and hops < depth:
        hops += 1
        d = n['d']
        if any(m.get('k') == 'assign' and E.carrier_of(fn, m['lhs']) == ('var', d) for m in fn.all_nodes()):
            break
        if any(m.get('k') == 'unop' and m.get('op') in ('++', '--', '&') and E.carrier_of(fn, m['sub']) == ('var', d) for m in fn.all_nodes()):
            break
        i = decl_init(fn, d)
        if i is None:
            break
        nn = scn(fn, i)
        if nn is None:
            break
        n = nn
    return n


def count_resizes(fn, call, pull, X):
    """Classify the std::string::resize calls on the returned local X that can execute after the pull call.
    -> (valid, unknown): valid = resize to exactly the number of bytes the library produced; unknown = mentions the count in a
    shape this recogniser does not know."""
    valid, unknown = [], []
    after = set(fn.elems_after(call['id']))
    cv = assigned_from(fn, call) if pull.count == 'ret' else None
    sq = stream_field(fn, call, pull)
    window = None
    avail = None
    if pull.count == 'stream' and sq is not None:
        for n in fn.all_nodes():
            if n.get('k') == 'assign' and n.get('op') == '=' and fn.elem_dominates(n['id'], call['id']):
                if is_stream_member(fn, fn.strip(n['lhs']), sq, {'next_out'}) and points_into_string(fn, n['rhs'], X):
                    window = n
                if is_stream_member(fn, fn.strip(n['lhs']), sq, {'avail_out'}):
                    avail = n
    for n in fn.all_nodes():
        if not string_call_on(fn, n, X, {'resize'}) or n['id'] not in after or not n.get('args'):
            continue
        a = scn(fn, n['args'][0])
        if a is None:
            continue
        if pull.count == 'ret':
            if a.get('id') == call['id'] or (cv is not None and a.get('k') == 'var' and a.get('d') == cv):
                valid.append(n)
                continue
            a2 = resolve_alias(fn, n['args'][0])
            if a2 is not None and (a2.get('id') == call['id'] or (cv is not None and a2.get('k') == 'var' and a2.get('d') == cv)):
                valid.append(n)
            elif cv is not None and cv in data_sources(fn, n['args'][0]):
                unknown.append(n)
            continue
        a = resolve_alias(fn, n['args'][0])
        # the advance of a running total over this call: total_out - <local holding total_out from before the call>
        if a.get('k') == 'binop' and a.get('op') == '-':
            l, r = strip_casts(fn, a['lhs']), scn(fn, a['rhs'])
            ln = fn.nodes.get(l) or {}
            if is_stream_member(fn, l, sq, {'total_out', 'total_out_lo32'}) and r is not None and r.get('k') == 'var' and r.get('vk') == 'local':
                i = decl_init(fn, r['d'])
                de = next((m['id'] for m in fn.all_nodes() if m.get('k') == 'decl' and any(v['d'] == r['d'] for v in m['vars'])), None)
                if i is not None and de is not None and fn.elem_dominates(de, call['id']) \
                        and is_stream_member(fn, strip_casts(fn, i), sq, {ln.get('name')}) \
                        and not any(m.get('k') == 'assign' and E.carrier_of(fn, m['lhs']) == ('var', r['d']) for m in fn.all_nodes()):
                    # (taken once before a loop that pulls repeatedly it is still the count of the last call as long as the loop
                    # only goes on without data -- which S2 decides)
                    valid.append(n)
                    continue
        mentions = any(is_stream_member(fn, x, sq, {'next_out', 'avail_out'}) for x in fn.subtree(a['id']))
        if not mentions:
            # (a running total -- total_out, total_out_lo32 / _hi32 -- is not the number of bytes THIS call produced: such a resize
            # is simply not a cut to the count; S1 then reports the path, see cumulative_resizes)
            continue
        ok = False
        if a.get('k') == 'binop' and a.get('op') == '-':
            l, r = strip_casts(fn, a['lhs']), strip_casts(fn, a['rhs'])
            if window is not None and is_stream_member(fn, l, sq, {'next_out'}) and points_into_string(fn, a['rhs'], X):
                ok = True
            elif avail is not None and is_stream_member(fn, r, sq, {'avail_out'}):
                lv, av = E.const_of(fn, a['lhs']), E.const_of(fn, avail['rhs'])
                if lv is not None and lv == av:
                    ok = True
                elif fn.expr(strip_casts(fn, a['lhs'])) == fn.expr(strip_casts(fn, avail['rhs'])):
                    ok = True
        (valid if ok else unknown).append(n)
    return valid, unknown


CUMULATIVE_COUNTERS = {'total_out', 'total_out_lo32', 'total_out_hi32', 'total_in', 'total_in_lo32', 'total_in_hi32'}


def cumulative_resizes(fn, call, pull, X):
    """resize calls on the returned string, after the pull call, whose length is computed from a running total of the stream."""
    sq = stream_field(fn, call, pull)
    if sq is None or X is None:
        return []
    after = set(fn.elems_after(call['id']))
    out = []
    for n in fn.all_nodes():
        if string_call_on(fn, n, X, {'resize'}) and n['id'] in after and n.get('args'):
            srcs = [n['args'][0]] + [i for i in (decl_init(fn, d) for d in data_sources(fn, n['args'][0])) if i is not None]
            if any(is_stream_member(fn, x, sq, CUMULATIVE_COUNTERS) for s_ in srcs for x in fn.subtree(s_)):
                out.append(n)
    return out


def sized_probes(fn, call, pull, X):
    """size() / length() / empty() calls on the returned string that speak about the library's byte count: the string has been
    cut to the count on every path from the pull call to the probe (a probe the loop condition makes before the resize sees the
    full buffer, not the count)."""
    if X is None:
        return set()
    valid, _unknown = count_resizes(fn, call, pull, X)
    vids = {n['id'] for n in valid}
    after = set(fn.elems_after(call['id']))
    out = set()
    for n in fn.all_nodes():
        if n.get('k') == 'call' and string_call_on(fn, n, X, {'size', 'length', 'empty'}):
            e = element_of(fn, n['id'])
            if e is None or e not in after or not vids:
                continue
            if path_search(fn, call['id'], lambda t: t == e, lambda t: t in vids) is None:
                out.add(n['id'])
    return out


def count_test_elements(fn, call, pull, X):
    """Elements of branch conditions that read the number of bytes produced (count variable, stream output cursor, size of the
    returned string): a path that passes one of them has looked at the count before returning."""
    els = elements(fn)
    cv = assigned_from(fn, call) if pull.count == 'ret' else None
    sq = stream_field(fn, call, pull)
    out = set()
    after = set(fn.elems_after(call['id']))
    sized = sized_probes(fn, call, pull, X)

    def mentions(c, depth=0):
        for x in fn.subtree(c):
            n = fn.nodes[x]
            if cv is not None and n.get('k') == 'var' and n.get('d') == cv:
                return True
            if sq is not None and is_stream_member(fn, x, sq, {'next_out', 'avail_out', 'total_out'}):
                return True
            if x in sized:
                return True
            # a named local computed from the count after this pull: `const bool no_output = avail_out == buffer_size;`
            if depth < 2 and n.get('k') == 'var' and n.get('vk') == 'local' and n.get('d') != cv:
                for m in fn.all_nodes():
                    if m.get('k') == 'decl' and m['id'] in after:
                        for v in m['vars']:
                            if v['d'] == n['d'] and isinstance(v.get('init'), int) and mentions(v['init'], depth + 1):
                                return True
        return False

    for b in cond_blocks(fn):
        c = E.effective_cond(fn, b)
        if c is None:
            continue
        if mentions(c):
            out |= {x for x in fn.subtree(c) if x in els}
    return out


def resolve_local_bool(fn, c):
    """Look through `const bool v = <expr>; if (v)`: returns the initialiser when the condition is a local assigned only there."""
    hops = 0
    while hops < 3:
        hops += 1
        n = fn.sn(c)
        if n is None or n.get('k') != 'var' or n.get('vk') != 'local':
            return c
        d = n['d']
        init = None
        for m in fn.all_nodes():
            if m.get('k') == 'decl':
                for v in m['vars']:
                    if v['d'] == d and isinstance(v.get('init'), int):
                        init = v['init']
            elif m.get('k') == 'assign' and E.carrier_of(fn, m['lhs']) == ('var', d):
                return c
        if init is None:
            return c
        c = init
    return c


def separates_zero(fn, c, sense, env_keys):
    """Condition c having evaluated to `sense` implies that the quantity stored under env_keys is zero, and the opposite
    outcome is taken for every non-zero value."""
    c = resolve_local_bool(fn, c)
    e0 = {k: E.fin(0) for k in env_keys}
    e1 = {k: E.ge(1) for k in env_keys}
    return E.eval3(fn, c, e0) is sense and E.eval3(fn, c, e1) is (not sense)


def unconsumed_zero_guard(fn, D, call, pull, sq):
    """Element D executes only after a test that the library's unconsumed input is empty."""
    if pull.unused is None:
        return False
    for (c, sense, _b) in E.guards(fn, D):
        if pull.unused[0] == 'query':
            _k, qname, _pi, ci = pull.unused
            for q in fn.all_nodes():
                if not (E.is_extern_c(q) and q['q'] == qname and len(q.get('args', [])) > ci):
                    continue
                if not (fn.elem_dominates(call['id'], q['id']) and fn.elem_dominates(q['id'], D)):
                    continue
                car = addr_carrier(fn, q['args'][ci])
                if car is not None and separates_zero(fn, c, sense, [car]):
                    return True
        else:
            cc = resolve_local_bool(fn, c)
            keys = [('node', x) for x in fn.subtree(cc) if sq is not None and is_stream_member(fn, x, sq, {'avail_in'})]
            if keys and separates_zero(fn, c, sense, keys):
                return True
    return False


def guard_signature(fn, D):
    """Stable description of the extern "C" predicates that guard element D: ['feof'] / ['not-feof'] ..."""
    toks = set()
    for (c, sense, _b) in E.guards(fn, D):
        n = fn.sn(c)
        if n is not None and E.is_extern_c(n):
            toks.add(('' if sense else 'not-') + n['q'])
    return sorted(toks)


def state_guards(fn, call):
    """[(cond, sense, {field qnames})]: guards of the pull call that read nothing but the object's own members."""
    out = []
    for (c, sense, _b) in E.guards(fn, call['id']):
        fields = set()
        pure = True
        for x in fn.subtree(c):
            n = fn.nodes[x]
            k = n.get('k')
            if k in ('call', 'construct') or (k == 'var' and n.get('vk') in ('local', 'param')):
                pure = False
                break
            if k == 'member' and n.get('field') and fn.is_this_member(x):
                fields.add(n['q'])
        if pure and fields:
            out.append((c, sense, fields))
    return out


def end_declarations(fn, call):
    """Assignments of a constant to a this-member after which the guards of the pull call can no longer hold: the object
    declares itself exhausted (`m_stream_end = true`, `m_buffer = nullptr`)."""
    sg = state_guards(fn, call)
    fields = set()
    for (_c, _s, fs) in sg:
        fields |= fs
    out = []
    for n in fn.all_nodes():
        if n.get('k') != 'assign' or n.get('op') != '=':
            continue
        car = E.carrier_of(fn, n['lhs'])
        if car is None or car[0] != 'field' or car[1] not in fields:
            continue
        v = E.const_of(fn, n['rhs'])
        if v is None:
            continue
        env = {car: E.fin(v)}
        for (c, sense, fs) in sg:
            if car[1] in fs and len(fs) == 1:
                ev = E.eval3(fn, c, env)
                if ev is not None and ev is not sense:
                    out.append(n)
                    break
    return out


def element_of(fn, nid):
    """the CFG element a node belongs to (itself when it is an element)."""
    pos = fn.positions()
    if nid not in pos:
        return None
    b, i = pos[nid]
    elems = fn.blocks[b]['elems']
    if nid in elems:
        return nid
    return elems[i] if i < len(elems) else None


def reaches(fn, a, b, barrier=lambda e: False):
    """some CFG path leads from just after element a to (the element holding) node b."""
    t = element_of(fn, b)
    if t is None:
        return False
    return path_search(fn, a, lambda e: e == t, barrier) is not None


def decl_init(fn, d):
    for m in fn.all_nodes():
        if m.get('k') == 'decl':
            for v in m['vars']:
                if v['d'] == d and isinstance(v.get('init'), int):
                    return v['init']
    return None


def data_sources(fn, nid, depth=4):
    """decl ids of the locals an expression is computed from, looking through the initialisers of locals."""
    out = set()
    work = [(nid, 0)]
    seen = set()
    while work:
        x, d = work.pop()
        for v in vars_in(fn, x):
            if v in seen:
                continue
            seen.add(v)
            out.add(v)
            if d < depth:
                i = decl_init(fn, v)
                if i is not None:
                    work.append((i, d + 1))
    return out


def handle_arg_is(fn, call, fq):
    """one argument of the call is the this-member fq, or a local initialised from it (`auto h = m_handle; m_handle = nullptr; close(h)`)."""
    for a in call.get('args', []) or []:
        if a is None:
            continue
        rv = fn.root_var(a)
        if rv is not None and rv[:2] == ('field', fq):
            return True
        n = resolve_alias(fn, a)
        if n is not None and n.get('k') == 'member' and n.get('q') == fq and fn.is_this_member(n['id']):
            return True
    return False


def helper_reaches(fb, fn, n, names=(), members=()):
    """call node n goes to a library function with a body that (transitively) calls one of the extern functions `names` or reads a
    member called one of `members`."""
    from .c08_util import reaches_extern
    if n.get('k') != 'call' or E.is_extern_c(n) or 'u' not in n or not n.get('q', '').startswith('osmium::'):
        return False
    for g in fb.by_usr.get(n['u'], []):
        if names and reaches_extern(fb, g, set(names)):
            return True
        if members:
            for h in E.closure_fns(fb, [g], depth=3):
                if any(x.get('k') == 'member' and x.get('name') in members for x in h.all_nodes()):
                    return True
    return False


# ------------------------------------------------------------------------------------------------ normal form of a function body
#
# The path rules of C09 are stated on ONE control-flow graph per entry point (a read() override, a close() override, the read
# thread function).  To keep them independent of how that code is cut into functions and of the statement form used for a
# multi-way branch, they run on a normal form of the body:
#   * calls to helpers of the same class invoked on `this`, and to free io-layer helpers that (transitively) contain one of the
#     library calls the rules talk about, are replaced by the helper's CFG (reference parameters bound to a local / member are
#     substituted, value parameters become initialised locals, `return e` becomes the initialisation of a result local that the
#     former call expression denotes); nodes of an inlined body lie inside every try that encloses the call site;
#   * a `switch` over constants becomes the equivalent chain of `==` tests, so that the three-valued walk prunes the case
#     blocks exactly as it prunes if / else-if.

from .facts import Fn, _CHILD_KEYS, _CHILD_LIST_KEYS  # noqa: E402


def _is_id(v):
    return isinstance(v, int) and not isinstance(v, bool)


class NormFn(Fn):
    def __init__(self, fn):   # noqa: super().__init__ deliberately not called: shallow clone of an existing body
        self.__dict__.update(fn.__dict__)
        self.nodes = dict(fn.nodes)
        self.blocks = {k: dict(b) for k, b in fn.blocks.items()}
        self.tries = list(fn.tries)
        self.switches = list(fn.switches)
        self.loops = list(fn.loops)
        self.origin = {}      # inlined node id -> node id of the call it came from
        self.base = fn
        self._reset()

    def _reset(self):
        self._pos = None
        self._preds = None
        self._parent = None
        self._dom = None
        self._pdom = None

    def enclosing_tries(self, nid):
        out = Fn.enclosing_tries(self, nid)
        o = self.origin.get(nid)
        if o is not None:
            out = out + self.enclosing_tries(o)
        return out

    def enclosing_handlers(self, nid):
        out = Fn.enclosing_handlers(self, nid)
        o = self.origin.get(nid)
        if o is not None:
            out = out + self.enclosing_handlers(o)
        return out

    def new_node(self, n):
        nid = max(self.nodes) + 1 if self.nodes else 0
        n = dict(n)
        n['id'] = nid
        self.nodes[nid] = n
        return nid

    def new_block(self, b):
        bid = max(self.blocks) + 1
        b = dict(b)
        b['id'] = bid
        self.blocks[bid] = b
        return bid


def lower_switches(g):
    """switch (e) { case k1: A; case k2: B; default: D }  ->  if (e == k1) goto A; else if (e == k2) goto B; else goto D."""
    for b in list(g.blocks.values()):
        if b.get('termcls') != 'SwitchStmt' or 'cond' not in b:
            continue
        cases, rest = [], []
        ok = True
        for s in b['succs']:
            if s is None:
                continue
            lab = g.blocks[s].get('label') or {}
            if _is_id(lab.get('case')):
                if E.const_of(g, lab['case']) is None or lab.get('case2') is not None:
                    ok = False
                cases.append((s, lab['case']))
            else:
                rest.append(s)
        if not ok or not cases or len(rest) > 1:
            continue
        fallback = rest[0] if rest else None
        cur = b
        sw = b['cond']
        for i, (s, lab) in enumerate(cases):
            src = g.nodes.get(g.strip(sw)) or {}
            t = g.new_node({'k': 'binop', 'op': '==', 'lhs': sw, 'rhs': lab, 'cls': 'BinaryOperator', 't': 'bool',
                            'l': src.get('l'), 'o': src.get('o'), 'synthetic': True})
            if src.get('o') is None:
                g.nodes[t].pop('o')
                g.nodes[t].pop('l')
            if sw in g.origin:
                g.origin[t] = g.origin[sw]
            cur['elems'] = list(cur.get('elems', [])) + [t]
            cur['cond'] = t
            cur['termcls'] = 'IfStmt'
            cur.pop('term', None) if cur is not b else None
            if i + 1 < len(cases):
                nxt = g.new_block({'elems': [], 'succs': []})
                cur['succs'] = [s, nxt]
                cur = g.blocks[nxt]
            else:
                cur['succs'] = [s, fallback]
    g._reset()
    return g


def lower_bool_assignments(g):
    """A bool local that is assigned more than once (`bool more = n != 0; if (!more) { ...; more = c != EOF && f() != EOF; }`)
    carries a computed truth value the engine cannot propagate (it copies values, it does not compute them).  Turn every store of
    a computed condition into control flow -- `x = cond;` becomes `if (cond) x = 1; else x = 0;` -- so that the walk knows the
    value of x wherever it is tested later, through any number of reassignments."""
    stores = {}
    bools = set()
    for n in g.nodes.values():
        if n.get('k') == 'decl' and not n.get('inlined_return'):
            for v in n['vars']:
                if v.get('tC', '').replace('const ', '').strip() == 'bool':
                    bools.add(v['d'])
                    if _is_id(v.get('init')):
                        stores.setdefault(v['d'], []).append(n['id'])
        elif n.get('k') == 'assign' and n.get('op') == '=':
            c = E.carrier_of(g, n['lhs'])
            if c is not None and c[0] == 'var':
                stores.setdefault(c[1], []).append(n['id'])
    targets = {d for d in bools if len(stores.get(d, [])) > 1}
    if not targets:
        return False

    def computed(nid):
        n = g.sn(nid)
        if n is None:
            return False
        if n.get('k') == 'binop' and n.get('op') in ('&&', '||', '==', '!=', '<', '<=', '>', '>='):
            return True
        return n.get('k') == 'unop' and n.get('op') == '!'

    changed = False
    for d in sorted(targets):
        for sid in stores[d]:
            n = g.nodes[sid]
            if n.get('k') == 'decl':
                if len(n['vars']) != 1:
                    continue
                rhs, name = n['vars'][0]['init'], n['vars'][0]['name']
            else:
                rhs = n['rhs']
                ln = g.sn(n['lhs'])
                name = ln.get('name') if ln else 'b'
            if not computed(rhs):
                continue
            pos = None
            for b in g.blocks.values():
                if sid in b['elems']:
                    pos = (b, b['elems'].index(sid))
            root = g.strip(rhs, casts=True)
            if pos is None or root not in pos[0]['elems'][:pos[1]]:
                continue
            B, i = pos
            loc = {k: n[k] for k in ('l', 'o') if k in n}
            arms = []
            for val in (1, 0):
                lit = g.new_node(dict(loc, k='lit', cls='CXXBoolLiteralExpr', cv=str(val), t='bool', synthetic=True))
                var = g.new_node(dict(loc, k='var', cls='DeclRefExpr', vk='local', d=d, name=name, t='bool', synthetic=True))
                asg = g.new_node(dict(loc, k='assign', cls='BinaryOperator', op='=', lhs=var, rhs=lit, t='bool', synthetic=True))
                for x in (lit, var, asg):
                    if sid in g.origin:
                        g.origin[x] = g.origin[sid]
                arms.append(g.new_block({'elems': [lit, var, asg], 'succs': []}))
            post = {'elems': B['elems'][i + 1:], 'succs': list(B['succs'])}
            for k in ('term', 'termcls', 'cond'):
                if k in B:
                    post[k] = B.pop(k)
            pid = g.new_block(post)
            for a in arms:
                g.blocks[a]['succs'] = [pid]
            B['elems'] = B['elems'][:i]
            B['cond'] = root
            B['termcls'] = 'IfStmt'
            B['succs'] = arms
            g._reset()
            changed = True
    return changed


def fix_short_circuit_joins(g):
    """In a loop condition `a && b` clang's CFG sends the false edge of `a` into the join block whose terminator is the whole
    expression (for an if statement it goes straight to the else target).  The engine reads the join's condition as `b`, which is
    only right for the arrival through `b`.  Give the short-circuit edge its real target, as in the if form."""
    changed = False
    for _round in range(6):
        again = False
        preds = {}
        for b in g.blocks.values():
            for sx in b['succs']:
                if sx is not None:
                    preds.setdefault(sx, []).append(b['id'])
        for J in g.blocks.values():
            if not _is_id(J.get('cond')) or len(J['succs']) != 2 or J.get('termcls') == 'SwitchStmt':
                continue
            n = g.sn(J['cond'])
            if n is None or n.get('k') != 'binop' or n.get('op') not in ('&&', '||'):
                continue
            lhs = g.strip(n['lhs'])
            if lhs in J['elems'] or n['lhs'] in J['elems']:
                continue
            idx = 1 if n['op'] == '&&' else 0
            for pid in preds.get(J['id'], []):
                P = g.blocks[pid]
                if not _is_id(P.get('cond')) or len(P['succs']) != 2 or P is J:
                    continue
                if g.strip(P['cond']) != lhs:
                    continue
                if P['succs'][idx] == J['id'] and P['succs'][1 - idx] != J['id'] and J['succs'][idx] is not None:
                    P['succs'] = list(P['succs'])
                    P['succs'][idx] = J['succs'][idx]
                    again = True
                    changed = True
        if not again:
            break
    if changed:
        g._reset()
    return changed


_PURE_KINDS = {'binop', 'lit', 'wrap', 'icast', 'cast', 'condop', 'sizeof'}


def substitute_named_conditions(g):
    """`const bool failed = r != OK && r != END; ... if (failed)`  ->  the branch condition reads the initialiser itself.
    Only for locals initialised once, never assigned, address never taken, whose initialiser is built from operators, constants
    and locals / parameters that cannot change between the initialisation and the test."""
    decls = {}
    for n in g.nodes.values():
        if n.get('k') == 'decl':      # (the single `return cond;` of an inlined predicate helper is such an initialisation too)
            for v in n['vars']:
                decls.setdefault(v['d'], []).append((n['id'], v.get('init') if _is_id(v.get('init')) else None))
    mods = {}
    for n in g.nodes.values():
        if n.get('k') == 'decl':
            continue
        for d in E.modified_vars(g, n):
            mods.setdefault(d, []).append(n['id'])

    def pure_vars(nid):
        """(locals read, reads object members?) of an initialiser built from operators, constants, locals and members; else None."""
        vs = set()
        members = False
        for x in g.subtree(g.strip(nid)):
            m = g.nodes[x]
            k = m.get('k')
            if k == 'var':
                if m.get('vk') in ('local', 'param'):
                    vs.add(m['d'])
                elif m.get('vk') != 'enumconst':
                    return None
            elif k == 'unop':
                if m.get('op') not in ('!', '-', '+', '~'):
                    return None
            elif k == 'member' and m.get('field'):
                members = True
            elif k == 'this':
                continue
            elif k not in _PURE_KINDS:
                return None
        return vs, members

    # elements that may change an object member: any call / construction / store through something that is not a plain local
    impure = set()
    els = elements(g)
    for n in g.nodes.values():
        if n['id'] not in els:
            continue
        k = n.get('k')
        if k in ('call', 'construct', 'new', 'delete', 'autodtor'):
            if k == 'call' and n.get('q', '').startswith('std::basic_string::') and call_name(n) in ('size', 'length', 'empty', 'data', 'c_str', 'begin', 'end'):
                continue
            impure.add(n['id'])
        elif k == 'assign' or (k == 'unop' and n.get('op') in ('++', '--')):
            c = E.carrier_of(g, n.get('lhs', n.get('sub')))
            if c is None or c[0] != 'var':
                impure.add(n['id'])

    cond_nodes = set()
    for b in g.blocks.values():
        if _is_id(b.get('cond')):
            cond_nodes |= set(g.subtree(b['cond']))
    changed = False
    for x in sorted(cond_nodes):
        n = g.nodes.get(x)
        if n is None or n.get('k') != 'var' or n.get('vk') != 'local':
            continue
        d = n['d']
        dl = decls.get(d, [])
        if len(dl) != 1 or dl[0][1] is None or d in mods:
            continue
        de, init = dl[0]
        pv = pure_vars(init)
        if pv is None or d in pv[0]:
            continue
        vs, members = pv
        if not g.elem_dominates(de, x):
            continue
        ux = element_of(g, x)
        ok = True
        for v in vs:
            for m in mods.get(v, []):
                if reaches(g, de, m, barrier=lambda e: e == ux) and reaches(g, m, x, barrier=lambda e: e == de):
                    ok = False
        if members and ok:
            for m in impure:
                if m != de and reaches(g, de, m, barrier=lambda e: e == ux) and reaches(g, m, x, barrier=lambda e: e == de):
                    ok = False
                    break
        if not ok:
            continue
        keep = {k: n[k] for k in ('l', 'c', 'o', 'oe', 't') if k in n}
        g.nodes[x] = dict(keep, id=x, k='wrap', sub=init, cls='ParenExpr', named=n.get('name'))
        changed = True
    if changed:
        g._reset()
    return changed


_RELEVANT_EXTERN = None


def _relevant_extern():
    global _RELEVANT_EXTERN
    if _RELEVANT_EXTERN is None:
        s = set(PULLS)
        for p in PULLS.values():
            s |= p.reinit
            if p.unused and p.unused[0] == 'query':
                s.add(p.unused[1])
        for k, v in OPEN_CLOSE.items():
            s.add(k)
            s |= v
        _RELEVANT_EXTERN = s
    return _RELEVANT_EXTERN


def _inline_target(fb, g, call, stack):
    """the body to inline for call node `call` of g, or None."""
    if call.get('k') != 'call' or 'u' not in call or E.is_extern_c(call) or call.get('virt') or call.get('noret'):
        return None
    if not call.get('q', '').startswith('osmium::'):
        return None
    bodies = dedupe(fb.by_usr.get(call['u'], []))
    if len(bodies) != 1:
        return None
    h = bodies[0]
    if h.is_lambda or h.usr in stack or h.entry is None or len(h.nodes) > 1500:
        return None
    if len(call.get('args', []) or []) != len(h.params):
        return None
    if h.cls is not None and not h.static:
        # member helper of the same class, called on this
        r = g.sn(call['recv']) if call.get('recv') is not None else None
        if h.cls != g.cls or r is None or r.get('k') != 'this' or h.kind != 'method':
            return None
        return h
    if '/osmium/io/' not in h.file:
        return None
    if wrapper_pull(fb, call) is not None:
        return None     # kept as a pull function of its own (reliable_read)
    from .c08_util import reaches_extern
    if reaches_extern(fb, h, _relevant_extern()):
        return h
    for x in E.closure_fns(fb, [h], depth=2):
        if any(n.get('k') == 'call' and n.get('virt') and n.get('q', '').startswith(DECOMP + '::') for n in x.all_nodes()):
            return h
    return None


def _inline_one(g, cid, h):
    pos = g.positions()
    if cid not in pos:
        return False
    b, i = pos[cid]
    B = g.blocks[b]
    elems = B['elems']
    if i >= len(elems) or elems[i] != cid:
        return False
    call = g.nodes[cid]
    noff = max(g.nodes) + 1
    boff = max(g.blocks) + 1
    dret = 10 ** 9 + noff
    nonvoid = h.retC.strip() != 'void'
    # ---- parameters
    subst = {}     # param decl id -> replacement node content
    synth = []
    for p, a in zip(h.params, call.get('args', [])):
        an = scn(g, a) if a is not None else None
        t = p['tC'].rstrip()
        if t.endswith('&') and an is not None and (
                (an.get('k') == 'var' and an.get('vk') in ('local', 'param')) or
                (an.get('k') == 'member' and an.get('field') and g.is_this_member(an['id']))):
            subst[p['d']] = an
        elif a is not None:
            synth.append(g.new_node({'k': 'decl', 'cls': 'DeclStmt', 'l': call.get('l'), 'o': call.get('o'),
                                     'vars': [{'d': p['d'], 'name': p['name'], 't': p['t'], 'tC': p['tC'], 'init': a}]}))
    noff = max(g.nodes) + 1

    def rid(v):
        return v + noff if _is_id(v) else v

    for nid, n in h.nodes.items():
        m = dict(n)
        for k in _CHILD_KEYS:
            if _is_id(m.get(k)):
                m[k] = m[k] + noff
        for k in _CHILD_LIST_KEYS:
            if k in m:
                m[k] = [rid(v) for v in m[k]]
        if m.get('k') == 'decl':
            m['vars'] = [dict(v, init=rid(v['init'])) if _is_id(v.get('init')) else dict(v) for v in m['vars']]
        if m.get('k') == 'lambda' and 'captures' in m:
            m['captures'] = [dict(c, init=rid(c['init'])) if _is_id(c.get('init')) else dict(c) for c in m['captures']]
        if m.get('k') == 'var' and m.get('vk') == 'param':
            if m.get('d') in subst:
                src = subst[m['d']]
                keep = {k: m[k] for k in ('l', 'c', 'o', 'oe') if k in m}
                m = dict(src)
                m.update(keep)
            else:
                m['vk'] = 'local'
        if m.get('k') == 'return':
            if _is_id(m.get('sub')):
                m = {'k': 'decl', 'cls': 'DeclStmt', 'l': m.get('l'), 'o': m.get('o'), 'inlined_return': True,
                     'vars': [{'d': dret, 'name': '__result', 't': h.ret, 'tC': h.retC, 'init': m['sub']}]}
            else:
                m = {'k': 'stmt', 'cls': 'ReturnStmt', 'l': m.get('l'), 'o': m.get('o'), 'inlined_return': True}
            m = {k: v for k, v in m.items() if v is not None}
        m['id'] = nid + noff
        g.nodes[nid + noff] = m
        g.origin[nid + noff] = cid
    # ---- the call expression now denotes the result local
    keep = {k: call[k] for k in ('l', 'c', 'o', 'oe', 't') if k in call}
    if nonvoid:
        g.nodes[cid] = dict(keep, id=cid, k='var', vk='local', d=dret, name='__result', cls='DeclRefExpr', inlined_call=call.get('q'))
    else:
        g.nodes[cid] = dict(keep, id=cid, k='stmt', cls='InlinedCall', inlined_call=call.get('q'))
    # ---- blocks
    b2 = boff + max(h.blocks) + 1
    B2 = {'id': b2, 'elems': [cid] + elems[i + 1:], 'succs': list(B['succs'])}
    for k in ('term', 'termcls', 'cond'):
        if k in B:
            B2[k] = B.pop(k)
    g.blocks[b2] = B2
    B['elems'] = elems[:i] + synth
    B['succs'] = [h.entry + boff]
    for cb in h.blocks.values():
        nb = dict(cb)
        nb['id'] = cb['id'] + boff
        nb['elems'] = [e + noff for e in cb['elems']]
        nb['succs'] = [s + boff if s is not None else None for s in cb['succs']]
        for k in ('term', 'cond'):
            if _is_id(nb.get(k)):
                nb[k] = nb[k] + noff
        if 'label' in nb:
            lab = dict(nb['label'])
            if _is_id(lab.get('case')):
                lab['case'] = lab['case'] + noff
            nb['label'] = lab
        if cb['id'] == h.exit:
            nb['succs'] = [b2]
        else:
            last = h.nodes.get(cb['elems'][-1]) if cb['elems'] else None
            if last is not None and (last.get('k') == 'throw' or (last.get('k') in ('call', 'construct') and last.get('noret'))) \
                    and cb['succs'] == [h.exit]:
                nb['succs'] = [g.exit]
        g.blocks[nb['id']] = nb
    g.tries = g.tries + list(h.tries)
    g.switches = g.switches + list(h.switches)
    g.loops = g.loops + list(h.loops)
    g._reset()
    return True


def normalized(fb, fn, inline=True, _memo={}):
    """Normal form of a function body (see above).  The result answers the Fn interface; identity (q, pat, site) is the root's."""
    key = (id(fb), fn.usr, fn.full, fn.pat, inline)
    if key in _memo:
        return _memo[key]
    if not fn.has_cfg:
        _memo[key] = fn
        return fn
    g = NormFn(fn)
    changed = False
    if inline:
        stacks = {}      # node id -> tuple of usrs it was inlined through
        rounds = 0
        progress = True
        while progress and rounds < 12:
            progress = False
            rounds += 1
            for n in list(g.nodes.values()):
                if n.get('k') != 'call':
                    continue
                stack = stacks.get(n['id'], (fn.usr,))
                if len(stack) > 3:
                    continue
                h = _inline_target(fb, g, n, stack)
                if h is None:
                    continue
                before = set(g.nodes)
                if _inline_one(g, n['id'], h):
                    for x in set(g.nodes) - before:
                        stacks[x] = stack + (h.usr,)
                    progress = True
                    changed = True
                    break
    if any(b.get('termcls') == 'SwitchStmt' for b in g.blocks.values()):
        lower_switches(g)
        changed = True
    if lower_bool_assignments(g):
        changed = True
    if fix_short_circuit_joins(g):
        changed = True
    if substitute_named_conditions(g):
        changed = True
    res = g if changed else fn
    _memo[key] = res
    return res


def input_test_elements(fn, call, pull):
    """Elements of branch conditions that read the stream's unconsumed-input counter (avail_in), directly or through a local
    computed from it after this pull."""
    sq = stream_field(fn, call, pull)
    if sq is None:
        return set()
    els = elements(fn)
    after = set(fn.elems_after(call['id']))

    def mentions(c, depth=0):
        for x in fn.subtree(c):
            n = fn.nodes[x]
            if is_stream_member(fn, x, sq, {'avail_in'}):
                return True
            if depth < 2 and n.get('k') == 'var' and n.get('vk') == 'local':
                for m in fn.all_nodes():
                    if m.get('k') == 'decl' and m['id'] in after:
                        for v in m['vars']:
                            if v['d'] == n['d'] and isinstance(v.get('init'), int) and mentions(v['init'], depth + 1):
                                return True
        return False

    out = set()
    for b in cond_blocks(fn):
        c = E.effective_cond(fn, b)
        if c is not None and mentions(c):
            out |= {x for x in fn.subtree(c) if x in els}
    return out


def _string_probe_nodes(fn, call, X, pull=None):
    after = set(fn.elems_after(call['id']))
    sized = sized_probes(fn, call, pull, X) if pull is not None else None
    out = {'empty': [], 'size': []}
    for n in fn.all_nodes():
        if n.get('k') == 'call' and n['id'] in after and X is not None and (sized is None or n['id'] in sized):
            if string_call_on(fn, n, X, {'empty'}):
                out['empty'].append(n['id'])
            elif string_call_on(fn, n, X, {'size', 'length'}):
                out['size'].append(n['id'])
    return out


def no_output_env(fn, call, pull, X):
    """environment entries saying "this pull produced nothing": avail_out still has the value it was given before the call, the
    returned string is empty once it was cut to the count."""
    env = {}
    sq = stream_field(fn, call, pull)
    given = None
    if sq is not None:
        for n in fn.all_nodes():
            if n.get('k') == 'assign' and n.get('op') == '=' and fn.elem_dominates(n['id'], call['id']) \
                    and is_stream_member(fn, fn.strip(n['lhs']), sq, {'avail_out'}):
                given = E.const_of(fn, n['rhs'])
                if given is None:
                    a = resolve_alias(fn, n['rhs'])
                    given = E.const_of(fn, a['id']) if a is not None else None
        after = set(fn.elems_after(call['id']))
        for x in fn.nodes:
            if is_stream_member(fn, x, sq, {'avail_out'}) and element_of(fn, x) in after:
                env[('node', x)] = E.fin(given) if given is not None else E.ge(1)
    pr = _string_probe_nodes(fn, call, X, pull)
    for x in pr['empty']:
        env[('node', x)] = E.fin(1)
    for x in pr['size']:
        env[('node', x)] = E.fin(0)
    return env


def has_output_env(fn, call, pull, X):
    """environment entries saying "this pull produced at least one byte"."""
    env = {}
    if pull.count == 'ret' and pull.status != 'ret':
        env[('node', call['id'])] = E.ge(1)
    pr = _string_probe_nodes(fn, call, X, pull)
    for x in pr['empty']:
        env[('node', x)] = E.fin(0)
    for x in pr['size']:
        env[('node', x)] = E.ge(1)
    return env


def file_has_more_env(fn, call):
    """environment entries saying "the FILE the library reads from is not at its end": a byte probe (fgetc ...) after the pull call
    yields a byte (>= 0, not EOF); feof() is false where such a probe precedes it (without a probe feof() only tells whether an
    earlier read hit the end, which a block-wise reader that stopped exactly at the end of a block has not done)."""
    env = {}
    after = set(fn.elems_after(call['id']))
    probes = [n for n in fn.all_nodes() if E.is_extern_c(n) and n['q'] in EOF_PROBES and n['id'] in after]
    for n in probes:
        env[('node', n['id'])] = E.ge(0)
    for n in fn.all_nodes():
        # pushing back the one byte just read cannot fail (C11 7.21.7.10: one character of pushback is guaranteed)
        if E.is_extern_c(n) and n['q'] == 'ungetc' and n['id'] in after:
            if any(fn.elem_dominates(p['id'], n['id']) for p in probes):
                env[('node', n['id'])] = E.ge(0)
    for n in fn.all_nodes():
        if E.is_extern_c(n) and n['q'] in EOF_FLAG and n['id'] in after:
            if any(fn.elem_dominates(p['id'], n['id']) and fn.elem_dominates(call['id'], p['id']) for p in probes):
                env[('node', n['id'])] = E.fin(0)
    return env


def initial_state_envs(fb, cls):
    """[(constructor Fn, environment)]: what each constructor of cls establishes about the members -- a constant stored by a member
    initialiser / default member initialiser / assignment in the body is that constant; a member initialised from a POINTER
    parameter is assumed non-null (ASSUMPTION: callers hand a valid buffer / handle); a member initialised from an integral
    parameter (a size, a descriptor) is unknown and may be 0."""
    out = []
    for c in dedupe([f for f in fb.functions if f.cls == cls and f.kind == 'ctor']):
        ptr_params = {p['d'] for p in c.params if p['tC'].rstrip().endswith('*')}
        env = {}
        for n in sorted(c.all_nodes(), key=lambda n: n.get('o', 0)):
            if n.get('k') == 'init' and n.get('q') and isinstance(n.get('init'), int):
                car, rhs = ('field', n['q']), n['init']
            elif n.get('k') == 'assign' and n.get('op') == '=' and (E.carrier_of(c, n['lhs']) or ('',))[0] == 'field':
                car, rhs = E.carrier_of(c, n['lhs']), n['rhs']
            else:
                continue
            v = E.const_of(c, rhs)
            r = scn(c, rhs)
            if v is not None:
                env[car] = E.fin(v)
            elif r is not None and r.get('k') == 'var' and r.get('vk') == 'param' and r.get('d') in ptr_params:
                env[car] = E.ge(1)
            else:
                env.pop(car, None)
        out.append((c, env))
    return out


def fresh_string_env(fn, call, X):
    """the returned string is default-constructed and every size()/empty() probe that can execute before the first pull sees it
    empty (nothing but the pull call's own preparation touches it earlier)."""
    i = decl_init(fn, X) if X is not None else None
    n = scn(fn, i) if i is not None else None
    if n is None or n.get('k') != 'construct' or [a for a in (n.get('args') or []) if a is not None and fn.nodes.get(a, {}).get('cls') != 'CXXDefaultArgExpr']:
        return {}
    env = {}
    for m in fn.all_nodes():
        if m.get('k') == 'call' and string_call_on(fn, m, X, {'empty'}):
            env[('node', m['id'])] = E.fin(1)
        elif m.get('k') == 'call' and string_call_on(fn, m, X, {'size', 'length'}):
            env[('node', m['id'])] = E.fin(0)
    return env


# ------------------------------------------------------------------------------------------------ library contract tables (frozen)

# zlib.h, flush argument.  For inflate(): "The flush parameter of inflate() can be Z_NO_FLUSH, Z_SYNC_FLUSH, Z_FINISH, Z_BLOCK, or Z_TREES."
ZLIB_FLUSH = {
    0: ('Z_NO_FLUSH', True, 'normal operation: inflate decides how much to produce; call again until Z_STREAM_END'),
    1: ('Z_PARTIAL_FLUSH', None, 'a deflate() value; not among the flush values zlib.h documents for inflate()'),
    2: ('Z_SYNC_FLUSH', True, '"requests that inflate() flush as much output as possible to the output buffer"; partial progress is fine'),
    3: ('Z_FULL_FLUSH', None, 'a deflate() value; not among the flush values zlib.h documents for inflate()'),
    4: ('Z_FINISH', False, '"if all decompression is to be performed in a single step ... avail_out must be large enough to hold all of the '
                           'uncompressed data for the operation to complete"; otherwise inflate() returns Z_BUF_ERROR as soon as the stream '
                           'does not end inside the current output window'),
    5: ('Z_BLOCK', True, '"requests that inflate() stop if and when it gets to the next deflate block boundary"; partial progress is fine'),
    6: ('Z_TREES', True, 'like Z_BLOCK, also returns at the end of each block header; partial progress is fine'),
}

# allocate-state function -> release-state function of the same stream object; and in-place resets that keep the allocation
STREAM_INIT_END = {'BZ2_bzDecompressInit': 'BZ2_bzDecompressEnd', 'inflateInit_': 'inflateEnd', 'inflateInit2_': 'inflateEnd'}
STREAM_RESET = {'inflateReset', 'inflateReset2'}

# ------------------------------------------------------------------------------------------------ shared mutable state (logic of C05 W4)

MUTATOR_NAMES = ('push_back', 'emplace_back', 'push', 'emplace', 'insert', 'erase', 'clear', 'append', 'assign', 'resize', 'reserve', 'swap',
                 'reset', 'store', 'exchange', 'fetch_add', 'fetch_sub', 'pop_back', 'pop', 'operator=', 'operator+=', 'operator-=',
                 'operator|=', 'operator&=', 'operator++', 'operator--', 'operator[]', 'set', 'add')

# shared state that exists today, one reason per entry: (function qualified name, variable name / qualified name)
SHARED_STATE_OK = {
    ('osmium::io::CompressionFactory::instance', 'factory'):
        'the process-wide registry of compression types (Meyers singleton): filled by register_compression() from the static initialisers '
        'of the compression headers before main(), only looked up (find_callbacks, const) while readers / writers run',
}


def is_const_type(t):
    t = (t or '').strip()
    return t.startswith('const ') and not t.endswith(('*', '&')) or t.endswith(' const') or t.endswith('*const')


def local_statics(g):
    """[(decl node, var)] function-local statics of non-const type declared in body g."""
    out = []
    for n in g.all_nodes():
        if n.get('k') == 'decl':
            for v in n['vars']:
                if v.get('static') and not is_const_type(v['tC']):
                    out.append((n, v))
    return out


def written_globals(fb, g):
    """[(node, how)] namespace-scope / static-member variables of non-const type that body g writes: assigned, incremented, address
    taken, receiver of a mutating member call, or handed to a non-const reference parameter of a function whose body is known."""
    out = []
    pm = g.parent_map()
    for n in g.all_nodes():
        is_var = n.get('k') == 'var' and n.get('vk') in ('global', 'static_member')
        is_mem = n.get('k') == 'member' and n.get('staticvar')
        if not (is_var or is_mem) or is_const_type(n.get('t')) or not n.get('q', '').startswith('osmium::'):
            continue
        x = n['id']
        hops = 0
        while x in pm and hops < 10:
            p = pm[x]
            pn = g.nodes[p]
            k = pn.get('k')
            hops += 1
            if k in ('wrap', 'icast', 'index') or (k == 'member' and pn.get('field')):
                x = p
                continue
            if k == 'assign' and x in g.subtree(pn['lhs']):
                out.append((n, 'assigned'))
            elif k == 'unop' and pn.get('op') in ('++', '--'):
                out.append((n, pn['op']))
            elif k == 'unop' and pn.get('op') == '&':
                out.append((n, 'address taken'))
            elif k == 'call' and pn.get('recv') is not None and x in g.subtree(pn['recv']):
                nm = pn.get('q', '').rsplit('::', 1)[-1]
                bodies = fb.by_usr.get(pn.get('u'), []) if pn.get('u') else []
                if (bodies and not all(b.const for b in bodies)) or (not bodies and nm in MUTATOR_NAMES):
                    out.append((n, 'receiver of ' + pn.get('q', nm)))
            elif k == 'call':
                idx = [i for i, a in enumerate(pn.get('args', [])) if a is not None and x in g.subtree(a)]
                for b in fb.by_usr.get(pn.get('u'), []) if pn.get('u') else []:
                    for i in idx:
                        if i < len(b.params):
                            t = b.params[i]['tC']
                            if t.rstrip().endswith('&') and not t.startswith('const ') and not t.rstrip().endswith('&&'):
                                out.append((n, 'passed by reference to ' + pn.get('q', '?')))
            break
    return out
