"""Helpers for the C14 rules: exact decision guards (short-circuit aware), byte predicates over a cursor, path
enumeration, small structural matchers.  No rule logic."""
from collections import deque

from .charset import ISet, Pred, Unsupported, char_truth, int_type

BYTES = ISet.span(0, 255)
_DECISION_TERMS = ('IfStmt', 'WhileStmt', 'ForStmt', 'DoStmt', 'ConditionalOperator')


class Broken(Exception):
    """Anchor / shape not recognised -> analysis-broken (exit 2), never a pass or a violation."""


def one(fb, q):
    fns = fb.fns(q)
    if not fns:
        raise Broken('function %s not found in the fact base' % q)
    pats = {f.pat for f in fns}
    if len(pats) != 1:
        raise Broken('function %s has %d different definitions' % (q, len(pats)))
    return fns[0]


# ------------------------------------------------------------------------------------------------ decisions and guards

def decisions(fn):
    """[(cond id, group blocks, true target, false target, deciding block)] for every two-way statement-level decision.
    The blocks that evaluate the short-circuit parts of the condition form one group with the deciding block: any edge
    from the group to the true target means the whole condition was true."""
    cached = getattr(fn, '_c14_decisions', None)
    if cached is not None:
        return cached
    out = []
    for b in fn.blocks.values():
        if 'cond' not in b or len(b['succs']) != 2 or b.get('termcls') not in _DECISION_TERMS:
            continue
        C = b['cond']
        sub = set(fn.subtree(C))
        group = {b['id']}
        for g in fn.blocks.values():
            if g.get('termcls') in ('BinaryOperator', 'ConditionalOperator') and g.get('cond') in sub and len(g['succs']) == 2 and g['id'] != b['id']:
                group.add(g['id'])
        t, f = b['succs']
        out.append((C, frozenset(group), t, f, b['id']))
    fn._c14_decisions = out
    return out


def _reach(fn, target, removed):
    seen = {fn.entry}
    dq = deque([fn.entry])
    while dq:
        b = dq.popleft()
        if b == target:
            return True
        for i, s in enumerate(fn.blocks[b]['succs']):
            if s is None or (b, i) in removed or s in seen:
                continue
            seen.add(s)
            dq.append(s)
    return False


def _expand(fn, cond, sense, blk, out):
    out.append((cond, sense, blk))
    n = fn.sn(cond)
    if n is None:
        return
    if n.get('k') == 'binop' and ((n['op'] == '&&' and sense) or (n['op'] == '||' and not sense)):
        _expand(fn, n['lhs'], sense, blk, out)
        _expand(fn, n['rhs'], sense, blk, out)
    elif n.get('k') == 'unop' and n['op'] == '!':
        _expand(fn, n['sub'], not sense, blk, out)


def guards(fn, nid):
    """[(cond id, sense, deciding block)]: every path from the entry to node nid leaves the decision `cond` through
    its `sense` side (decided by edge removal on the CFG, short-circuit blocks merged into their statement)."""
    pos = fn.positions()
    if nid not in pos:
        return []
    b0 = pos[nid][0]
    res = []
    for (C, group, t, f, X) in decisions(fn):
        if b0 in group or t == f:
            continue
        for sense, target in ((True, t), (False, f)):
            if target is None:
                continue
            removed = {(g, i) for g in group for i, s in enumerate(fn.blocks[g]['succs']) if s == target}
            if not _reach(fn, b0, removed):
                _expand(fn, C, sense, X, res)
    return res


def is_compound_part(fn, cond, sense):
    n = fn.sn(cond)
    return n is not None and n.get('k') == 'binop' and ((n['op'] == '&&' and sense) or (n['op'] == '||' and not sense))


# ------------------------------------------------------------------------------------------------ leaves

def var_leaf(d):
    return lambda fn, n: n.get('k') == 'var' and n.get('d') == d


def deref_leaf(text):
    return lambda fn, n: n.get('k') == 'unop' and n.get('op') == '*' and fn.expr(n['id']) == text


def char_reads(fn, nid):
    """{canonical text: node id} of the 8-bit reads through a pointer (`*s`, `**data`) inside expression nid."""
    out = {}
    for x in fn.subtree(nid):
        n = fn.nodes[x]
        if n.get('k') == 'unop' and n.get('op') == '*':
            ty = int_type(n.get('t'))
            if ty is not None and ty[1] == 8:
                out[fn.expr(x)] = x
    return out


def vars_in(fn, nid):
    """decl ids of local/param variables referenced in expression nid."""
    return {fn.nodes[x]['d'] for x in fn.subtree(nid) if fn.nodes[x].get('k') == 'var' and fn.nodes[x].get('vk') in ('local', 'param')}


def cursor_lvalue(fn, text):
    """canonical text of the pointer lvalue that the read `text` goes through (`*s` -> `s`, `**s` -> `*s`); for a
    by-value character variable (text without `*`) the variable itself"""
    if not text.startswith('*'):
        return text
    for n in fn.all_nodes():
        if n.get('k') == 'unop' and n.get('op') == '*' and fn.expr(n['id']) == text:
            return fn.expr(fn.strip(n['sub']))
    raise Broken('%s: read %s not found' % (fn.q, text))


def lvalue_modifications(fn, ptext):
    """element node ids that may change the lvalue with canonical text ptext (a pointer variable `s` or `*s` behind a
    pointer-to-pointer parameter): assignment, compound assignment, ++/--, address taken."""
    out = []
    for n in fn.all_nodes():
        k = n.get('k')
        if k == 'assign' and fn.expr(fn.strip(n['lhs'])) == ptext:
            out.append(n['id'])
        elif k == 'unop' and n['op'] in ('++', '--', '&') and fn.expr(fn.strip(n['sub'])) == ptext:
            out.append(n['id'])
    return out


def read_text(fn, n):
    """canonical text of the byte read n = `*p`, ignoring an increment applied to the pointer in the same expression
    (`*p++` reads through p)"""
    x = fn.sn(n['sub'])
    while x is not None and x.get('k') == 'unop' and x.get('op') in ('++', '--'):
        x = fn.sn(x['sub'])
    return '*' + (fn.expr(x['id']) if x is not None else '?')


def cursor_text(fn):
    """Canonical text of THE byte read through a pointer variable (`*s`, `*data`) of this function; exactly one expected."""
    texts = set()
    for n in fn.all_nodes():
        if n.get('k') == 'unop' and n.get('op') == '*':
            ty = int_type(n.get('t'))
            if ty is not None and ty[1] == 8 and fn.root_var(n['id']) is not None and fn.root_var(n['id'])[0] == 'var':
                texts.add(read_text(fn, n))
    if len(texts) != 1:
        raise Broken('%s: expected exactly one byte cursor, found %s' % (fn.q, sorted(texts)))
    return texts.pop()


def _is_text(fn, n, text):
    if n.get('k') == 'unop' and n.get('op') == '*':
        return text.startswith('*') and fn.expr(n['id']) == text
    return n.get('k') == 'var' and n.get('vk') in ('local', 'param') and n.get('name') == text


def _is_read(fn, nid, text):
    n = fn.sn(nid)
    while n is not None and n.get('k') == 'cast' and n.get('ck') in ('NoOp', 'IntegralCast') and int_type(n.get('t')) is not None and int_type(n.get('t'))[1] == 8:
        n = fn.sn(n['sub'])
    return n is not None and _is_text(fn, n, text)


def _text_vars(fn, nid, text):
    """decl ids of the variables that make up the read `text` inside expression nid (the cursor pointer itself)"""
    out = set()
    for x in fn.subtree(nid):
        if _is_text(fn, fn.nodes[x], text):
            out |= vars_in(fn, x)
    return out


def char_aliases(fn, text):
    """{decl id: [defining element ids]} of 8-bit locals that are (somewhere) defined as a copy of the read `text`
    (`const char c = *s;`), and {element id: (decl id, is_copy)} for every definition of such a local."""
    cached = fn.__dict__.setdefault('_c14_alias', {})
    if text in cached:
        return cached[text]
    cand = set()
    preds = {}          # locals holding a predicate over the byte -> defining expression
    derived = set()     # pointer locals initialised by a helper call on the byte: `const char* e = entity_for(*data);`
    defs = {}
    for n in fn.all_nodes():
        if n.get('k') == 'decl':
            for v in n['vars']:
                ty = int_type(v.get('tC'))
                if ty is not None and ty[1] == 8 and isinstance(v.get('init'), int):
                    cp = _is_read(fn, v['init'], text)
                    defs.setdefault(n['id'], []).append((v['d'], cp))
                    if cp:
                        cand.add(v['d'])
                elif ty is not None and isinstance(v.get('init'), int) and not _is_read(fn, v['init'], text) \
                        and any(_is_text(fn, fn.nodes[x], text) for x in fn.subtree(v['init'])) and not vars_in(fn, v['init']) - _text_vars(fn, v['init'], text):
                    # a named predicate over the byte: `const bool at_space = (*s == ' ' || *s == '\\t');`
                    defs.setdefault(n['id'], []).append((v['d'], ('expr', v['init'])))
                    cand.add(v['d'])
                    preds[v['d']] = v['init']
                elif '*' in v.get('tC', '') and isinstance(v.get('init'), int):
                    c = fn.sn(v['init'])
                    if c is not None and c.get('k') == 'call' and 'q' in c and len([a for a in c.get('args', []) if a is not None]) == 1 \
                            and helper_returns(c['q'], True) is not None:
                        defs.setdefault(n['id'], []).append((v['d'], c))
                        cand.add(v['d'])
                        derived.add(v['d'])
        elif n.get('k') == 'assign':
            l = fn.sn(n['lhs'])
            if l is not None and l.get('k') == 'var' and int_type(l.get('t')) is not None and int_type(l.get('t'))[1] == 8:
                cp = n['op'] == '=' and _is_read(fn, n['rhs'], text)
                defs.setdefault(n['id'], []).append((l['d'], cp))
                if cp:
                    cand.add(l['d'])
        elif n.get('k') == 'unop' and n['op'] in ('++', '--', '&'):
            s_ = fn.sn(n['sub'])
            if s_ is not None and s_.get('k') == 'var':
                defs.setdefault(n['id'], []).append((s_['d'], False))
    defs = {e: [(d, cp) for (d, cp) in ds if d in cand] for e, ds in defs.items()}
    defs = {e: ds for e, ds in defs.items() if ds}
    cached[text] = (cand, defs, derived | set(preds), preds)
    return cached[text]


_FB = [None]


def set_fact_base(fb):
    """fact base used to look up the bodies of small helper functions (treated as inlined)"""
    _FB[0] = fb


def helper_returns(q, signed):
    """For a pure helper `T f(char c)` with its body in the fact base: [(byte set of c, kind, value)] for every return,
    kind in ('lit', 'null', 'other').  None if q is not such a helper."""
    fb = _FB[0]
    if fb is None:
        return None
    cands = fb.fns(q)
    if not cands or len({g.pat for g in cands}) != 1:
        return None
    g = cands[0]
    cache = g.__dict__.setdefault('_c14_helper', {})
    if signed in cache:
        return cache[signed]
    res = None
    if len(g.params) == 1 and int_type(g.params[0]['tC']) is not None and int_type(g.params[0]['tC'])[1] == 8 and g.has_cfg:
        pure = not any(x.get('k') in ('call', 'construct', 'new', 'delete', 'throw') for x in g.all_nodes())
        rets = [x for x in g.all_nodes() if x.get('k') == 'return' and 'sub' in x]
        if pure and rets:
            text = g.params[0]['name']
            res = []
            try:
                states = byte_states(g, text, signed)[0]
                for r in rets:
                    S = states.get(_elem_of(g, r['id']), ISet())
                    v = g.sn(r['sub'])
                    lit = string_literal(g, r['sub'])
                    if lit is not None:
                        res.append((S, 'lit', lit))
                    elif v is not None and (v.get('null') or g.const_value(r['sub']) == 0):
                        res.append((S, 'null', None))
                    else:
                        res.append((S, 'other', None))
            except (Broken, Unsupported):
                res = None
    cache[signed] = res
    return res


def _null_test(fn, cond):
    """(decl id, True if the condition holds when the pointer is non-null) for `p`, `!p`, `p != nullptr`, `p == nullptr`"""
    n = fn.sn(cond)
    if n is None:
        return None
    if n.get('k') == 'var':
        return n.get('d'), True
    if n.get('k') == 'unop' and n.get('op') == '!':
        r = _null_test(fn, n['sub'])
        return (r[0], not r[1]) if r else None
    if n.get('k') == 'binop' and n.get('op') in ('==', '!='):
        for a, b in ((n['lhs'], n['rhs']), (n['rhs'], n['lhs'])):
            x, y = fn.sn(a), fn.sn(b)
            if x is not None and x.get('k') == 'var' and y is not None and (y.get('null') or fn.const_value(b) == 0):
                return x.get('d'), n['op'] == '!='
    return None


def char_leaf(text, valid):
    """leaf predicate: the read `text` itself or a local that currently holds a copy of it"""
    return lambda fn, n: _is_text(fn, n, text) or (n.get('k') == 'var' and n.get('d') in valid)


def byte_states(fn, text, signed):
    """Forward may-dataflow over the CFG: the set of byte values the read `text` (e.g. `*s`) can have before every
    element, together with the set of locals that are known (on every path) to hold a copy of that byte
    (`const char c = *s;`, invalidated when the cursor moves or the local is reassigned).  Edges of two-way decisions
    whose condition is a predicate over the read / its valid copies refine the set with the exact truth set of that
    (partial, short-circuit) condition; switch edges over the read / a copy refine by case label; joins take the union
    of the sets and the intersection of the valid copies; any change of the cursor resets the set to all bytes.
    -> ({element: ISet}, {element: frozenset(valid copies)})"""
    cache = fn.__dict__.setdefault('_c14_bytes', {})
    if (text, signed) in cache:
        return cache[(text, signed)]
    cand, adefs, derived, preds = char_aliases(fn, text)
    dcalls = {dd: c for ds in adefs.values() for (dd, c) in ds if isinstance(c, dict)}
    mods = set(lvalue_modifications(fn, cursor_lvalue(fn, text)))
    if not text.startswith('*'):
        # by-value character variable: every (re)declaration starts a new value
        mods |= {n['id'] for n in fn.all_nodes() if n.get('k') == 'decl' and any(v['name'] == text for v in n['vars'])}
    truth_cache = {}

    def mentions(cond, valid):
        if any(_is_text(fn, fn.nodes[x], text) for x in fn.subtree(cond)):
            return True
        return bool(vars_in(fn, cond) & valid)

    def edge_refine(b, valid):
        """None | ('cond', truth) | ('switch', {succ: [labels]})"""
        blk = fn.blocks[b]
        if 'cond' not in blk:
            return None
        key = (b, valid)
        if key in truth_cache:
            return truth_cache[key]
        r = None
        if blk.get('termcls') == 'SwitchStmt':
            c = fn.sn(blk['cond'])
            if c is not None and char_leaf(text, valid - derived)(fn, c):
                labels = {}
                for s_ in blk['succs']:
                    if s_ is None:
                        continue
                    lab = fn.blocks[s_].get('label', {})
                    if 'case' in lab and fn.const_value(lab['case']) is not None:
                        labels.setdefault(s_, []).append(fn.const_value(lab['case']) & 0xff)
                r = ('switch', labels)
        elif len(blk['succs']) == 2 and _null_test(fn, blk['cond']) is not None and _null_test(fn, blk['cond'])[0] in (valid & derived) and _null_test(fn, blk['cond'])[0] in dcalls:
            dd, nonnull = _null_test(fn, blk['cond'])
            hr = helper_returns(dcalls[dd]['q'], signed)
            N = Z = ISet()
            for (S, kind, _v) in hr or ():
                if kind == 'null':
                    Z = Z | S
                else:
                    N = N | S
            if hr is not None and not (N & Z):
                r = ('cond', N if nonnull else BYTES - N)
        elif len(blk['succs']) == 2 and mentions(blk['cond'], valid - (derived - set(preds))):
            try:
                ok_preds = valid & set(preds)
                r = ('cond', char_truth(fn, blk['cond'], char_leaf(text, valid - derived), signed,
                                        resolve=lambda f_, nn: preds.get(nn.get('d')) if nn.get('d') in ok_preds else None,
                                        callee=make_callee_summary(_FB[0]) if _FB[0] is not None else None))
            except Unsupported:
                r = None
        truth_cache[key] = r
        return r

    IN = {fn.entry: (BYTES, frozenset())}
    before, before_valid = {}, {}
    work = deque([fn.entry])
    while work:
        b = work.popleft()
        st, valid = IN[b]
        blk = fn.blocks[b]
        for e in blk['elems']:
            before[e] = (before[e] | st) if e in before else st
            before_valid[e] = (before_valid[e] & valid) if e in before_valid else valid
            if e in mods:
                st, valid = BYTES, frozenset()
            for (dd, cp) in adefs.get(e, ()):
                if isinstance(cp, tuple):     # named predicate over the byte, computed here
                    cp = True
                elif isinstance(cp, dict):    # helper call on the byte under the cursor (or on a valid copy of it)
                    a0 = next(a for a in cp['args'] if a is not None)
                    x0 = fn.sn(a0)
                    cp = _is_read(fn, a0, text) or (x0 is not None and x0.get('k') == 'var' and x0.get('d') in (valid - derived))
                valid = (valid | {dd}) if cp else (valid - {dd})
        r = edge_refine(b, valid)
        if r is not None and r[0] == 'cond':
            t, f = blk['succs']
            outs = [(t, st & r[1]), (f, st - r[1])]
        elif r is not None and r[0] == 'switch':
            alll = ISet.of(*[v for vs in r[1].values() for v in vs]) if r[1] else ISet()
            outs = []
            for s_ in blk['succs']:
                if s_ is None:
                    continue
                outs.append((s_, st & ISet.of(*r[1][s_])) if s_ in r[1] else (s_, st - alll))
        else:
            outs = [(s_, st) for s_ in blk['succs']]
        for (s_, v) in outs:
            if s_ is None or not v:
                continue
            old = IN.get(s_)
            new = (v, valid) if old is None else (old[0] | v, old[1] & valid)
            if old is None or new != old:
                IN[s_] = new
                if s_ not in work:
                    work.append(s_)
    cache[(text, signed)] = (before, before_valid)
    return cache[(text, signed)]


def _elem_of(fn, nid):
    pos = fn.positions()
    if nid not in pos:
        raise Broken('%s: node without CFG position' % fn.q)
    b, i = pos[nid]
    elems = fn.blocks[b]['elems']
    if i >= len(elems):
        raise Broken('%s: node is not a CFG element' % fn.q)
    return elems[i]


def char_guard_set(fn, nid, text):
    """Exact set of byte values the read `text` can have when node nid executes (dataflow of the tests on every path
    since the cursor last changed).  Evaluated for signed and for unsigned plain char; the results must agree.
    Unreachable -> empty set."""
    e = _elem_of(fn, nid)
    res = {}
    for sg in (True, False):
        res[sg] = byte_states(fn, text, sg)[0].get(e, ISet())
    if res[True] != res[False]:
        raise Broken('%s: byte set at %s depends on the signedness of plain char (%s vs %s)' % (fn.q, fn.loc(nid), res[True].fmt(), res[False].fmt()))
    return res[True], []


def valid_copies(fn, nid, text):
    """locals that hold a copy of the read `text` when node nid executes"""
    return byte_states(fn, text, True)[1].get(_elem_of(fn, nid), frozenset()) - char_aliases(fn, text)[2]


def derived_helper(fn, arg, at, text):
    """If expression `arg` (part of node `at`) is a pointer local that currently holds the result of a helper call on the
    byte under the cursor: the qualified name of that helper, else None."""
    n = fn.sn(arg)
    if n is None or n.get('k') != 'var':
        return None
    cand, adefs, derived, _preds = char_aliases(fn, text)
    sub = set(fn.subtree(at))
    first = next((e for e in fn.blocks[fn.positions()[at][0]]['elems'] if e in sub), at)
    valid = byte_states(fn, text, True)[1].get(_elem_of(fn, first), frozenset())
    if n.get('d') in (valid & derived):
        for ds in adefs.values():
            for (dd, c) in ds:
                if dd == n['d'] and isinstance(c, dict):
                    return c['q']
    return None


def input_byte_locals(fn, text):
    """names of 8-bit locals all of whose definitions read a byte through the cursor of `text` (also `*p++`)"""
    ptext = cursor_lvalue(fn, text)
    ok, bad = set(), set()

    def from_cursor(e):
        n = fn.sn(e)
        while n is not None and n.get('k') == 'cast' and int_type(n.get('t')) is not None and int_type(n.get('t'))[1] == 8:
            n = fn.sn(n['sub'])
        return n is not None and n.get('k') == 'unop' and n.get('op') == '*' and read_text(fn, n) == '*' + ptext
    for n in fn.all_nodes():
        if n.get('k') == 'decl':
            for v in n['vars']:
                ty = int_type(v.get('tC'))
                if ty is not None and ty[1] == 8:
                    (ok if isinstance(v.get('init'), int) and from_cursor(v['init']) else bad).add(v['name'])
        elif n.get('k') == 'assign':
            l = fn.sn(n['lhs'])
            if l is not None and l.get('k') == 'var' and l.get('vk') == 'local':
                (ok if n['op'] == '=' and from_cursor(n['rhs']) else bad).add(l['name'])
    return ok - bad


def is_current_char(fn, arg, at, text):
    """expression `arg`, evaluated as part of node `at`, denotes the byte under the cursor: the read itself or a valid copy"""
    n = fn.sn(arg)
    if n is None:
        return False
    if _is_read(fn, arg, text):
        return True
    first = next((e for e in fn.blocks[fn.positions()[at][0]]['elems'] if e in set(fn.subtree(at))), at)
    return n.get('k') == 'var' and n.get('d') in valid_copies(fn, first, text)


def forward_reach(fn, a, b):
    """element a can execute before element b in the same pass (CFG reachability without loop back edges)"""
    pos = fn.positions()
    if a not in pos or b not in pos:
        return False
    (ba, ia), (bb, ib) = pos[a], pos[b]
    if ba == bb:
        return ia < ib
    dom = fn.dominators()
    seen = {ba}
    dq = deque([ba])
    while dq:
        x = dq.popleft()
        for s_ in fn.succs(x):
            if s_ in dom.get(x, ()) or s_ in seen:      # back edge: the target dominates the source
                continue
            if s_ == bb:
                return True
            seen.add(s_)
            dq.append(s_)
    return False


def loop_iterations(fn, loop, limit=64):
    """(decl id of the induction variable, [its value in each iteration]) of a counted loop `for (T i = C0; i <op> C1; i -= C2)`
    whose variable is changed only by one constant step after the body; Broken otherwise."""
    heads = [b for b in fn.blocks.values() if b.get('termcls') in ('ForStmt', 'WhileStmt') and 'cond' in b and len(b['succs']) == 2
             and fn.in_range(b['cond'], loop['b'], loop['e'])]
    inner = [l for l in fn.loops if l is not loop and loop['b'] <= l['b'] and l['e'] <= loop['e']]
    if len(heads) != 1 or inner:
        raise Broken('%s: loop shape not recognised (nested loops / no single head)' % fn.q)
    c = fn.sn(heads[0]['cond'])
    if c is None or c.get('k') != 'binop' or c['op'] not in ('<', '<=', '>', '>=', '!='):
        raise Broken('%s: loop condition %s is not a comparison of a counter with a constant' % (fn.q, fn.expr(heads[0]['cond'])))
    var = lim = None
    op = c['op']
    for (a, b, flip) in ((c['lhs'], c['rhs'], False), (c['rhs'], c['lhs'], True)):
        x = fn.sn(a)
        if x is not None and x.get('k') == 'var' and x.get('vk') == 'local' and fn.const_value(b) is not None:
            var, lim = x, fn.const_value(b)
            if flip:
                op = {'<': '>', '<=': '>=', '>': '<', '>=': '<=', '!=': '!='}[op]
    if var is None:
        raise Broken('%s: loop counter not recognised' % fn.q)
    d = var['d']
    init, _decl = local_init(fn, d)
    v0 = fn.const_value(init) if init is not None else None
    mods = modifications(fn, d)
    if v0 is None or len(mods) != 1 or not fn.in_range(mods[0], loop['b'], loop['e']):
        raise Broken('%s: loop counter is not a constant-initialised local with a single update in the loop' % fn.q)
    m = fn.nodes[mods[0]]
    if m.get('k') == 'unop' and m['op'] in ('++', '--'):
        step = 1 if m['op'] == '++' else -1
    elif m.get('k') == 'assign' and m['op'] in ('+=', '-=') and fn.const_value(m['rhs']) is not None:
        step = fn.const_value(m['rhs']) * (1 if m['op'] == '+=' else -1)
    else:
        raise Broken('%s: loop counter update %s not recognised' % (fn.q, fn.expr(mods[0])))
    ty = int_type(var.get('t'))
    if ty is None or step == 0:
        raise Broken('%s: loop counter type / step not recognised' % fn.q)
    lo, hi = (-(1 << (ty[1] - 1)), (1 << (ty[1] - 1)) - 1) if ty[0] else (0, (1 << ty[1]) - 1)
    test = {'<': lambda x: x < lim, '<=': lambda x: x <= lim, '>': lambda x: x > lim, '>=': lambda x: x >= lim, '!=': lambda x: x != lim}[op]
    vals = []
    v = v0
    while test(v):
        vals.append(v)
        if len(vals) > limit:
            raise Broken('%s: loop with more than %d iterations' % (fn.q, limit))
        v += step
        if v < lo or v > hi:
            v = lo + ((v - lo) % (1 << ty[1]))      # two's complement wrap of the counter type
    return d, vals, mods[0]


def depends_on(fn, nid, d, resolve, depth=0):
    """expression nid reads variable d, directly or through locals with a unique reaching definition"""
    if depth > 8:
        return True
    for x in fn.subtree(nid):
        n = fn.nodes[x]
        if n.get('k') == 'var' and n.get('vk') in ('local', 'param'):
            if n.get('d') == d:
                return True
            e = resolve(fn, n) if resolve else None
            if e is not None and depends_on(fn, e, d, resolve, depth + 1):
                return True
    return False


def var_guard_set(fn, nid, d, domain, resolve=None, callee=None, char_signed=True, consts=None):
    """Exact set of values of the integer variable d (inside domain) under which node nid executes.  Guards that do not
    depend on d (directly or through locals resolved by `resolve`) constrain other state and are ignored; a guard that
    depends on d must be evaluable exactly."""
    S = domain
    p = Pred(fn, var_leaf(d), domain, resolve, char_signed, callee=callee, consts=consts)
    for (c, sense, _blk) in guards(fn, nid):
        if not depends_on(fn, c, d, resolve):
            continue
        try:
            t = p.truth(c)
        except Unsupported as e:
            if is_compound_part(fn, c, sense):
                continue
            raise Broken('%s: cannot evaluate guard %s exactly: %s' % (fn.q, fn.expr(c), e))
        S = S & (t if sense else domain - t)
    return S


def make_callee_summary(fb):
    """callee(fn, call_node, domain) -> (parameter index, ISet of argument values in `domain` for which the helper returns
    true / non-zero) for calls of small pure helper functions `bool f(integer)` whose body is in the fact base; the
    helper's body is evaluated like inlined code (guards of every return + truth set of the returned expression)."""
    from .charset import unique_def_resolver

    def callee(fn, n, domain, char_signed=True, depth=0):
        if depth > 3 or n.get('k') != 'call' or 'q' not in n or n.get('recv') is not None:
            return None
        cands = fb.fns(n['q'])
        if len({g.pat for g in cands}) != 1:
            return None
        g = cands[0]
        args = [a for a in n.get('args', []) if a is not None]
        if len(args) != 1 or len(g.params) != 1 or int_type(g.params[0]['tC']) is None or g.loops:
            return None
        d = g.params[0]['d']
        if modifications(g, d):
            return None
        # no side effects: only returns / declarations / pure expressions
        for x in g.all_nodes():
            if x.get('k') in ('call', 'construct', 'new', 'delete', 'throw') or (x.get('k') == 'assign' and (g.sn(x['lhs']) or {}).get('vk') != 'local'):
                return None
        res = unique_def_resolver(g)
        sub = lambda f_, nn, dom, cs=True: callee(f_, nn, dom, cs, depth + 1)
        p = Pred(g, var_leaf(d), domain, res, char_signed, callee=sub)
        out = ISet()
        rets = [x for x in g.all_nodes() if x.get('k') == 'return' and 'sub' in x]
        if not rets:
            return None
        for r in rets:
            G = var_guard_set(g, r['id'], d, domain, res, sub, char_signed)
            out = out | (G & p.truth(r['sub']))
        return 0, out
    return callee


# ------------------------------------------------------------------------------------------------ variable modifications / paths

def modifications(fn, d):
    """element node ids that may change local/param d: assignment, ++/--, address taken."""
    out = []
    for n in fn.all_nodes():
        k = n.get('k')
        if k == 'assign':
            l = fn.sn(n['lhs'])
            if l is not None and l.get('k') == 'var' and l.get('d') == d:
                out.append(n['id'])
        elif k == 'unop' and n['op'] in ('++', '--', '&'):
            s = fn.sn(n['sub'])
            if s is not None and s.get('k') == 'var' and s.get('d') == d:
                out.append(n['id'])
    return out


def block_paths(fn, start_block, stop_blocks, limit=512):
    """All acyclic block paths from start_block until a block of stop_blocks or the exit is reached (inclusive)."""
    out = []
    stack = [(start_block, (start_block,))]
    while stack:
        b, path = stack.pop()
        if (b in stop_blocks and len(path) > 1) or b == fn.exit or not fn.succs(b):
            out.append(path)
            if len(out) > limit:
                raise Broken('%s: too many paths' % fn.q)
            continue
        for s in fn.succs(b):
            if s in path and s not in stop_blocks:
                continue
            stack.append((s, path + (s,)))
    return out


def elems_on(fn, path, after=None):
    """Element ids along a block path; starts after element `after` in the first block if given."""
    out = []
    for i, b in enumerate(path):
        el = fn.blocks[b]['elems']
        if i == 0 and after is not None and after in el:
            el = el[el.index(after) + 1:]
        out.extend(el)
    return out


def ends_in_throw(fn, b):
    """Block b (and its linear successors) ends in a throw / call to a noreturn path: no path to a normal return."""
    seen = set()
    while b is not None and b not in seen:
        seen.add(b)
        blk = fn.blocks[b]
        if any(fn.nodes[e].get('k') == 'throw' for e in blk['elems']):
            return True
        ss = fn.succs(b)
        if len(ss) != 1 or ss[0] == fn.exit:
            return False
        b = ss[0]
    return False


def local_init(fn, d):
    """init expression id of the declaration of local d (or None)."""
    for n in fn.all_nodes():
        if n.get('k') == 'decl':
            for v in n['vars']:
                if v['d'] == d and isinstance(v.get('init'), int):
                    return v['init'], n['id']
    return None, None


def string_literal(fn, nid, resolve_locals=True):
    """The string literal an expression denotes: a literal, or a never-reassigned local/static initialised with one."""
    n = fn.sn(nid)
    hops = 0
    while n is not None and hops < 5:
        hops += 1
        if n.get('k') == 'lit' and 'str' in n:
            return n['str']
        if n.get('k') == 'var' and n.get('vk') in ('local', 'param') and resolve_locals:
            if modifications(fn, n['d']):
                return None
            init, _ = local_init(fn, n['d'])
            if init is None:
                return None
            n = fn.sn(init)
            continue
        return None
    return None


def is_var(fn, nid, d):
    n = fn.sn(nid)
    return n is not None and n.get('k') == 'var' and n.get('d') == d


def string_out_calls(fn, d_out):
    """Calls that write to the std::string variable d_out: member calls / operator calls with it as receiver, or free
    functions that get it as first argument.  -> [(node, kind)] kind in ('member', 'free')"""
    out = []
    for n in fn.all_nodes():
        if n.get('k') != 'call':
            continue
        if n.get('recv') is not None and is_var(fn, n['recv'], d_out):
            out.append((n, 'member'))
        elif n.get('recv') is None and n.get('args') and n['args'][0] is not None and is_var(fn, n['args'][0], d_out):
            out.append((n, 'free'))
    return out
