"""Helpers for the C14 rules: exact decision guards (short-circuit aware), byte predicates over a cursor, path
enumeration, small structural matchers.  No rule logic."""
from collections import deque

from .charset import ISet, Pred, Unsupported, char_truth, int_type

BYTES = ISet.span(0, 255)
_DECISION_TERMS = ('IfStmt', 'WhileStmt', 'ForStmt', 'DoStmt', 'ConditionalOperator')


class Broken(Exception):
    """Anchor / shape not recognised -> analysis-broken (exit 2), never a pass or a violation."""


def one(fb, q):
    fns = fb.fns(q)
    if not fns:
        raise Broken('function %s not found in the fact base' % q)
    pats = {f.pat for f in fns}
    if len(pats) != 1:
        raise Broken('function %s has %d different definitions' % (q, len(pats)))
    return fns[0]


# ------------------------------------------------------------------------------------------------ decisions and guards

def decisions(fn):
    """[(cond id, group blocks, true target, false target, deciding block)] for every two-way statement-level decision.
    The blocks that evaluate the short-circuit parts of the condition form one group with the deciding block: any edge
    from the group to the true target means the whole condition was true."""
    cached = getattr(fn, '_c14_decisions', None)
    if cached is not None:
        return cached
    out = []
    for b in fn.blocks.values():
        if 'cond' not in b or len(b['succs']) != 2 or b.get('termcls') not in _DECISION_TERMS:
            continue
        C = b['cond']
        sub = set(fn.subtree(C))
        group = {b['id']}
        for g in fn.blocks.values():
            if g.get('termcls') in ('BinaryOperator', 'ConditionalOperator') and g.get('cond') in sub and len(g['succs']) == 2 and g['id'] != b['id']:
                group.add(g['id'])
        t, f = b['succs']
        out.append((C, frozenset(group), t, f, b['id']))
    fn._c14_decisions = out
    return out


def _reach(fn, target, removed):
    seen = {fn.entry}
    dq = deque([fn.entry])
    while dq:
        b = dq.popleft()
        if b == target:
            return True
        for i, s in enumerate(fn.blocks[b]['succs']):
            if s is None or (b, i) in removed or s in seen:
                continue
            seen.add(s)
            dq.append(s)
    return False


def _expand(fn, cond, sense, blk, out):
    out.append((cond, sense, blk))
    n = fn.sn(cond)
    if n is None:
        return
    if n.get('k') == 'binop' and ((n['op'] == '&&' and sense) or (n['op'] == '||' and not sense)):
        _expand(fn, n['lhs'], sense, blk, out)
        _expand(fn, n['rhs'], sense, blk, out)
    elif n.get('k') == 'unop' and n['op'] == '!':
        _expand(fn, n['sub'], not sense, blk, out)


def guards(fn, nid):
    """[(cond id, sense, deciding block)]: every path from the entry to node nid leaves the decision `cond` through
    its `sense` side (decided by edge removal on the CFG, short-circuit blocks merged into their statement)."""
    pos = fn.positions()
    if nid not in pos:
        return []
    b0 = pos[nid][0]
    res = []
    for (C, group, t, f, X) in decisions(fn):
        if b0 in group or t == f:
            continue
        for sense, target in ((True, t), (False, f)):
            if target is None:
                continue
            removed = {(g, i) for g in group for i, s in enumerate(fn.blocks[g]['succs']) if s == target}
            if not _reach(fn, b0, removed):
                _expand(fn, C, sense, X, res)
    return res


def is_compound_part(fn, cond, sense):
    n = fn.sn(cond)
    return n is not None and n.get('k') == 'binop' and ((n['op'] == '&&' and sense) or (n['op'] == '||' and not sense))


# ------------------------------------------------------------------------------------------------ leaves

def var_leaf(d):
    return lambda fn, n: n.get('k') == 'var' and n.get('d') == d


def deref_leaf(text):
    return lambda fn, n: n.get('k') == 'unop' and n.get('op') == '*' and fn.expr(n['id']) == text


def char_reads(fn, nid):
    """{canonical text: node id} of the 8-bit reads through a pointer (`*s`, `**data`) inside expression nid."""
    out = {}
    for x in fn.subtree(nid):
        n = fn.nodes[x]
        if n.get('k') == 'unop' and n.get('op') == '*':
            ty = int_type(n.get('t'))
            if ty is not None and ty[1] == 8:
                out[fn.expr(x)] = x
    return out


def vars_in(fn, nid):
    """decl ids of local/param variables referenced in expression nid."""
    return {fn.nodes[x]['d'] for x in fn.subtree(nid) if fn.nodes[x].get('k') == 'var' and fn.nodes[x].get('vk') in ('local', 'param')}


def _cursor_of(fn, text):
    for n in fn.all_nodes():
        if n.get('k') == 'unop' and n.get('op') == '*' and fn.expr(n['id']) == text:
            rv = fn.root_var(n['id'])
            if rv is not None and rv[0] == 'var' and is_var(fn, n['sub'], rv[1]):
                return rv[1]
    raise Broken('%s: %s is not a byte read through a local pointer variable' % (fn.q, text))


def byte_states(fn, text, signed):
    """Forward may-dataflow over the CFG: the set of byte values the read `text` (e.g. `*s`) can have before every
    element.  Edges of two-way decisions whose condition reads `text` refine the set with the exact truth set of that
    (partial, short-circuit) condition; switch edges over the read refine by case label; joins take the union; any
    change of the cursor variable resets the set to all bytes."""
    cache = fn.__dict__.setdefault('_c14_bytes', {})
    if (text, signed) in cache:
        return cache[(text, signed)]
    d = _cursor_of(fn, text)
    leaf = deref_leaf(text)
    mods = set(modifications(fn, d))
    refine = {}
    for b in fn.blocks.values():
        if 'cond' not in b:
            continue
        if b.get('termcls') == 'SwitchStmt':
            c = fn.sn(b['cond'])
            if c is not None and c.get('k') == 'unop' and c.get('op') == '*' and fn.expr(c['id']) == text:
                labels = {}
                dflt = None
                for s_ in b['succs']:
                    if s_ is None:
                        continue
                    lab = fn.blocks[s_].get('label', {})
                    if 'case' in lab and fn.const_value(lab['case']) is not None:
                        labels.setdefault(s_, []).append(fn.const_value(lab['case']) & 0xff)
                    else:
                        dflt = s_
                refine[b['id']] = ('switch', labels, dflt)
            continue
        if len(b['succs']) == 2 and text in char_reads(fn, b['cond']):
            try:
                refine[b['id']] = ('cond', char_truth(fn, b['cond'], leaf, signed))
            except Unsupported:
                pass
    IN = {fn.entry: BYTES}
    before = {}
    work = deque([fn.entry])
    while work:
        b = work.popleft()
        st = IN[b]
        blk = fn.blocks[b]
        for e in blk['elems']:
            before[e] = (before[e] | st) if e in before else st
            if e in mods:
                st = BYTES
        outs = []
        r = refine.get(b)
        if r is not None and r[0] == 'cond':
            t, f = blk['succs']
            outs = [(t, st & r[1]), (f, st - r[1])]
        elif r is not None and r[0] == 'switch':
            alll = ISet.of(*[v for vs in r[1].values() for v in vs]) if r[1] else ISet()
            for s_ in blk['succs']:
                if s_ is None:
                    continue
                if s_ in r[1]:
                    outs.append((s_, st & ISet.of(*r[1][s_])))
                else:
                    outs.append((s_, st - alll))
        else:
            outs = [(s_, st) for s_ in blk['succs']]
        for (s_, v) in outs:
            if s_ is None or not v:
                continue
            old = IN.get(s_)
            new = v if old is None else (old | v)
            if old is None or new != old:
                IN[s_] = new
                if s_ not in work:
                    work.append(s_)
    cache[(text, signed)] = before
    return before


def char_guard_set(fn, nid, text):
    """Exact set of byte values the read `text` can have when node nid executes (dataflow of the tests on every path
    since the cursor last changed).  Evaluated for signed and for unsigned plain char; the results must agree.
    Unreachable -> empty set."""
    pos = fn.positions()
    if nid not in pos:
        raise Broken('%s: node without CFG position' % fn.q)
    b, i = pos[nid]
    elems = fn.blocks[b]['elems']
    if i >= len(elems):
        raise Broken('%s: node is not a CFG element' % fn.q)
    e = elems[i]
    res = {}
    for sg in (True, False):
        res[sg] = byte_states(fn, text, sg).get(e, ISet())
    if res[True] != res[False]:
        raise Broken('%s: byte set at %s depends on the signedness of plain char (%s vs %s)' % (fn.q, fn.loc(nid), res[True].fmt(), res[False].fmt()))
    return res[True], []


def var_guard_set(fn, nid, d, domain, resolve=None):
    """Exact set of values of the integer variable d (inside domain) under which node nid executes.  Without a
    resolver only guards that mention d are used (others constrain other state); with a resolver (straight-line helper
    whose locals are all derived from d) every guard must be evaluable."""
    S = domain
    p = Pred(fn, var_leaf(d), domain, resolve)
    for (c, sense, _blk) in guards(fn, nid):
        vs = vars_in(fn, c)
        if d not in vs and resolve is None:
            continue
        try:
            t = p.truth(c)
        except Unsupported as e:
            if is_compound_part(fn, c, sense):
                continue
            raise Broken('%s: cannot evaluate guard %s exactly: %s' % (fn.q, fn.expr(c), e))
        S = S & (t if sense else domain - t)
    return S


# ------------------------------------------------------------------------------------------------ variable modifications / paths

def modifications(fn, d):
    """element node ids that may change local/param d: assignment, ++/--, address taken."""
    out = []
    for n in fn.all_nodes():
        k = n.get('k')
        if k == 'assign':
            l = fn.sn(n['lhs'])
            if l is not None and l.get('k') == 'var' and l.get('d') == d:
                out.append(n['id'])
        elif k == 'unop' and n['op'] in ('++', '--', '&'):
            s = fn.sn(n['sub'])
            if s is not None and s.get('k') == 'var' and s.get('d') == d:
                out.append(n['id'])
    return out


def block_paths(fn, start_block, stop_blocks, limit=512):
    """All acyclic block paths from start_block until a block of stop_blocks or the exit is reached (inclusive)."""
    out = []
    stack = [(start_block, (start_block,))]
    while stack:
        b, path = stack.pop()
        if (b in stop_blocks and len(path) > 1) or b == fn.exit or not fn.succs(b):
            out.append(path)
            if len(out) > limit:
                raise Broken('%s: too many paths' % fn.q)
            continue
        for s in fn.succs(b):
            if s in path and s not in stop_blocks:
                continue
            stack.append((s, path + (s,)))
    return out


def elems_on(fn, path, after=None):
    """Element ids along a block path; starts after element `after` in the first block if given."""
    out = []
    for i, b in enumerate(path):
        el = fn.blocks[b]['elems']
        if i == 0 and after is not None and after in el:
            el = el[el.index(after) + 1:]
        out.extend(el)
    return out


def ends_in_throw(fn, b):
    """Block b (and its linear successors) ends in a throw / call to a noreturn path: no path to a normal return."""
    seen = set()
    while b is not None and b not in seen:
        seen.add(b)
        blk = fn.blocks[b]
        if any(fn.nodes[e].get('k') == 'throw' for e in blk['elems']):
            return True
        ss = fn.succs(b)
        if len(ss) != 1 or ss[0] == fn.exit:
            return False
        b = ss[0]
    return False


def local_init(fn, d):
    """init expression id of the declaration of local d (or None)."""
    for n in fn.all_nodes():
        if n.get('k') == 'decl':
            for v in n['vars']:
                if v['d'] == d and isinstance(v.get('init'), int):
                    return v['init'], n['id']
    return None, None


def string_literal(fn, nid, resolve_locals=True):
    """The string literal an expression denotes: a literal, or a never-reassigned local/static initialised with one."""
    n = fn.sn(nid)
    hops = 0
    while n is not None and hops < 5:
        hops += 1
        if n.get('k') == 'lit' and 'str' in n:
            return n['str']
        if n.get('k') == 'var' and n.get('vk') in ('local', 'param') and resolve_locals:
            if modifications(fn, n['d']):
                return None
            init, _ = local_init(fn, n['d'])
            if init is None:
                return None
            n = fn.sn(init)
            continue
        return None
    return None


def is_var(fn, nid, d):
    n = fn.sn(nid)
    return n is not None and n.get('k') == 'var' and n.get('d') == d


def string_out_calls(fn, d_out):
    """Calls that write to the std::string variable d_out: member calls / operator calls with it as receiver, or free
    functions that get it as first argument.  -> [(node, kind)] kind in ('member', 'free')"""
    out = []
    for n in fn.all_nodes():
        if n.get('k') != 'call':
            continue
        if n.get('recv') is not None and is_var(fn, n['recv'], d_out):
            out.append((n, 'member'))
        elif n.get('recv') is None and n.get('args') and n['args'][0] is not None and is_var(fn, n['args'][0], d_out):
            out.append((n, 'free'))
    return out
