"""Fact base loader for the JSON written by tools/osmfacts.cpp.

Only data access and generic graph helpers live here; no rule logic.
"""
import json
import os
from collections import defaultdict, deque

_NODE_INTERNED = ('t', 'q', 'u', 'rcls', 'rclsT', 'f', 'to', 'toC', 'tt', 'alloc', 'of', 'ofexpr_t', 'base_t')
_CHILD_KEYS = ('recv', 'callee', 'base', 'lhs', 'rhs', 'sub', 'cond', 'then', 'else', 'idx', 'init', 'size', 'range')
_CHILD_LIST_KEYS = ('args', 'ch', 'placement')


class Fn:
    """One function body (a template instantiation or a plain function)."""

    def __init__(self, d, S, fb):
        self.fb = fb
        self.d = d
        g = d.get
        self.id = d['id']
        self.q = S[d['q']]
        self.full = d['full']
        self.usr = S[d['u']]
        self.name = d['name']
        self.file = S[d['file']]
        self.line = d['line']
        self.bline = d.get('bline', self.line)
        self.eline = d['eline']
        self.ret = S[d['ret']]
        self.retC = S[d['retC']] if 'retC' in d else self.ret
        self.pat = d['pat']
        self.inst = bool(g('inst'))
        self.cls = S[d['cls']] if 'cls' in d else None
        self.clsT = S[d['clsT']] if 'clsT' in d else None
        self.kind = d['kind']
        self.virtual = bool(g('virt'))
        self.static = bool(g('static'))
        self.const = bool(g('const'))
        self.noexcept = bool(g('noexcept'))
        self.access = g('access')
        self.is_lambda = bool(g('lambda'))
        self.outer = g('outer')
        self.overrides = [S[x] for x in d.get('overrides', [])]
        self.targs = d.get('targs', [])
        self.cls_targs = d.get('clsTargs', [])
        self.params = []
        for p in d['params']:
            self.params.append({'d': p['d'], 'name': p['name'], 't': S[p['t']], 'tC': S[p['tC']]})
        self.has_cfg = 'blocks' in d
        self.nodes = {}
        self.blocks = {}
        self.entry = g('entry')
        self.exit = g('exit')
        self.tries = d.get('tries', [])
        self.switches = d.get('switches', [])
        self.loops = d.get('loops', [])
        self.bo = g('bo')
        self.eo = g('eo')
        if self.has_cfg:
            for k, n in d['nodes'].items():
                for key in _NODE_INTERNED:
                    if key in n:
                        n[key] = S[n[key]]
                if n.get('k') == 'decl':
                    for v in n['vars']:
                        v['t'] = S[v['t']]
                        v['tC'] = S[v['tC']]
                n['id'] = int(k)
                self.nodes[int(k)] = n
            for b in d['blocks']:
                self.blocks[b['id']] = b
        self._pos = None
        self._preds = None
        self._parent = None
        self._dom = None
        self._pdom = None

    # ------------------------------------------------------------------ basic access
    def __repr__(self):
        return '<Fn %s %s:%d>' % (self.full, os.path.basename(self.file), self.line)

    @property
    def site(self):
        return '%s:%d' % (self.file, self.line)

    def n(self, nid):
        return self.nodes[nid]

    def loc(self, nid):
        n = self.nodes.get(nid, {}) if not isinstance(nid, dict) else nid
        f = n.get('f', self.file)
        if 'l' in n:
            return '%s:%d' % (f, n['l'])
        return self.site

    def children(self, nid):
        n = self.nodes[nid]
        out = []
        for k in _CHILD_KEYS:
            v = n.get(k)
            if isinstance(v, int) and not isinstance(v, bool):
                out.append(v)
        for k in _CHILD_LIST_KEYS:
            for v in n.get(k, ()):  # may contain None
                if isinstance(v, int):
                    out.append(v)
        if n.get('k') == 'decl':
            for v in n['vars']:
                if isinstance(v.get('init'), int):
                    out.append(v['init'])
        if n.get('k') == 'lambda':
            for c in n.get('captures', ()):
                if isinstance(c.get('init'), int):
                    out.append(c['init'])
        return out

    def subtree(self, nid):
        """All node ids in the expression tree rooted at nid (pre-order, root first)."""
        out = []
        stack = [nid]
        seen = set()
        while stack:
            x = stack.pop()
            if x in seen or x not in self.nodes:
                continue
            seen.add(x)
            out.append(x)
            stack.extend(reversed(self.children(x)))
        return out

    def strip(self, nid, casts=True):
        """Skip wrappers (parens, cleanups, temporaries) and, optionally, implicit casts."""
        while nid is not None and nid in self.nodes:
            n = self.nodes[nid]
            k = n.get('k')
            if k == 'wrap' and 'sub' in n:
                nid = n['sub']
            elif casts and k == 'icast':
                nid = n['sub']
            elif casts and k == 'construct' and n.get('elidable') and len(n.get('args', [])) == 1:
                nid = n['args'][0]
            else:
                break
        return nid

    def sn(self, nid, casts=True):
        x = self.strip(nid, casts)
        return self.nodes.get(x) if x is not None else None

    def all_nodes(self):
        return self.nodes.values()

    def calls(self, qname=None, name=None):
        """Call-like nodes (call/construct/autodtor) with a resolved callee."""
        for n in self.nodes.values():
            if n.get('k') in ('call', 'construct', 'autodtor') and 'q' in n:
                if qname is not None and n['q'] != qname:
                    continue
                if name is not None and n['q'].rsplit('::', 1)[-1] != name:
                    continue
                yield n

    def parent_map(self):
        if self._parent is None:
            pm = {}
            for nid in self.nodes:
                for c in self.children(nid):
                    pm.setdefault(c, nid)
            self._parent = pm
        return self._parent

    # ------------------------------------------------------------------ CFG
    def succs(self, bid):
        return [s for s in self.blocks[bid]['succs'] if s is not None]

    def preds(self):
        if self._preds is None:
            p = defaultdict(list)
            for b in self.blocks.values():
                for s in b['succs']:
                    if s is not None:
                        p[s].append(b['id'])
            self._preds = p
        return self._preds

    def positions(self):
        """Map element node id -> (block id, index)."""
        if self._pos is None:
            pos = {}
            for b in self.blocks.values():
                for i, e in enumerate(b['elems']):
                    pos.setdefault(e, (b['id'], i))
            # non-element nodes inherit the position of the nearest element ancestor
            pm = self.parent_map()
            for nid in self.nodes:
                if nid not in pos:
                    x = nid
                    hops = 0
                    while x in pm and x not in pos and hops < 1000:
                        x = pm[x]
                        hops += 1
                    if x in pos:
                        pos[nid] = pos[x]
            # terminators
            for b in self.blocks.values():
                t = b.get('term')
                if isinstance(t, int) and t not in pos:
                    pos[t] = (b['id'], len(b['elems']))
            self._pos = pos
        return self._pos

    def reachable_blocks(self, start=None):
        start = self.entry if start is None else start
        seen = {start}
        dq = deque([start])
        while dq:
            b = dq.popleft()
            for s in self.succs(b):
                if s not in seen:
                    seen.add(s)
                    dq.append(s)
        return seen

    def catch_entry_blocks(self):
        return [b['id'] for b in self.blocks.values() if b.get('label', {}).get('catch')]

    def live_blocks(self):
        """Blocks reachable from entry or from any catch handler entry."""
        live = set(self.reachable_blocks())
        for c in self.catch_entry_blocks():
            live |= self.reachable_blocks(c)
        return live

    def dominators(self):
        if self._dom is None:
            self._dom = _dominators(self.blocks.keys(), self.entry, lambda b: self.succs(b), self.preds())
        return self._dom

    def elem_dominates(self, a, b):
        """Element a dominates element b (both element/inline node ids)."""
        pos = self.positions()
        if a not in pos or b not in pos:
            return False
        (ba, ia), (bb, ib) = pos[a], pos[b]
        if ba == bb:
            return ia < ib
        return ba in self.dominators().get(bb, set())

    def elems_after(self, nid):
        """Iterate element ids that can execute after element nid on some path (may-reach), in BFS order."""
        pos = self.positions()
        if nid not in pos:
            return
        b0, i0 = pos[nid]
        for e in self.blocks[b0]['elems'][i0 + 1:]:
            yield e
        seen = set()
        dq = deque(self.succs(b0))
        while dq:
            b = dq.popleft()
            if b in seen:
                continue
            seen.add(b)
            for e in self.blocks[b]['elems']:
                yield e
            dq.extend(self.succs(b))

    def path_exists_avoiding(self, start, is_target, is_barrier, include_start=False):
        """Is there a CFG path from just after element `start` (a node id, or ('block', bid) to start at a
        block's first element) to an element satisfying is_target, that does not pass through an element
        satisfying is_barrier?  Targets are tested before barriers.  is_target may also accept the
        pseudo element ('exit', bid) for reaching the function exit block.
        Returns the witness list of element ids or None."""
        pos = self.positions()
        if isinstance(start, tuple):
            b0, i0 = start[1], -1
        else:
            if start not in pos:
                return None
            b0, i0 = pos[start]
            if include_start:
                i0 -= 1
        # BFS over (block, start index); each block visited at most once from index 0, plus the start block
        seen = set()
        dq = deque([(b0, i0 + 1, [])])
        while dq:
            b, i, path = dq.popleft()
            elems = self.blocks[b]['elems']
            blocked = False
            cur = path
            for e in elems[i:]:
                if is_target(e):
                    return cur + [e]
                if is_barrier(e):
                    blocked = True
                    break
            if blocked:
                continue
            if b == self.exit:
                if is_target(('exit', b)):
                    return cur + [('exit', b)]
                continue
            for s in self.succs(b):
                if s not in seen:
                    seen.add(s)
                    dq.append((s, 0, cur + [('block', s)]))
        return None

    def enclosing_tries(self, nid):
        """Try statements whose try-block contains node nid (by source offsets in the function's file)."""
        n = self.nodes.get(nid)
        if not n or 'o' not in n:
            return []
        o = n['o']
        return [t for t in self.tries if t['b'] <= o <= t['e']]

    def enclosing_handlers(self, nid):
        n = self.nodes.get(nid)
        if not n or 'o' not in n:
            return []
        o = n['o']
        out = []
        for t in self.tries:
            for h in t['handlers']:
                if h['b'] <= o <= h['e']:
                    out.append((t, h))
        return out

    def in_range(self, nid, b, e):
        n = self.nodes.get(nid)
        return bool(n) and 'o' in n and b <= n['o'] <= e

    # ------------------------------------------------------------------ printing
    def expr(self, nid, depth=0):
        """Canonical text of an expression tree (for reports and structural comparison)."""
        if nid is None or nid not in self.nodes or depth > 40:
            return '?'
        n = self.nodes[nid]
        k = n.get('k')
        e = lambda x: self.expr(x, depth + 1)
        if k == 'wrap':
            return e(n['sub']) if 'sub' in n else '?'
        if k == 'icast':
            return e(n['sub'])
        if k == 'cast':
            return 'cast<%s>(%s)' % (n.get('toC', '?'), e(n['sub']))
        if k == 'lit':
            if 'str' in n:
                return json.dumps(n['str'])
            if n.get('null'):
                return 'nullptr'
            if n.get('char'):
                return "char(%s)" % n.get('cv')
            return str(n.get('cv'))
        if k == 'var':
            if n.get('vk') in ('enumconst', 'global', 'static_member', 'function'):
                return n.get('q', n['name'])
            return n['name']
        if k == 'this':
            return 'this'
        if k == 'member':
            b = self.sn(n['base'])
            if b is not None and b.get('k') == 'this':
                return n['name']
            return '%s.%s' % (e(n['base']), n['name'])
        if k == 'call':
            args = ', '.join(e(a) for a in n.get('args', []) if a is not None)
            nm = n.get('q', n.get('name', '?')).rsplit('::', 1)[-1] if 'q' in n or 'name' in n else e(n.get('callee'))
            if 'recv' in n and n['recv'] is not None:
                r = self.sn(n['recv'])
                if r is not None and r.get('k') == 'this':
                    return '%s(%s)' % (nm, args)
                if 'op' in n:
                    if n['op'] == '()':
                        return '%s(%s)' % (e(n['recv']), args)
                    if n['op'] == '[]':
                        return '%s[%s]' % (e(n['recv']), args)
                    if not n.get('args'):
                        return '%s%s' % (n['op'], e(n['recv']))
                    return '(%s %s %s)' % (e(n['recv']), n['op'], args)
                return '%s.%s(%s)' % (e(n['recv']), nm, args)
            if 'op' in n and len(n.get('args', [])) == 2:
                return '(%s %s %s)' % (e(n['args'][0]), n['op'], e(n['args'][1]))
            return '%s(%s)' % (n.get('q', nm), args)
        if k == 'construct':
            args = ', '.join(e(a) for a in n.get('args', []) if a is not None)
            if n.get('elidable') and len(n.get('args', [])) == 1:
                return args
            return '%s{%s}' % (n.get('rcls', n.get('t', '?')), args)
        if k == 'binop' or k == 'assign':
            return '(%s %s %s)' % (e(n['lhs']), n['op'], e(n['rhs']))
        if k == 'unop':
            if n.get('postfix'):
                return '%s%s' % (e(n['sub']), n['op'])
            return '%s%s' % (n['op'], e(n['sub']))
        if k == 'condop':
            return '(%s ? %s : %s)' % (e(n['cond']), e(n['then']), e(n['else']))
        if k == 'index':
            return '%s[%s]' % (e(n['base']), e(n['idx']))
        if k == 'sizeof':
            return '%s(%s)' % (n.get('trait', 'sizeof'), n.get('of', n.get('ofexpr_t', '?')))
        if k == 'return':
            return 'return %s' % (e(n['sub']) if 'sub' in n else '')
        if k == 'throw':
            return 'throw %s' % (e(n['sub']) if 'sub' in n else '')
        if k == 'decl':
            return '; '.join('%s %s = %s' % (v['t'], v['name'], e(v.get('init'))) for v in n['vars'])
        if k == 'lambda':
            return '[lambda#%s]' % n.get('fn')
        if k == 'initlist':
            return '{%s}' % ', '.join(e(a) for a in n.get('args', []))
        if k == 'new':
            return 'new %s' % n.get('alloc')
        if k == 'delete':
            return 'delete %s' % e(n['sub'])
        if k == 'init':
            return '%s(%s)' % (n.get('name', n.get('base_t', '?')), e(n.get('init')))
        if k == 'autodtor':
            return '~%s' % n.get('name')
        return '<%s>' % n.get('cls', k)

    # ------------------------------------------------------------------ misc helpers
    def const_value(self, nid):
        n = self.sn(nid)
        if n is None:
            return None
        if 'cv' in n and not n.get('float'):
            try:
                return int(n['cv'])
            except ValueError:
                return None
        # look through implicit casts for a folded value
        x = nid
        while x is not None and x in self.nodes:
            m = self.nodes[x]
            if 'cv' in m and not m.get('float'):
                try:
                    return int(m['cv'])
                except ValueError:
                    return None
            if m.get('k') in ('wrap', 'icast') and 'sub' in m:
                x = m['sub']
            else:
                break
        return None

    def member_field(self, nid):
        """If the (stripped) node is this->field or plain field access, return the field qname."""
        n = self.sn(nid)
        if n is not None and n.get('k') == 'member' and n.get('field'):
            return n['q']
        return None

    def is_this_member(self, nid, fieldname=None):
        n = self.sn(nid)
        if n is None or n.get('k') != 'member' or not n.get('field'):
            return False
        b = self.sn(n['base'])
        if b is None or b.get('k') != 'this':
            return False
        return fieldname is None or n['name'] == fieldname

    def root_var(self, nid):
        """Follow member/index/deref/call-receiver chains down to the variable or 'this' at the root.
        Returns ('var', declid, name) / ('this',) / ('field', qname) / None."""
        hops = 0
        while nid is not None and nid in self.nodes and hops < 100:
            hops += 1
            n = self.nodes[nid]
            k = n.get('k')
            if k in ('wrap', 'icast', 'cast'):
                nid = n.get('sub')
            elif k == 'member':
                b = self.sn(n['base'])
                if b is not None and b.get('k') == 'this' and n.get('field'):
                    return ('field', n['q'], n['name'])
                nid = n['base']
            elif k == 'index':
                nid = n['base']
            elif k == 'unop' and n['op'] in ('*', '&'):
                nid = n['sub']
            elif k == 'call' and n.get('recv') is not None:
                nid = n['recv']
            elif k == 'var':
                return ('var', n['d'], n['name'])
            elif k == 'this':
                return ('this',)
            elif k == 'construct' and (n.get('elidable') or n.get('copymove')) and n.get('args'):
                nid = n['args'][0]
            elif k == 'call' and n.get('q') in ('std::move', 'std::forward') and n.get('args'):
                nid = n['args'][0]
            else:
                return None
        return None


def _dominators(block_ids, entry, succs, preds):
    block_ids = list(block_ids)
    # only blocks reachable from entry get meaningful dominator sets
    reach = {entry}
    dq = deque([entry])
    while dq:
        b = dq.popleft()
        for s in succs(b):
            if s not in reach:
                reach.add(s)
                dq.append(s)
    dom = {b: set(reach) for b in reach}
    dom[entry] = {entry}
    changed = True
    order = [b for b in sorted(reach, reverse=True)]
    while changed:
        changed = False
        for b in order:
            if b == entry:
                continue
            ps = [p for p in preds.get(b, []) if p in reach]
            if not ps:
                new = {b}
            else:
                new = set.intersection(*(dom[p] for p in ps)) | {b}
            if new != dom[b]:
                dom[b] = new
                changed = True
    return dom


class Record:
    def __init__(self, d, S):
        self.d = d
        self.q = S[d['q']]
        self.full = S[d['full']]
        self.file = S[d['file']]
        self.line = d['line']
        self.inst = bool(d.get('inst'))
        self.targs = d.get('targs', [])
        self.bases = [{'t': S[b['t']], 'q': S[b['q']] if 'q' in b else None} for b in d['bases']]
        self.allbases = d['allbases']
        self.fields = []
        for f in d['fields']:
            g = dict(f)
            for k in ('q', 't', 'tC', 'pointee', 'rec'):
                if k in g:
                    g[k] = S[g[k]]
            self.fields.append(g)
        self.methods = []
        for m in d['methods']:
            g = dict(m)
            for k in ('q', 'u', 'ret'):
                if k in g:
                    g[k] = S[g[k]]
            g['overrides'] = [S[x] for x in m.get('overrides', [])]
            self.methods.append(g)
        self.statics = []
        for s in d['statics']:
            g = dict(s)
            g['q'] = S[g['q']]
            g['t'] = S[g['t']]
            self.statics.append(g)
        self.user_dtor = bool(d.get('user_dtor'))
        self.trivial_dtor = bool(d.get('trivial_dtor'))

    def field(self, name):
        for f in self.fields:
            if f['name'] == name:
                return f
        return None

    def __repr__(self):
        return '<Record %s>' % self.full


class FactBase:
    def __init__(self, path=None):
        self.functions = []
        self.records = []
        self.enums = []
        self.globals = []
        self.patterns = []
        self.units = []
        self.by_q = defaultdict(list)
        self.by_usr = defaultdict(list)
        self.by_id = {}
        self.rec_by_q = defaultdict(list)
        self._seen_fn = set()
        self._seen_rec = set()
        if path:
            self.load(path)

    def load(self, path):
        with open(path) as f:
            doc = json.load(f)
        rest = doc['rest']
        S = rest['S']
        unit = rest['unit']
        self.units.append(unit)
        uidx = len(self.units) - 1
        for d in doc['functions']:
            fn = Fn(d, S, self)
            fn.unit = uidx
            key = (fn.usr, fn.full, fn.pat)
            if key in self._seen_fn:
                continue
            self._seen_fn.add(key)
            self.functions.append(fn)
            self.by_q[fn.q].append(fn)
            self.by_usr[fn.usr].append(fn)
            self.by_id[(uidx, fn.id)] = fn
        for d in rest['records']:
            r = Record(d, S)
            if (r.full, r.file, r.line) in self._seen_rec:
                continue
            self._seen_rec.add((r.full, r.file, r.line))
            self.records.append(r)
            self.rec_by_q[r.q].append(r)
        for d in rest['enums']:
            e = dict(d)
            e['q'] = S[e['q']]
            e['file'] = S[e['file']]
            if not any(x['q'] == e['q'] for x in self.enums):
                self.enums.append(e)
        for d in rest['globals']:
            g = dict(d)
            g['q'] = S[g['q']]
            g['t'] = S[g['t']]
            g['file'] = S[g['file']]
            self.globals.append(g)
        for d in rest['patterns']:
            p = dict(d)
            p['q'] = S[p['q']]
            p['file'] = S[p['file']]
            self.patterns.append(p)
        self.cfg_errors = rest.get('cfg_errors', 0)

    # ------------------------------------------------------------------ lookup
    def fns(self, q):
        """All bodies (instantiations) with this plain qualified name."""
        return list(self.by_q.get(q, []))

    def fn1(self, q):
        """Exactly one pattern expected; returns the list of its instantiations (>=1) or []."""
        return self.fns(q)

    def lambda_fn(self, fn, node):
        """Resolve a lambda node inside fn to its Fn."""
        fid = node.get('fn')
        return self.by_id.get((fn.unit, fid))

    def lambdas_in(self, fn):
        return [g for g in self.functions if g.unit == fn.unit and g.is_lambda and g.outer == fn.id]

    def record(self, q):
        r = self.rec_by_q.get(q, [])
        return r[0] if r else None

    def records_named(self, q):
        return list(self.rec_by_q.get(q, []))

    def derived_from(self, base_q):
        return [r for r in self.records if base_q in r.allbases and r.q != base_q]

    def enum(self, q):
        for e in self.enums:
            if e['q'] == q:
                return e
        return None

    def global_const(self, q):
        for g in self.globals:
            if g['q'] == q:
                return g
        return None

    def callees_closure(self, fn, depth=8):
        """Set of plain qnames of functions transitively called from fn (resolved callees with bodies in the
        fact base are followed; virtual calls follow all overriders known)."""
        seen_fn = set()
        out = set()
        work = [(fn, 0)]
        while work:
            f, d = work.pop()
            if id(f) in seen_fn:
                continue
            seen_fn.add(id(f))
            for c in f.calls():
                out.add(c['q'])
                if d < depth:
                    for g in self.by_usr.get(c.get('u'), []):
                        work.append((g, d + 1))
                    if c.get('virt'):
                        for g in self.overriders(c.get('u')):
                            work.append((g, d + 1))
            for n in f.all_nodes():
                if n.get('k') == 'lambda':
                    g = self.lambda_fn(f, n)
                    if g is not None and d < depth:
                        work.append((g, d + 1))
        return out

    def overriders(self, usr):
        out = []
        for f in self.functions:
            if usr in f.overrides:
                out.append(f)
                out.extend(self.overriders(f.usr))
        return out

    def patterns_of(self, fns):
        """Group function bodies by pattern location: {pat: [Fn...]}"""
        g = defaultdict(list)
        for f in fns:
            g[f.pat].append(f)
        return g
