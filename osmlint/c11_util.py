"""Small CFG helpers for rules/c11.py (PAIR-style path decisions, range-for loops, receiver/argument roles).

Nothing here knows about libosmium names; everything works on osmlint.facts.Fn objects.
"""
from .flow import guards_of, path_search

NORETURN = ('__assert_fail', 'abort', 'std::abort', 'std::terminate', 'exit', '_Exit', 'quick_exit')


def exit_t(e):
    return isinstance(e, tuple) and e[0] == 'exit'


def is_noreturn(fn, e):
    if isinstance(e, tuple):
        return False
    n = fn.nodes.get(e)
    return n is not None and n.get('k') == 'call' and n.get('q') in NORETURN


def calls(fn, q=None, name=None, on=None):
    """Resolved call nodes of fn; filter by qualified callee, last name segment, or receiver root (fn.root_var value)."""
    out = []
    for n in fn.all_nodes():
        if n.get('k') != 'call' or 'q' not in n:
            continue
        if q is not None and n['q'] != q:
            continue
        if name is not None and n['q'].rsplit('::', 1)[-1] != name:
            continue
        if on is not None and (n.get('recv') is None or fn.root_var(n['recv']) != on):
            continue
        out.append(n)
    return sorted(out, key=lambda n: n['id'])


def live(fn, nid):
    """The node lies in a block reachable from the function entry (constant-false branches are pruned by clang)."""
    pos = fn.positions()
    return nid in pos and pos[nid][0] in fn.reachable_blocks()


def every_path_passes(fn, ids, start=None, until=None, edge_ok=None):
    """None when every path from `start` (an element id; default: function entry) to `until` (a set of element ids;
    default: the function exit) executes one of `ids`; otherwise the witness path.  Paths ending in a noreturn call
    (failed assert) are not paths to the exit."""
    ids = set(ids)
    if until is None:
        tgt = exit_t
    else:
        u = set(until)
        tgt = lambda e: e in u
    bar = lambda e: e in ids or is_noreturn(fn, e)
    if start is None:
        return path_search(fn, fn.entry, tgt, bar, edge_ok, from_block_start=True)
    return path_search(fn, start, tgt, bar, edge_ok)


def can_follow(fn, a_ids, b_ids, boundary=()):
    """Witness path from one of a_ids to one of b_ids that does not cross `boundary` elements (None = impossible)."""
    b = set(b_ids)
    bd = set(boundary)
    for a in a_ids:
        w = path_search(fn, a, lambda e: e in b, lambda e: e in bd or is_noreturn(fn, e))
        if w is not None:
            return w
    return None


def exactly_once(fn, ids, start=None, until=None, boundary=()):
    """None when one of `ids` executes exactly once on every path start..until; otherwise a short reason."""
    ids = list(ids)
    if not ids:
        return 'never executed'
    w = every_path_passes(fn, ids, start, until)
    if w is not None:
        return 'a path avoids it'
    bd = set(boundary) | (set(until) if until else set())
    if can_follow(fn, ids, ids, bd) is not None:
        return 'it can execute twice'
    return None


class RangeLoop(object):
    """One range-based for loop: `for (T var : range_expr)`."""
    __slots__ = ('loop', 'range_d', 'range_init', 'begin_d', 'var_d', 'var_name', 'var_t', 'var_decl', 'inc')

    def by_reference(self):
        return self.var_t.rstrip().endswith('&')

    def mutable_reference(self):
        t = self.var_t.strip()
        return t.endswith('&') and not t.startswith('const ') and ' const &' not in t and 'const &' not in t


def range_loops(fn):
    """All range-based for loops of fn, recognised structurally: a reference variable bound to the range expression, an
    iterator variable initialised from begin() of it, the loop variable initialised by dereferencing that iterator and
    the increment of the iterator."""
    decls = {}
    for n in fn.all_nodes():
        if n.get('k') == 'decl':
            for v in n['vars']:
                decls[v['d']] = (n, v)
    out = []
    for d, (n, v) in decls.items():
        init = v.get('init')
        if not isinstance(init, int):
            continue
        # iterator variable: initialised from X.begin() where X is a declared reference variable
        s = fn.sn(init)
        if s is None or s.get('k') != 'call' or s.get('recv') is None or s.get('q', '').rsplit('::', 1)[-1] not in ('begin', 'cbegin'):
            continue
        rr = fn.root_var(s['recv'])
        if rr is None or rr[0] != 'var' or rr[1] not in decls:
            continue
        rn, rv = decls[rr[1]]
        if not rv['tC'].rstrip().endswith('&') or not isinstance(rv.get('init'), int):
            continue
        loops = [l for l in fn.loops if l['cls'] == 'CXXForRangeStmt' and fn.in_range(n['id'], l['b'], l['e'])]
        if not loops:
            continue
        loop = min(loops, key=lambda l: l['e'] - l['b'])
        L = RangeLoop()
        L.loop, L.range_d, L.range_init, L.begin_d = loop, rr[1], rv['init'], d
        L.var_d = L.var_name = L.var_t = L.var_decl = L.inc = None
        for d2, (n2, v2) in decls.items():
            i2 = v2.get('init')
            if not isinstance(i2, int) or d2 == d:
                continue
            s2 = fn.sn(i2)
            if s2 is not None and s2.get('k') == 'call' and s2.get('op') == '*' and fn.root_var(i2) == ('var', d, v['name']):
                L.var_d, L.var_name, L.var_t, L.var_decl = d2, v2['name'], v2['tC'], n2['id']
        for m in fn.all_nodes():
            if (m.get('k') == 'call' and m.get('op') == '++') or (m.get('k') == 'unop' and m.get('op') == '++'):
                tgt = m.get('recv') if m.get('recv') is not None else (m.get('args') or [m.get('sub')])[0]
                if tgt is not None and fn.root_var(tgt) == ('var', d, v['name']):
                    L.inc = m['id']
        if L.var_d is not None and L.inc is not None:
            out.append(L)
    return out


def in_loop(fn, L, nid):
    return fn.in_range(nid, L.loop['b'], L.loop['e'])


def guard_conds(fn, nid):
    """[(stripped condition node, sense)] of the dominating conditions of nid.  Conjunctions / negations are expanded, and
    a condition that is a named bool local (`const bool last = (live == 1); if (last) ..`) is replaced by what it was
    initialised with, so naming a sub-expression does not change what a rule sees."""
    out, seen = [], set()

    def emit(n, sense):
        if (n['id'], sense) not in seen:
            seen.add((n['id'], sense))
            out.append((n, sense))

    def expand(cid, sense, depth):
        n = fn.sn(cid)
        hops = 0
        while n is not None and n.get('k') == 'cast' and hops < 4:      # static_cast<bool>(x) (assert) / functional casts
            n = fn.sn(n.get('sub'))
            hops += 1
        if n is None or depth > 8:
            return
        emit(n, sense)
        k = n.get('k')
        if k == 'binop' and ((n['op'] == '&&' and sense) or (n['op'] == '||' and not sense)):
            expand(n['lhs'], sense, depth + 1)
            expand(n['rhs'], sense, depth + 1)
        elif k == 'unop' and n['op'] == '!':
            expand(n['sub'], not sense, depth + 1)
        elif k == 'var' and n.get('vk') == 'local':
            o = origin(fn, n['id'])
            if o is not None and o['id'] != n['id']:
                expand(o['id'], sense, depth + 1)

    for (c, sense, _b) in guards_of(fn, nid):
        expand(c, sense, 0)
    return out


def zero_test(fn, n):
    """If node n is `X == 0` / `X != 0` (either operand order): (operator, X node id) else None."""
    if n is None or n.get('k') != 'binop' or n.get('op') not in ('==', '!='):
        return None
    if fn.const_value(n['rhs']) == 0 and fn.const_value(n['lhs']) is None:
        return n['op'], n['lhs']
    if fn.const_value(n['lhs']) == 0 and fn.const_value(n['rhs']) is None:
        return n['op'], n['rhs']
    return None


def nonzero_guarded(fn, nid, is_subject):
    """nid executes only when a value satisfying is_subject(node id) was tested to be non-zero."""
    for (n, sense) in guard_conds(fn, nid):
        z = zero_test(fn, n)
        if z is None:
            continue
        op, x = z
        if is_subject(x) and ((op == '!=' and sense) or (op == '==' and not sense)):
            return True
    return False


def var_edge_filter(fn, var_d, value):
    """edge_ok for path_search that follows only the branch edges consistent with bool local `var_d` == value at
    conditions that are exactly `var` or `!var`."""
    def edge_ok(b, idx, s):
        blk = fn.blocks[b]
        if 'cond' not in blk or len(blk['succs']) != 2:
            return True
        c = fn.sn(blk['cond'])
        neg = False
        while c is not None and c.get('k') == 'unop' and c.get('op') == '!':
            neg = not neg
            c = fn.sn(c['sub'])
        if c is None or c.get('k') != 'var' or c.get('d') != var_d:
            return True
        cond_true = (value != neg)
        return idx == (0 if cond_true else 1)
    return edge_ok


def counts_from_zero_by_one(fn, d):
    """Local counter: initialised with constant 0, changed only by a single ++ site."""
    init_ok = False
    for n in fn.all_nodes():
        if n.get('k') == 'decl':
            for v in n['vars']:
                if v['d'] == d:
                    init_ok = isinstance(v.get('init'), int) and fn.const_value(v['init']) == 0
    if not init_ok:
        return None
    incs = []
    for n in fn.all_nodes():
        k = n.get('k')
        if k == 'unop' and n['op'] in ('++', '--'):
            s = fn.sn(n['sub'])
            if s is not None and s.get('k') == 'var' and s.get('d') == d:
                if n['op'] != '++':
                    return None
                incs.append(n['id'])
        elif k == 'assign':
            l = fn.sn(n['lhs'])
            if l is not None and l.get('k') == 'var' and l.get('d') == d:
                return None
    return incs[0] if len(incs) == 1 else None


def is_call_to(fn, nid, q, on=None):
    n = fn.sn(nid)
    if n is None or n.get('k') != 'call' or n.get('q') != q:
        return False
    if on is not None and (n.get('recv') is None or fn.root_var(n['recv']) != on):
        return False
    return True


def param_root(fn, i):
    p = fn.params[i]
    return ('var', p['d'], p['name'])


def subtree_calls(fn, nid, q):
    return [fn.nodes[x] for x in fn.subtree(nid) if fn.nodes[x].get('k') == 'call' and fn.nodes[x].get('q') == q]


def origin(fn, nid, hops=6):
    """Strip wrappers and follow single-assignment locals to their initialiser: the node that produced the value.
    `auto& db = member_database(t); db.remove(..)` -> the member_database call.  Returns a node (or None)."""
    def through_copies(n):
        g = 0
        while n is not None and n.get('k') == 'construct' and (n.get('copymove') or n.get('elidable')) and len(n.get('args', [])) == 1 and g < 4:
            n = fn.sn(n['args'][0])
            g += 1
        return n

    n = through_copies(fn.sn(nid) if nid is not None else None)
    while n is not None and hops > 0 and n.get('k') == 'var' and n.get('vk') == 'local':
        hops -= 1
        init = None
        d = n['d']
        for m in fn.all_nodes():
            if m.get('k') == 'decl':
                for v in m['vars']:
                    if v['d'] == d and isinstance(v.get('init'), int):
                        init = v['init']
            elif m.get('k') == 'assign':
                l = fn.sn(m['lhs'])
                if l is not None and l.get('k') == 'var' and l.get('d') == d:
                    return n
            elif m.get('k') == 'unop' and m.get('op') in ('++', '--'):
                l = fn.sn(m['sub'])
                if l is not None and l.get('k') == 'var' and l.get('d') == d:
                    return n
        if init is None:
            return n
        nx = fn.sn(init)
        # a reference/value bound to a freshly built object keeps the variable as identity only for constructs of
        # class type with arguments (the caller may want the construct itself): return the initialiser in all cases
        if nx is None:
            return n
        n = through_copies(nx)
    return n


def call_edge_filter(fn, is_atom, value):
    """edge_ok for path_search: at every branch whose condition is `atom` or `!atom` (is_atom(node) true) follow only the
    edge consistent with atom == value."""
    def edge_ok(b, idx, s):
        blk = fn.blocks[b]
        if 'cond' not in blk or len(blk['succs']) != 2:
            return True
        c = fn.sn(blk['cond'])
        neg = False
        while c is not None and c.get('k') == 'unop' and c.get('op') == '!':
            neg = not neg
            c = fn.sn(c['sub'])
        if c is None or not is_atom(c):
            return True
        return idx == (0 if (value != neg) else 1)
    return edge_ok


# ---------------------------------------------------------------------------------------------------- element loops

class ElemLoop(object):
    """A loop that visits the elements of one sequence once each, in any of the equivalent spellings
         for (T v : seq)                                   (range-based for)
         for (auto it = seq.begin(); it != seq.end(); ++it)  /  auto it = seq.begin(); while (it != seq.end()) { ..; ++it; }
    `seq` is the node id of the sequence expression, `roots` the set of fn.root_var() values that denote the CURRENT
    element (the loop variable, the iterator, locals bound to `*it`), `start` an element id executed at the beginning of
    every iteration (searches start just after it), `inc` the element id of the advance, `mutable` whether the stored
    element can be modified through the loop variable."""
    __slots__ = ('loop', 'seq', 'roots', 'start', 'inc', 'mutable', 'kind')

    def is_elem(self, fn, nid):
        return nid is not None and fn.root_var(nid) in self.roots

    # compatibility with the older RangeLoop interface
    def mutable_reference(self):
        return self.mutable


def _decls(fn):
    out = {}
    for n in fn.all_nodes():
        if n.get('k') == 'decl':
            for v in n['vars']:
                out[v['d']] = (n, v)
    return out


def _advance_of(fn, d, name):
    for m in fn.all_nodes():
        if (m.get('k') == 'call' and m.get('op') == '++') or (m.get('k') == 'unop' and m.get('op') == '++'):
            tgt = m.get('recv') if m.get('recv') is not None else (m.get('args') or [m.get('sub')])[0]
            if tgt is not None and fn.root_var(tgt) == ('var', d, name) and (fn.sn(tgt) or {}).get('k') == 'var':
                return m['id']
    return None


def elem_loops(fn):
    """All element loops of fn (see ElemLoop)."""
    out = []
    decls = _decls(fn)
    for L in range_loops(fn):
        E = ElemLoop()
        E.loop, E.seq, E.start, E.inc, E.kind = L.loop, L.range_init, L.var_decl, L.inc, 'range-for'
        E.roots = {('var', L.var_d, L.var_name)}
        E.mutable = L.mutable_reference()
        out.append(E)
    range_begins = {L.begin_d for L in range_loops(fn)}
    for d, (n, v) in decls.items():
        if d in range_begins or not isinstance(v.get('init'), int):
            continue
        s = fn.sn(v['init'])
        if s is None or s.get('k') != 'call' or s.get('recv') is None or s.get('args') or s.get('q', '').rsplit('::', 1)[-1] not in ('begin', 'cbegin'):
            continue
        seq_root = fn.root_var(s['recv'])
        it = ('var', d, v['name'])
        inc = _advance_of(fn, d, v['name'])
        if inc is None:
            continue
        # loop condition: it != seq.end()
        cond_elem = None
        for b in fn.blocks.values():
            if 'cond' not in b or b.get('termcls') not in ('ForStmt', 'WhileStmt', 'DoStmt'):
                continue
            c = fn.sn(b['cond'])
            if c is None or c.get('k') != 'call' or c.get('op') != '!=':
                continue
            ops = ([c['recv']] if c.get('recv') is not None else []) + [a for a in c.get('args', []) if a is not None]
            if len(ops) != 2:
                continue
            for (x, y) in ((ops[0], ops[1]), (ops[1], ops[0])):
                yn = fn.sn(y)
                if fn.root_var(x) == it and (fn.sn(x) or {}).get('k') == 'var' and yn is not None and yn.get('k') == 'call' and \
                        yn.get('q', '').rsplit('::', 1)[-1] in ('end', 'cend') and yn.get('recv') is not None and fn.root_var(yn['recv']) == seq_root:
                    cond_elem = c['id']
        if cond_elem is None:
            continue
        loops = [l for l in fn.loops if l['cls'] in ('ForStmt', 'WhileStmt', 'DoStmt') and fn.in_range(inc, l['b'], l['e'])]
        if not loops:
            continue
        E = ElemLoop()
        E.loop, E.seq, E.start, E.inc, E.kind = min(loops, key=lambda l: l['e'] - l['b']), s['recv'], cond_elem, inc, 'iterator'
        E.roots = {it}
        # locals bound to the current element (`auto& e = *it;`)
        for d2, (n2, v2) in decls.items():
            if d2 != d and isinstance(v2.get('init'), int) and fn.in_range(n2['id'], E.loop['b'], E.loop['e']):
                s2 = fn.sn(v2['init'])
                if s2 is not None and s2.get('k') == 'call' and s2.get('op') == '*' and fn.root_var(v2['init']) == it and v2['tC'].rstrip().endswith('&'):
                    E.roots.add(('var', d2, v2['name']))
        t = v['tC']
        first = t[t.find('<') + 1:] if '<' in t else t
        first = first.split(',')[0]
        E.mutable = 'const ' not in first and ' const' not in first and 'const_iterator' not in v['t']
        out.append(E)
    return out


def _reach(fn, start, stop):
    seen, work = set(), [start]
    while work:
        b = work.pop()
        if b is None or b in seen or b == stop:
            continue
        seen.add(b)
        work.extend(fn.succs(b))
    return seen


def loop_body_blocks(fn, L):
    """Blocks of the loop body, from the CFG (so that helper bodies expanded in place count as part of the loop): what is
    reachable from the condition's true edge without re-entering the condition, minus what is reachable from its false
    edge (the code after the loop, which `break` also reaches).  None when the condition block cannot be identified."""
    key = (L.start, L.inc)
    cache = fn.__dict__.setdefault('_c11_loop_bodies', {})
    if key in cache:
        return cache[key]
    pos = fn.positions()
    res = None
    if L.start in pos:
        sb = pos[L.start][0]
        cb = None
        if L.kind == 'iterator':
            cb = sb if len(fn.blocks[sb]['succs']) == 2 else None
        else:
            for p_ in fn.preds().get(sb, []):
                if fn.blocks[p_].get('termcls') == 'CXXForRangeStmt' and len(fn.blocks[p_]['succs']) == 2 and fn.blocks[p_]['succs'][0] == sb:
                    cb = p_
        if cb is not None:
            t, f = fn.blocks[cb]['succs']
            res = _reach(fn, t, cb) - (_reach(fn, f, cb) if f is not None else set())
    cache[key] = res
    return res


def loop_contains(fn, L, nid):
    body = loop_body_blocks(fn, L)
    if body is None:
        return fn.in_range(nid, L.loop['b'], L.loop['e'])
    pos = fn.positions()
    return nid in pos and pos[nid][0] in body


# ---------------------------------------------------------------------------------------------------- helper inlining

class Collector(object):
    """Reporter stand-in that records the calls so a rule body can be evaluated tentatively and replayed."""

    def __init__(self):
        self.log = []
        self.failed = False

    def ok(self, *a, **k):
        self.log.append(('ok', a, k))

    def bad(self, *a, **k):
        self.failed = True
        self.log.append(('bad', a, k))

    def check(self, cond, *a, **k):
        if not cond:
            self.failed = True
        self.log.append(('check', (cond,) + a, k))
        return cond

    def broken(self, *a, **k):
        self.failed = True
        self.log.append(('broken', a, k))

    def note(self, *a, **k):
        self.log.append(('note', a, k))

    def expect(self, *a, **k):
        self.log.append(('expect', a, k))

    def replay(self, R):
        for (m, a, k) in self.log:
            getattr(R, m)(*a, **k)


def _renumber(n, off, child_keys, list_keys):
    m = dict(n)
    m['id'] = n['id'] + off
    for k in child_keys:
        v = m.get(k)
        if isinstance(v, int) and not isinstance(v, bool):
            m[k] = v + off
    for k in list_keys:
        if k in m:
            m[k] = [(x + off if isinstance(x, int) else x) for x in m[k]]
    if m.get('k') == 'decl':
        vs = []
        for v in m['vars']:
            v = dict(v)
            if isinstance(v.get('init'), int):
                v['init'] += off
            vs.append(v)
        m['vars'] = vs
    if m.get('k') == 'lambda' and 'captures' in m:
        cs = []
        for c in m['captures']:
            c = dict(c)
            if isinstance(c.get('init'), int):
                c['init'] += off
            cs.append(c)
        m['captures'] = cs
    return m


def inline_calls(fb, fn, should_inline, max_inlines=10):
    """A view of fn (same class as osmlint.facts.Fn) in which every call for which should_inline(view, call node, callee Fn)
    holds is expanded in place: the callee's blocks are spliced into the CFG between the evaluation of the arguments and
    the call node (which stays, as the value of the call), the callee's parameters become aliases of the argument
    expressions, its `this` an alias of the receiver, its `return e;` plain value expressions.  Returns fn itself when
    nothing was inlined.  Semantics-preserving for non-recursive, non-virtual callees."""
    import copy
    from .facts import _CHILD_KEYS, _CHILD_LIST_KEYS
    view = fn
    done = 0
    stack = {fn.usr}
    progress = True
    while progress and done < max_inlines:
        progress = False
        blocks_elems = {e: b['id'] for b in view.blocks.values() for e in b['elems']}
        for n in sorted(view.nodes.values(), key=lambda n: n['id']):
            if n.get('k') != 'call' or not n.get('u') or n.get('virt') or n['id'] not in blocks_elems or n.get('_inlined'):
                continue
            cands = [g for g in fb.by_usr.get(n['u'], []) if g.has_cfg and g.unit == fn.unit] or [g for g in fb.by_usr.get(n['u'], []) if g.has_cfg]
            if not cands or cands[0].usr in stack:
                continue
            g = cands[0]
            if not should_inline(view, n, g):
                continue
            if view is fn:
                view = copy.copy(fn)
                view.nodes = dict(fn.nodes)
                view.blocks = {k: dict(b) for k, b in fn.blocks.items()}
                view.loops = list(fn.loops)
                view._pos = view._preds = view._parent = view._dom = view._pdom = None
                view.inlined = []
                view._c11_loop_bodies = {}
            off = max(view.nodes) + 1
            boff = max(view.blocks) + 1
            args = [a for a in n.get('args', [])]
            pmap = {p['d']: (args[i] if i < len(args) else None) for i, p in enumerate(g.params)}
            for m in g.nodes.values():
                m2 = _renumber(m, off, _CHILD_KEYS, _CHILD_LIST_KEYS)
                if m.get('k') == 'var' and m.get('vk') == 'param' and pmap.get(m.get('d')) is not None:
                    m2 = {'k': 'wrap', 'id': m2['id'], 'sub': pmap[m['d']], 't': m.get('t'), 'l': m.get('l'), 'o': m.get('o'), 'f': m.get('f', g.file), 'cls': 'InlinedParam'}
                elif m.get('k') == 'this' and n.get('recv') is not None:
                    m2 = {'k': 'wrap', 'id': m2['id'], 'sub': n['recv'], 't': m.get('t'), 'l': m.get('l'), 'o': m.get('o'), 'f': m.get('f', g.file), 'cls': 'InlinedThis'}
                elif m.get('k') == 'return':
                    m2['k'] = 'wrap' if 'sub' in m2 else 'stmt'
                    m2['cls'] = 'InlinedReturn'
                if 'f' not in m2 and g.file != fn.file:
                    m2['f'] = g.file
                view.nodes[m2['id']] = m2
            # split the caller block at the call element
            bid = blocks_elems[n['id']]
            B = view.blocks[bid]
            i = B['elems'].index(n['id'])
            post_id = boff + max(g.blocks) + 1
            post = dict(B)
            post['id'] = post_id
            post['elems'] = B['elems'][i:]
            post.pop('label', None)
            pre = dict(B)
            pre['elems'] = B['elems'][:i]
            pre['succs'] = [g.entry + boff]
            for k in ('term', 'termcls', 'cond'):
                pre.pop(k, None)
            view.blocks[bid] = pre
            view.blocks[post_id] = post
            if view.exit == bid:
                view.exit = post_id
            for b in g.blocks.values():
                b2 = dict(b)
                b2['id'] = b['id'] + boff
                b2['elems'] = [e + off for e in b['elems']]
                b2['succs'] = [(s + boff if s is not None else None) for s in b['succs']]
                for k in ('term', 'cond'):
                    if isinstance(b2.get(k), int):
                        b2[k] += off
                if b2.get('label') and isinstance(b2['label'].get('case'), int):
                    b2['label'] = dict(b2['label'], case=b2['label']['case'] + off)
                if b['id'] == g.exit:
                    b2['succs'] = [post_id]
                view.blocks[b2['id']] = b2
            # path sensitivity for bool helpers: when the call's value is (the negation of) the branch condition of the block
            # it sits in, a `return <constant>` of the callee continues directly on the branch edge that value selects
            if 'cond' in post and len(post['succs']) == 2:
                c = view.nodes.get(view.strip(post['cond']))
                neg = False
                hops = 0
                while c is not None and c.get('k') == 'unop' and c.get('op') == '!' and hops < 4:
                    neg = not neg
                    c = view.nodes.get(view.strip(c['sub']))
                    hops += 1
                allowed = set(view.subtree(post['cond'])) | {post['cond']}
                if c is not None and c['id'] == n['id'] and all(e in allowed for e in post['elems']):
                    for b in g.blocks.values():
                        for e in b['elems']:
                            m = g.nodes[e]
                            if m.get('k') == 'return' and 'sub' in m:
                                v = g.const_value(m['sub'])
                                if v is not None:
                                    tgt = post['succs'][0 if (bool(v) != neg) else 1]
                                    if tgt is not None:
                                        view.blocks[b['id'] + boff]['succs'] = [tgt]
            view.loops = view.loops + list(g.loops)
            n2 = dict(view.nodes[n['id']])
            n2['_inlined'] = g.q
            view.nodes[n['id']] = n2
            view.inlined.append(g.q)
            view._c11_loop_bodies = {}
            view._pos = view._preds = view._parent = view._dom = view._pdom = None
            stack.add(g.usr)
            done += 1
            progress = True
            break
    return view


def root_through_refs(fn, nid, hops=5):
    """fn.root_var(), continued through reference-typed locals (`const auto& first = *range.begin(); first.x` is rooted
    in `range`)."""
    r = fn.root_var(nid) if nid is not None else None
    while r is not None and r[0] == 'var' and hops > 0:
        hops -= 1
        decl = None
        for m in fn.all_nodes():
            if m.get('k') == 'decl':
                for v in m['vars']:
                    if v['d'] == r[1]:
                        decl = v
        if decl is None or not decl['tC'].strip().endswith('&') or not isinstance(decl.get('init'), int):
            return r
        nr = fn.root_var(decl['init'])
        if nr is None:
            return r
        r = nr
    return r


def loop_escape(fn, L):
    """Witness path on which an iteration of element loop L is left without reaching the advance (break / return inside
    the body): a loop that has to treat EVERY element must not have one.  None = every iteration reaches the advance."""
    pos = fn.positions()
    bar = lambda e: e == L.inc or is_noreturn(fn, e)
    if L.kind == 'iterator':
        if L.start not in pos:
            return None
        cb = fn.blocks[pos[L.start][0]]
        if len(cb['succs']) != 2 or cb['succs'][0] is None:
            return None
        return path_search(fn, cb['succs'][0], exit_t, bar, None, from_block_start=True)
    return path_search(fn, L.start, exit_t, bar)


def eval_bool(fn, nid, symbols, depth=0):
    """Three-valued evaluation of a boolean/integer expression: constants, ! && || == != over constants and the symbols
    given by symbols(node) -> int | None (None = not a symbol).  Returns int/bool or None (unknown)."""
    n = fn.sn(nid) if nid is not None else None
    hops = 0
    while n is not None and n.get('k') == 'cast' and hops < 4:
        n = fn.sn(n.get('sub'))
        hops += 1
    if n is None or depth > 30:
        return None
    sv = symbols(n)
    if sv is not None:
        return sv
    cv = fn.const_value(n['id'])
    if cv is not None:
        return cv
    k = n.get('k')
    if k == 'unop' and n.get('op') == '!':
        v = eval_bool(fn, n['sub'], symbols, depth + 1)
        return None if v is None else (0 if v else 1)
    if k == 'binop':
        a = eval_bool(fn, n['lhs'], symbols, depth + 1)
        b = eval_bool(fn, n['rhs'], symbols, depth + 1)
        op = n.get('op')
        if op == '&&':
            if a is not None and not a or b is not None and not b:
                return 0
            return 1 if (a and b) else None
        if op == '||':
            if a or b:
                return 1
            return 0 if (a is not None and b is not None) else None
        if a is None or b is None:
            return None
        if op == '==':
            return int(a == b)
        if op == '!=':
            return int(a != b)
    if k == 'condop':
        c = eval_bool(fn, n['cond'], symbols, depth + 1)
        if c is None:
            return None
        return eval_bool(fn, n['then'] if c else n['else'], symbols, depth + 1)
    return None
