"""ERRDISC -- error discipline for external (C / OS / zlib / bz2 / lz4 / expat) calls.

What is decided for one call site `r = f(...)` of a function f with a known failure convention:

    ASSUME the call failed (its result / out-parameter holds a value of f's failure set) and walk the CFG of the
    enclosing function from the call.  Branch conditions that mention a *carrier* of the failed value (the call
    expression itself, a local or this-member it was stored in, the variable whose address was passed as the
    out-parameter) are evaluated three-valued under that assumption and infeasible edges are pruned.  The site
    holds iff no *normal* exit of the function is reachable: every feasible path ends in a `throw`, in a call to a
    [[noreturn]] function, in a call to a library function that itself always throws when handed the failed value
    (extracted check helper), or re-enters the same call (retry loop, e.g. EINTR).

The formulation is semantic: it does not care how the result is named, whether the test is `!= 0`, `< 0`, `== -1`,
`!p`, whether the test sits in an `&&` chain, is hoisted behind unrelated statements, or is moved into a helper.
It fires when the result is never stored, is overwritten before it is tested, is tested against a value that does
not separate the failure set from success (gzwrite `< 0`), or when the failing edge falls through to a `return`.

Stores are followed: the failed value may travel through locals / this-members, a boolean computed from it
(`const bool failed = n <= 0;`) carries the definite truth value, and a function that merely hands the value back (thin
wrapper `int raw_close(int fd) { return ::close(fd); }`) passes the obligation on to each of its call sites.

Path sensitivity is limited to what the argument needs: the failure-set evaluation above, plus "same condition" facts --
a branch over locals/parameters only (e.g. the loop test `done != size`) keeps the value it had when the call was reached
(guard of the call) or when the walk last branched on it, until one of its variables is assigned.

A `throw` that lies inside a try block of the *same* function is followed into the matching handlers (a handler
that swallows and falls through to a normal exit is a dropped error).  Exceptions that leave the function are the
accepted outcome; what callers do with them is EXCFLOW's business.

Nothing here is specific to a property: C08 (write side), C09 (read side), C12 (mmap) and C13 (strto*) select their
sites with `sites(fb, fns, want=...)` / `closure_fns` and call `check_site` / `run_sites`.  Other building blocks that are
useful on their own: `fail_outcome` (Outcome.reached = what executes on the failure path), `outcome_assuming` (walk under
any value set, e.g. the success set `ge(0)` or an end-of-input result `fin(0)`), `guards` (edge-dominance guards of an
element), `eval3` / `effective_cond` (three-valued conditions on short-circuit CFGs), `explicit_discard`.

Convention table = DESIGN.md appendix B, with the symbolic constants replaced by their values (zlib.h, bzlib.h).
"""
from collections import deque

# ------------------------------------------------------------------------------------------------ failure sets


class FS:
    """A set of integers a call may produce: a finite set, a half line v < k ('lt') or v >= k ('ge')."""
    __slots__ = ('kind', 'data')

    def __init__(self, kind, data):
        self.kind = kind
        self.data = data

    def __hash__(self):
        return hash((self.kind, self.data))

    def __eq__(self, o):
        return isinstance(o, FS) and (self.kind, self.data) == (o.kind, o.data)

    def __repr__(self):
        if self.kind == 'fin':
            return '{%s}' % ','.join(str(x) for x in sorted(self.data))
        return '{v %s %d}' % ('<' if self.kind == 'lt' else '>=', self.data)

    def cmp(self, op, c):
        """Truth of `v op c` for v ranging over the set: True (all), False (none) or None (some)."""
        if self.kind == 'fin':
            rs = {_CMP[op](v, c) for v in self.data}
            if rs == {True}:
                return True
            if rs == {False}:
                return False
            return None
        if self.kind == 'ge':
            # v in [k, inf):  v op c  <=>  (-v) op' (-c) with -v in (-inf, -k]
            return FS('lt', -self.data + 1).cmp(_FLIP[op], -c)
        k = self.data  # v in (-inf, k-1]
        hi = k - 1
        if op == '<':
            return True if hi < c else None
        if op == '<=':
            return True if hi <= c else None
        if op == '>':
            return False if hi <= c else None
        if op == '>=':
            return False if hi < c else None
        if op == '==':
            return False if c > hi else None
        if op == '!=':
            return True if c > hi else None
        return None

    def truthy(self):
        return self.cmp('!=', 0)


_CMP = {'<': lambda a, b: a < b, '<=': lambda a, b: a <= b, '>': lambda a, b: a > b, '>=': lambda a, b: a >= b,
        '==': lambda a, b: a == b, '!=': lambda a, b: a != b}
_FLIP = {'<': '>', '<=': '>=', '>': '<', '>=': '<=', '==': '==', '!=': '!='}


def fin(*vals):
    return FS('fin', frozenset(vals))


def lt(k):
    return FS('lt', k)


def ge(k):
    return FS('ge', k)


MINUS1 = fin(-1)                       # POSIX: -1 and errno
NULL = fin(0)                          # null pointer
ZERO = fin(0)
ZERR = fin(-1, -2, -3, -4, -5, -6)     # Z_ERRNO .. Z_VERSION_ERROR        (Z_OK = 0, Z_STREAM_END = 1)
ZERR_INFLATE = fin(2, -1, -2, -3, -4, -5, -6)   # + Z_NEED_DICT
BZERR = fin(-1, -2, -3, -4, -5, -6, -7, -8, -9)  # BZ_SEQUENCE_ERROR .. BZ_CONFIG_ERROR (BZ_OK = 0, BZ_STREAM_END = 4)


class Conv:
    """channels: list of ('ret', FS) | ('out', arg index, FS).  All channels signal the failure simultaneously."""

    def __init__(self, name, channels, note=''):
        self.name = name
        self.channels = channels
        self.note = note

    def describe(self):
        out = []
        for ch in self.channels:
            if ch[0] == 'ret':
                out.append('result in %r' % ch[1])
            else:
                out.append('*arg%d in %r' % (ch[1], ch[2]))
        return ' / '.join(out)


def _ret(fs):
    return [('ret', fs)]


CONVENTIONS = {}


def _add(names, channels, note=''):
    for n in names.split():
        CONVENTIONS[n] = Conv(n, channels, note)


# POSIX, failure = -1 (errno)
_add('write pwrite read pread fsync fdatasync close dup dup2 dup3 open open64 openat creat pipe pipe2 fork waitpid '
     'fstat fstat64 stat stat64 lstat ftruncate ftruncate64 truncate lseek lseek64 munmap msync fstatvfs statvfs '
     'unlink rename execlp execvp sysconf', _ret(MINUS1), 'POSIX: -1 and errno')
_add('mmap mmap64 mremap', _ret(MINUS1), 'MAP_FAILED == (void*)-1')
# stdio
_add('fdopen fopen fopen64 freopen tmpfile', _ret(NULL), 'null FILE*')
_add('fclose fflush', _ret(MINUS1), 'EOF')
# zlib gz layer
_add('gzdopen gzopen gzopen64', _ret(NULL), 'null gzFile')
_add('gzwrite', _ret(ZERO), '0 on error')
_add('gzread', _ret(MINUS1), '-1 on error')
_add('gzclose gzclose_r gzclose_w gzflush gzbuffer', _ret(ZERR), '!= Z_OK')
# zlib streams
_add('inflateInit_ inflateInit2_ deflateInit_ deflateInit2_ inflateReset deflateReset compress compress2 uncompress '
     'uncompress2 deflate', _ret(ZERR), 'negative zlib code')
_add('inflate', _ret(ZERR_INFLATE), 'not in {Z_OK, Z_STREAM_END}')
# lz4
_add('LZ4_compress_fast LZ4_compress_default LZ4_compress_HC', _ret(ZERO), '0 on failure')
_add('LZ4_decompress_safe', _ret(lt(0)), 'negative on malformed input (size agreement is a separate rule)')
# bzip2
_add('BZ2_bzWriteOpen BZ2_bzReadOpen', [('ret', NULL), ('out', 0, BZERR)], 'null handle and *bzerror')
_add('BZ2_bzWrite BZ2_bzWriteClose BZ2_bzWriteClose64 BZ2_bzRead BZ2_bzReadGetUnused BZ2_bzReadClose',
     [('out', 0, BZERR)], '*bzerror negative')
_add('BZ2_bzDecompressInit BZ2_bzDecompress BZ2_bzCompressInit BZ2_bzCompress BZ2_bzBuffToBuffCompress '
     'BZ2_bzBuffToBuffDecompress', _ret(BZERR), 'negative bz code')
# expat
_add('XML_ParserCreate XML_ParserCreateNS', _ret(NULL), 'null parser')
_add('XML_Parse XML_ParseBuffer', _ret(ZERO), 'XML_STATUS_ERROR == 0')

# conventions that need more than a result test (end pointer + range): left to their own engine (C13 ACCUM/GUARD)
SPECIAL = {n: 'end pointer + sentinel/range (C13)' for n in
           'strtol strtoll strtoul strtoull strtod strtof strtold strtoimax strtoumax'.split()}

# may be ignored, one reason each
IGNORABLE = {
    'posix_fadvise': 'advisory', 'posix_madvise': 'advisory', 'madvise': 'advisory',
    'inflateEnd': 'release only', 'deflateEnd': 'release only', 'BZ2_bzDecompressEnd': 'release only',
    'BZ2_bzCompressEnd': 'release only', 'XML_ParserFree': 'release only',
    'ftell': 'informational offset', 'ftello': 'informational offset', 'fileno': 'informational (valid FILE*)',
    'gzoffset': 'informational offset', 'gzoffset64': 'informational offset', 'gztell': 'informational offset',
    'feof': 'predicate', 'ferror': 'predicate', 'isatty': 'predicate',
    'gzerror': 'error text', 'BZ2_bzerror': 'error text', 'zError': 'error text', 'strerror': 'error text',
    'XML_ErrorString': 'error text', 'XML_GetErrorCode': 'error text', 'XML_GetCurrentLineNumber': 'error text',
    'XML_GetCurrentColumnNumber': 'error text',
    'XML_StopParser': 'only called from inside a handler; the stop is observed through XML_Parse',
    'XML_SetUserData': 'setter', 'XML_SetElementHandler': 'setter', 'XML_SetCharacterDataHandler': 'setter',
    'XML_SetEntityDeclHandler': 'setter',
    'prctl': 'thread name for debugging only', 'pthread_setname_np': 'thread name for debugging only',
    'getenv': 'null means unset, not an error',
}

# no failure convention at all (pure / total functions, size bounds)
NO_ERROR = set('''memcpy memmove memset memcmp memchr strlen strnlen strcmp strncmp strcasecmp strncasecmp strchr strrchr
    strstr strcpy strncpy isdigit isspace isalpha isalnum isxdigit isprint tolower toupper round lround llround floor ceil
    fabs sqrt pow log exp sin cos tan atan atan2 sinh fmod abs labs llabs snprintf vsnprintf sprintf gmtime_r timegm time
    crc32 adler32 compressBound deflateBound LZ4_compressBound LZ4_versionNumber zlibVersion BZ2_bzlibVersion
    __errno_location exit _exit _Exit abort __assert_fail getpid getpagesize htonl ntohl htons ntohs'''.split())


def is_extern_c(n):
    """call node whose callee is an extern "C" function (USR without a C++ signature)."""
    u = n.get('u', '')
    return n.get('k') == 'call' and u.startswith('c:@F@') and '#' not in u


def classify(name):
    """-> ('check', Conv) | ('special', reason) | ('ignore', reason) | ('pure', None) | ('unknown', None)"""
    if name in CONVENTIONS:
        return 'check', CONVENTIONS[name]
    if name in SPECIAL:
        return 'special', SPECIAL[name]
    if name in IGNORABLE:
        return 'ignore', IGNORABLE[name]
    if name in NO_ERROR or name.startswith('__builtin_'):
        return 'pure', None
    return 'unknown', None


# ------------------------------------------------------------------------------------------------ expression helpers

_SIGNED = ('int', 'long', 'long long', 'short', 'signed char', 'ssize_t', 'int64_t', 'int32_t', 'ptrdiff_t', 'off_t')


def _value_preserving_cast(n):
    """explicit cast that keeps a (possibly negative) integer or a pointer value intact."""
    to = n.get('toC', n.get('to', ''))
    to = to.replace('const ', '').strip()
    return to in _SIGNED or to.endswith('*')


def carrier_of(fn, nid):
    """Storage an expression denotes: ('var', decl) for a local/parameter, ('field', qname) for a this-member."""
    n = fn.sn(nid)
    if n is None:
        return None
    if n.get('k') == 'var' and n.get('vk') in ('local', 'param'):
        return ('var', n['d'])
    if n.get('k') == 'member' and n.get('field') and fn.is_this_member(n['id']):
        return ('field', n['q'])
    return None


def value_of(fn, nid, env):
    """Failure set held by the value of expression nid under env, or None."""
    hops = 0
    while nid is not None and nid in fn.nodes and hops < 50:
        hops += 1
        n = fn.nodes[nid]
        k = n.get('k')
        if ('node', nid) in env:
            return env[('node', nid)]
        if k in ('wrap', 'icast') and 'sub' in n:
            if k == 'icast' and n.get('ck') in ('IntegralToBoolean', 'PointerToBoolean'):
                return None
            nid = n['sub']
            continue
        if k == 'cast' and 'sub' in n and _value_preserving_cast(n):
            nid = n['sub']
            continue
        if k == 'construct' and n.get('elidable') and len(n.get('args', [])) == 1:
            nid = n['args'][0]
            continue
        c = carrier_of(fn, nid)
        if c is not None:
            return env.get(c)
        return None
    return None


def const_of(fn, nid):
    """Integer constant denoted by an expression (nullptr = 0, (void*)-1 = -1), or None."""
    v = fn.const_value(nid)
    if v is not None:
        return v
    n = fn.sn(nid)
    if n is None:
        return None
    if n.get('k') == 'lit' and n.get('null'):
        return 0
    if n.get('k') == 'cast' and 'sub' in n:
        return const_of(fn, n['sub'])
    if n.get('k') == 'unop' and n.get('op') == '-':
        v = const_of(fn, n['sub'])
        return -v if v is not None else None
    return None


def _and3(a, b):
    if a is False or b is False:
        return False
    if a is True and b is True:
        return True
    return None


def _or3(a, b):
    if a is True or b is True:
        return True
    if a is False and b is False:
        return False
    return None


def eval3(fn, nid, env, depth=0):
    """Three-valued truth of a condition under env (carrier -> failure set)."""
    if nid is None or depth > 30:
        return None
    fs = value_of(fn, nid, env)
    if fs is not None:
        return fs.truthy()
    n = fn.nodes.get(nid)
    if n is None:
        return None
    k = n.get('k')
    if k in ('wrap', 'icast') and 'sub' in n:
        return eval3(fn, n['sub'], env, depth + 1)
    if k == 'unop' and n.get('op') == '!':
        v = eval3(fn, n['sub'], env, depth + 1)
        return None if v is None else (not v)
    if k == 'binop':
        op = n['op']
        if op == '&&':
            return _and3(eval3(fn, n['lhs'], env, depth + 1), eval3(fn, n['rhs'], env, depth + 1))
        if op == '||':
            return _or3(eval3(fn, n['lhs'], env, depth + 1), eval3(fn, n['rhs'], env, depth + 1))
        if op in _CMP:
            l, r = value_of(fn, n['lhs'], env), value_of(fn, n['rhs'], env)
            if l is not None and r is None:
                c = const_of(fn, n['rhs'])
                return l.cmp(op, c) if c is not None else None
            if r is not None and l is None:
                c = const_of(fn, n['lhs'])
                return r.cmp(_FLIP[op], c) if c is not None else None
            return None
    if k == 'call' and n.get('op') in _CMP and len(n.get('args', [])) == 2:
        return None
    if k == 'lit' and 'cv' in n and not n.get('float'):
        v = fn.const_value(nid)
        return None if v is None else bool(v)
    return None


def effective_cond(fn, blk):
    """The part of a block's terminator condition that is decided *in this block*: for `a && b` / `a || b` whose
    left operand was evaluated in a predecessor block (short-circuit CFG), that is `b`."""
    c = blk.get('cond')
    elems = set(blk['elems'])
    hops = 0
    while c is not None and hops < 20:
        hops += 1
        n = fn.sn(c)
        if n is not None and n.get('k') == 'binop' and n.get('op') in ('&&', '||'):
            if fn.strip(n['lhs']) not in elems and n['lhs'] not in elems:
                c = n['rhs']
                continue
        break
    return c


def handler_blocks(fn, nid):
    """Catch-handler entry blocks of the innermost try (of this function) around node nid: [(handler, block id)]."""
    tries = fn.enclosing_tries(nid)
    if not tries:
        return []
    t = max(tries, key=lambda t: t['b'])
    out = []
    for h in t['handlers']:
        for b in fn.blocks.values():
            lab = b.get('label') or {}
            if lab.get('catch') and lab.get('o') == h['b']:
                out.append((h, b['id']))
    return out


def handler_catches(h, thrown):
    """Could handler h catch a thrown node (None = unknown type)?"""
    if h.get('all') or thrown is None:
        return True
    tq = h.get('typeq') or h.get('type')
    if thrown.get('rethrow') or 'tt' not in thrown:
        return True
    return tq == thrown['tt'] or tq in thrown.get('bases', [])


def _expand(fn, cond, sense, d, out):
    out.append((cond, sense, d))
    n = fn.sn(cond)
    if n is None:
        return
    if n.get('k') == 'binop' and ((n['op'] == '&&' and sense) or (n['op'] == '||' and not sense)):
        _expand(fn, n['lhs'], sense, d, out)
        _expand(fn, n['rhs'], sense, d, out)
    elif n.get('k') == 'unop' and n['op'] == '!':
        _expand(fn, n['sub'], not sense, d, out)


def atom_guards(fn, nid):
    """guards(fn, nid) restricted to atomic conditions (the `!`, `&&`, `||` nodes themselves are dropped; their operands
    are reported with the sense they must have had)."""
    out = []
    for (c, sense, b) in guards(fn, nid):
        n = fn.sn(c)
        if n is not None and ((n.get('k') == 'unop' and n.get('op') == '!') or (n.get('k') == 'binop' and n.get('op') in ('&&', '||'))):
            continue
        out.append((c, sense, b))
    return out


def false_edge_of(fn, blk, is_atom):
    """Index of the successor of a two-way block taken when the atom tested by it is FALSE (leading `!` are folded), or None
    when the block's (effective) condition is not `atom` / `!atom`."""
    c = effective_cond(fn, blk)
    idx = 1
    n = fn.sn(c)
    while n is not None and n.get('k') == 'unop' and n.get('op') == '!':
        idx = 1 - idx
        c = n['sub']
        n = fn.sn(c)
    return idx if c is not None and is_atom(c) else None


def guards(fn, nid):
    """[(cond id, sense, block)]: conditions that must have evaluated to `sense` for element nid to execute.
    An edge d->s is a guard when it dominates nid's block: s dominates the block and every other predecessor of s is
    itself dominated by s (loop back edges).  (flow.guards_of also reports the fall-through edge into a join block.)"""
    pos = fn.positions()
    if nid not in pos:
        return []
    b0 = pos[nid][0]
    dom = fn.dominators()
    preds = fn.preds()
    out = []
    for d in dom.get(b0, ()):
        blk = fn.blocks[d]
        if 'cond' not in blk or len(blk['succs']) != 2 or blk.get('termcls') == 'SwitchStmt':
            continue
        t, f = blk['succs']
        if t is None or f is None or t == f:
            continue
        for s, sense in ((t, True), (f, False)):
            if not (s == b0 or s in dom.get(b0, ())):
                continue
            if all(p == d or s in dom.get(p, ()) for p in preds.get(s, [])):
                _expand(fn, effective_cond(fn, blk), sense, d, out)
    return out


def local_fact(fn, cond):
    """(canonical text, polarity, decl ids) of a condition built only from locals / parameters / constants and operators
    (its value cannot change unless one of those variables is assigned), else None.  Leading `!` are folded into polarity."""
    pol = True
    c = cond
    n = fn.sn(c)
    while n is not None and n.get('k') == 'unop' and n.get('op') == '!':
        pol = not pol
        c = n['sub']
        n = fn.sn(c)
    if n is None:
        return None
    decls = set()
    for x in fn.subtree(fn.strip(c)):
        m = fn.nodes[x]
        k = m.get('k')
        if k == 'var':
            if m.get('vk') in ('local', 'param'):
                decls.add(m['d'])
            elif m.get('vk') not in ('enumconst',):
                return None
        elif k in ('binop', 'lit', 'wrap', 'icast', 'cast', 'sizeof'):
            continue
        elif k == 'unop' and m.get('op') in ('!', '-', '+', '~'):
            continue
        else:
            return None
    if not decls:
        return None
    return fn.expr(c), pol, frozenset(decls)


def modified_vars(fn, n):
    """decl ids of locals (re)assigned by executing element n (assignment, declaration, ++/--, address passed to a call)."""
    k = n.get('k')
    out = set()
    if k == 'assign':
        c = carrier_of(fn, n['lhs'])
        if c and c[0] == 'var':
            out.add(c[1])
    elif k == 'decl':
        out |= {v['d'] for v in n['vars']}
    elif k == 'unop' and n.get('op') in ('++', '--'):
        c = carrier_of(fn, n['sub'])
        if c and c[0] == 'var':
            out.add(c[1])
    elif k in ('call', 'construct'):
        st = store_of(fn, n)
        if st is not None:
            c = carrier_of(fn, st[0])
            if c and c[0] == 'var':
                out.add(c[1])
        for a in n.get('args', []) or []:
            an = fn.sn(a) if a is not None else None
            if an is not None and an.get('k') == 'unop' and an.get('op') == '&':
                c = carrier_of(fn, an['sub'])
                if c and c[0] == 'var':
                    out.add(c[1])
    return out


def guard_facts(fn, nid):
    """Branch facts known to hold when element nid executes: guards of nid over locals only, none of whose variables can be
    modified between the guard's evaluation and nid."""
    from .flow import path_search
    facts = {}
    mods = {}
    for n in fn.all_nodes():
        for d in modified_vars(fn, n):
            mods.setdefault(d, []).append(n['id'])
    for (c, sense, b) in guards(fn, nid):
        lf = local_fact(fn, c)
        if lf is None:
            continue
        text, pol, decls = lf
        blk = fn.blocks[b]
        ok = True
        for d in decls:
            for m in mods.get(d, []):
                if fn.nodes[m].get('k') == 'decl' and not any(isinstance(v.get('init'), int) for v in fn.nodes[m]['vars'] if v['d'] == d):
                    continue
                for s in blk['succs']:
                    if s is not None and path_search(fn, s, lambda e: e == m, lambda e: e == nid, from_block_start=True) is not None:
                        ok = False
        if ok:
            facts[text] = (sense == pol, decls)
    return facts


# ------------------------------------------------------------------------------------------------ the walk

class Outcome:
    def __init__(self):
        self.exits = []        # witness paths (lists of element ids / ('B', bid)) that reach a normal exit
        self.reached = set()   # element ids executed under the failure assumption
        self.retry = False     # some path re-enters the call
        self.throws = set()    # throw / noreturn-call node ids that end a path
        self.returned = []     # (return node id, FS): the failed value itself is returned to the caller
        self.swallowed = []    # handlers of this function entered by a throw on a failure path
        self.stopped = {}      # stop_at element id -> [(env, facts)] with which a path arrived there
        self.truncated = False

    @property
    def ok(self):
        return not self.exits and not self.returned and not self.truncated


def _freeze(env, facts=None):
    if facts:
        return (frozenset(env.items()), frozenset((k, v[0]) for k, v in facts.items()))
    return frozenset(env.items())


def store_of(fn, n):
    """(target expression id, stored value expression id) when node n stores into a variable / member:
    plain assignment `x = v`, or std::exchange(x, v) (reads the old value, stores v).  Else None."""
    if n.get('k') == 'assign' and n.get('op') == '=':
        return n['lhs'], n['rhs']
    if n.get('k') == 'call' and n.get('q') == 'std::exchange' and len(n.get('args', []) or []) == 2 and None not in n['args']:
        return n['args'][0], n['args'][1]
    return None


def stored_value(fn, nid, env):
    """Failure set a store of expression nid puts into its target: the carried value itself, or -- for a boolean computed
    from a carrier (`const bool failed = n <= 0;`) -- the definite truth value {1} / {0}."""
    fs = value_of(fn, nid, env)
    if fs is not None or not env:
        return fs
    n = fn.sn(nid)
    if n is not None and n.get('t', '').replace('const ', '') == 'bool':
        c = const_of(fn, nid)
        if c is not None:       # `result = true;` on a path taken under the assumption: the flag holds exactly that value
            return fin(1 if c else 0)
    if n is not None and n.get('t', '').replace('const ', '') == 'bool' and n.get('k') in ('binop', 'unop'):
        v = eval3(fn, nid, env)
        if v is not None:
            return fin(1 if v else 0)
    return None


def _transfer(fn, n, env, fb, depth, memo):
    """Effect of executing element n on env.  Returns (new env, terminal) with terminal in
    (None, 'throw', 'noret', 'always-throws')."""
    k = n.get('k')
    if k == 'throw':
        return env, 'throw'
    if k == 'call' and n.get('q') == 'std::exchange' and store_of(fn, n) is not None:
        tgt, val = store_of(fn, n)
        c = carrier_of(fn, tgt)
        if c is not None:
            new = dict(env)
            old = env.get(c)
            fs = stored_value(fn, val, env)
            if old is not None:
                new[('node', n['id'])] = old      # the call yields the previous value
            else:
                new.pop(('node', n['id']), None)
            if fs is not None:
                new[c] = fs
            else:
                new.pop(c, None)
            return new, None
    if k in ('call', 'construct'):
        if n.get('noret'):
            return env, 'noret'
        # address of a carrier handed to another call: the callee may overwrite it
        killed = None
        for a in n.get('args', []) or []:
            if a is None:
                continue
            an = fn.sn(a)
            if an is not None and an.get('k') == 'unop' and an.get('op') == '&':
                c = carrier_of(fn, an['sub'])
                if c is not None and c in env:
                    killed = killed or dict(env)
                    killed.pop(c, None)
        # internal helper that receives the failed value: does it always throw?
        if fb is not None and depth < 3 and 'u' in n and not is_extern_c(n):
            passed = [(i, value_of(fn, a, env)) for i, a in enumerate(n.get('args', []) or []) if a is not None]
            passed = [(i, fs) for (i, fs) in passed if fs is not None]
            if passed:
                for g in fb.by_usr.get(n['u'], []):
                    if not g.has_cfg or g.entry is None:
                        continue
                    genv = {}
                    for (i, fs) in passed:
                        if i < len(g.params):
                            genv[('var', g.params[i]['d'])] = fs
                    if not genv:
                        continue
                    key = (g.usr, g.full, _freeze(genv))
                    if key not in memo:
                        memo[key] = None  # recursion guard
                        o = explore(g, (g.entry, 0), genv, fb=fb, depth=depth + 1, memo=memo)
                        memo[key] = o.ok and bool(o.throws)
                    if memo[key]:
                        return env, 'always-throws'
                    break
        if killed is not None:
            return killed, None
        return env, None
    if k == 'assign':
        c = carrier_of(fn, n['lhs'])
        if c is None:
            return env, None
        new = dict(env)
        if n.get('op') == '=':
            fs = stored_value(fn, n['rhs'], env)
            if fs is not None:
                new[c] = fs
            else:
                new.pop(c, None)
        else:
            new.pop(c, None)
        return new, None
    if k == 'decl':
        new = None
        for v in n['vars']:
            c = ('var', v['d'])
            fs = stored_value(fn, v['init'], env) if isinstance(v.get('init'), int) else None
            if fs is not None:
                new = new or dict(env)
                new[c] = fs
            elif c in env:
                new = new or dict(env)
                new.pop(c, None)
        return (new if new is not None else env), None
    if k == 'init' and n.get('q') and isinstance(n.get('init'), int):
        fs = value_of(fn, n['init'], env)
        c = ('field', n['q'])
        if fs is not None:
            new = dict(env)
            new[c] = fs
            return new, None
        if c in env:
            new = dict(env)
            new.pop(c)
            return new, None
        return env, None
    if k == 'unop' and n.get('op') in ('++', '--'):
        c = carrier_of(fn, n['sub'])
        if c is not None and c in env:
            new = dict(env)
            new.pop(c)
            return new, None
    return env, None


def explore(fn, start, env, site=None, fb=None, depth=0, memo=None, limit=20000, facts=None, stop_at=()):
    """Walk fn's CFG from position start = (block id, element index) under env.  `site` is the id of the call
    being examined (reaching it again = retry).  `facts` = {condition text: (value, decl ids)} branch facts over locals
    known at the start; a branch on a condition with the same text is decided by the fact until one of its variables is
    assigned, and every undecided branch taken adds its own fact (same-condition path sensitivity, nothing more).
    Paths end silently at elements in stop_at."""
    memo = {} if memo is None else memo
    out = Outcome()
    seen = set()
    sites = set() if site is None else (set(site) if isinstance(site, (set, frozenset, list, tuple)) else {site})
    dq = deque([(start[0], start[1], dict(env), (), dict(facts or {}))])
    steps = 0
    while dq:
        b, i, env, path, facts = dq.popleft()
        steps += 1
        if steps > limit:
            out.truncated = True
            break
        blk = fn.blocks[b]
        elems = blk['elems']
        stop = False
        for e in elems[i:]:
            n = fn.nodes[e]
            if e in sites:
                out.retry = True
                stop = True
                break
            if e in stop_at:
                out.stopped.setdefault(e, []).append((dict(env), dict(facts)))
                stop = True
                break
            out.reached.add(e)
            if facts:
                mv = modified_vars(fn, n)
                if mv and any(mv & v[1] for v in facts.values()):
                    facts = {k: v for k, v in facts.items() if not (mv & v[1])}
            if n.get('k') == 'return' and 'sub' in n:
                fs = value_of(fn, n['sub'], env)
                if fs is not None:
                    out.returned.append((e, fs))
                    stop = True
                    break
            env, term = _transfer(fn, n, env, fb, depth, memo)
            if term is not None:
                hs = handler_blocks(fn, e) if term in ('throw', 'noret', 'always-throws') else []
                thrown = n if term == 'throw' else None
                entered = False
                for (h, hb) in hs:
                    if handler_catches(h, thrown):
                        entered = True
                        out.swallowed.append((e, h.get('l')))
                        key = (hb, _freeze(env, facts))
                        if key not in seen:
                            seen.add(key)
                            dq.append((hb, 0, dict(env), path + (e, ('B', hb)), dict(facts)))
                        if h.get('all'):
                            break
                if not entered or not any(h.get('all') for (h, _hb) in hs):
                    out.throws.add(e)   # (also) leaves the function
                stop = True
                break
        if stop:
            continue
        if b == fn.exit:
            out.exits.append(list(path) + [('exit', b)])
            continue
        succs = blk['succs']
        allowed = list(range(len(succs)))
        lf = None
        if 'cond' in blk and len(succs) == 2 and blk.get('termcls') != 'SwitchStmt':
            ec = effective_cond(fn, blk)
            v = eval3(fn, ec, env)
            if v is None:
                lf = local_fact(fn, ec)
                if lf is not None and lf[0] in facts:
                    v = facts[lf[0]][0] == lf[1]
                    lf = None
            if v is True:
                allowed = [0]
            elif v is False:
                allowed = [1]
        last = elems[-1] if elems else None
        for idx in allowed:
            s = succs[idx]
            if s is None:
                continue
            nf = facts
            if lf is not None and len(allowed) == 2:
                nf = dict(facts)
                nf[lf[0]] = ((idx == 0) == lf[1], lf[2])
            key = (s, _freeze(env, nf))
            if key in seen:
                continue
            seen.add(key)
            step = path + ((last,) if last is not None and isinstance(blk.get('cond'), int) else ()) + (('B', s),)
            dq.append((s, 0, dict(env), step, dict(nf)))
    return out


def seed_env(fn, call, conv):
    """Carriers that hold the failure right after the call.  Returns (env, problems)."""
    env = {}
    problems = []
    for ch in conv.channels:
        if ch[0] == 'ret':
            env[('node', call['id'])] = ch[1]
        else:
            _k, idx, fs = ch
            args = call.get('args', [])
            if idx >= len(args) or args[idx] is None:
                problems.append('out-parameter %d missing' % idx)
                continue
            an = fn.sn(args[idx])
            c = None
            if an is not None and an.get('k') == 'unop' and an.get('op') == '&':
                c = carrier_of(fn, an['sub'])
            if c is None:
                problems.append('out-parameter %d is not the address of a local or this-member' % idx)
                continue
            env[c] = fs
    return env, problems


def fail_outcome(fb, fn, call, conv):
    """Outcome of assuming that `call` (a node of fn) failed per conv; None + problems if the site has an unknown shape."""
    env, problems = seed_env(fn, call, conv)
    if not env:
        return None, problems or ['no failure channel could be seeded']
    pos = fn.positions()
    if call['id'] not in pos:
        return None, ['call is not a CFG element']
    b, i = pos[call['id']]
    # the element list holds the call itself at index i (setAllAlwaysAdd); make sure of it
    elems = fn.blocks[b]['elems']
    if i >= len(elems) or elems[i] != call['id']:
        return None, ['call is not a CFG element of its block']
    return explore(fn, (b, i + 1), env, site=call['id'], fb=fb, facts=guard_facts(fn, call['id'])), problems


def outcome_assuming(fb, fn, call, fs, stop_at=()):
    """Outcome of assuming that the value of `call` lies in fs (e.g. the success set), paths ending at stop_at."""
    pos = fn.positions()
    b, i = pos[call['id']]
    return explore(fn, (b, i + 1), {('node', call['id']): fs}, site=call['id'], fb=fb, facts=guard_facts(fn, call['id']), stop_at=set(stop_at))


def explicit_discard(fn, call):
    """(void)f(...) -- the parent of the call is a cast to void."""
    pm = fn.parent_map()
    x = call['id']
    hops = 0
    while x in pm and hops < 6:
        x = pm[x]
        hops += 1
        n = fn.nodes[x]
        if n.get('k') == 'cast' and (n.get('ck') == 'ToVoid' or n.get('toC') == 'void'):
            return True
        if n.get('k') not in ('wrap', 'icast'):
            return False
    return False


def result_is_used(fn, call):
    """The call's value flows somewhere (parent is not a bare expression statement / void cast)."""
    pm = fn.parent_map()
    x = call['id']
    while x in pm:
        p = fn.nodes[pm[x]]
        if p.get('k') in ('wrap', 'icast'):
            x = pm[x]
            continue
        return not (p.get('k') == 'cast' and (p.get('ck') == 'ToVoid' or p.get('toC') == 'void'))
    return False


def describe(fn, path, maxlen=14):
    out = []
    for p in path or []:
        if isinstance(p, tuple):
            out.append('%s%s' % (p[0], p[1]))
        elif p in fn.nodes:
            out.append('%s@%s' % (fn.expr(p)[:50], fn.nodes[p].get('l')))
    if len(out) > maxlen:
        out = out[:6] + ['...'] + out[-6:]
    return ' -> '.join(out)


# ------------------------------------------------------------------------------------------------ site enumeration / driver

def sites(fb, fns, want=None):
    """Yield (fn, call node, class, payload) for every extern "C" call in the given function bodies.
    want(name) may restrict the callee names."""
    for fn in fns:
        if not fn.has_cfg:
            continue
        for n in fn.all_nodes():
            if not is_extern_c(n):
                continue
            name = n['q']
            if want is not None and not want(name):
                continue
            cls, payload = classify(name)
            yield fn, n, cls, payload


def closure_fns(fb, roots, depth=12):
    """Function bodies transitively reachable from roots over resolved callees (virtual calls: all known overriders;
    lambdas defined inside are included)."""
    seen = {}
    work = [(f, 0) for f in roots]
    while work:
        f, d = work.pop()
        if id(f) in seen:
            continue
        seen[id(f)] = f
        if d >= depth or not f.has_cfg:
            continue
        for c in f.calls():
            for g in fb.by_usr.get(c.get('u'), []):
                work.append((g, d + 1))
            if c.get('virt'):
                for g in fb.overriders(c.get('u')):
                    work.append((g, d + 1))
        for g in fb.lambdas_in(f):
            work.append((g, d + 1))
    return list(seen.values())


def callers_of(fb, fn):
    """[(function body, call node)] of every resolved call to fn in the fact base (one per source site)."""
    out = []
    seen = set()
    for g in fb.functions:
        if not g.has_cfg:
            continue
        for n in g.all_nodes():
            if n.get('k') == 'call' and n.get('u') == fn.usr:
                k = (g.pat, n.get('o'))
                if k not in seen:
                    seen.add(k)
                    out.append((g, n))
    return out


def check_site(fb, fn, call, conv, depth=0):
    """-> (verdict, message, Outcome) with verdict in 'ok' | 'dropped' | 'returned' | 'unknown'.
    A function that hands the failure value back unchanged (thin wrapper around the C call) is treated as carrying the
    same convention: every one of its call sites is then checked in turn ("a value that every caller tests")."""
    o, problems = fail_outcome(fb, fn, call, conv)
    if o is None:
        return 'unknown', '; '.join(problems), None
    if o.truncated:
        return 'unknown', 'path exploration truncated', o
    if o.exits:
        w = o.exits[0]
        return 'dropped', ('if %s fails (%s) the function can still return normally: %s'
                           % (conv.name, conv.describe(), describe(fn, w))), o
    if o.returned:
        sets = {fs for (_n, fs) in o.returned}
        callers = callers_of(fb, fn) if depth < 2 and len(sets) == 1 else []
        if not callers:
            return 'returned', 'the failure value of %s is returned to the caller untested' % conv.name, o
        wrapped = Conv('%s (via %s)' % (conv.name, fn.name), [('ret', next(iter(sets)))])
        for (g, c) in callers:
            v, msg, _o = check_site(fb, g, c, wrapped, depth + 1)
            if v != 'ok':
                return v, 'in caller %s: %s' % (g.q, msg), o
        return 'ok', 'the failure value is returned and every caller of %s tests it' % fn.q, o
    if not o.throws and not o.retry:
        return 'unknown', 'no path from the call reaches a throw or an exit', o
    return 'ok', 'every failure path ends in %s' % ('a throw' + (' or retries the call' if o.retry else '')), o


def run_sites(R, fb, fns, rule, dtor_rule=None, want=None, io_layer=lambda fn: True, skip_special=True):
    """Generic driver: applies the discipline to every convention-table call in fns.
    * ordinary functions: `rule` -- failure may not reach a normal exit;
    * destructors / noexcept functions: `dtor_rule` -- the result is explicitly discarded with (void), or tested so
      that the ordinary rule holds (they cannot throw);
    * unknown extern "C" callees inside io_layer(fn) functions are analysis-broken (extend the table).
    Returns the list of (fn, call, conv, Outcome) examined."""
    done = []
    seen = set()
    for fn, call, cls, payload in sites(fb, fns, want):
        k = (fn.pat, call.get('o'), call['q'])
        if k in seen:
            continue
        seen.add(k)
        name = call['q']
        if cls == 'unknown':
            if io_layer(fn):
                R.broken('ERRDISC: extern "C" function %s called in %s (%s) has no entry in the convention table'
                         % (name, fn.q, fn.loc(call['id'])))
            continue
        if cls in ('pure', 'ignore') or (cls == 'special' and skip_special):
            continue
        if cls == 'special':
            continue
        conv = payload
        key = '%s#%s' % (fn.q, name)
        site = fn.loc(call['id'])
        if fn.kind == 'dtor' or fn.noexcept:
            if dtor_rule is None:
                continue
            if explicit_discard(fn, call):
                R.ok(dtor_rule, key, site, 'explicit (void) discard in a function that cannot throw')
                continue
            verdict, msg, o = check_site(fb, fn, call, conv)
            if verdict == 'ok':     # e.g. a noexcept thin wrapper that hands the result to callers which all test it
                R.ok(rule, key, site, msg)
            else:
                R.bad(dtor_rule, key, site,
                      '%s in %s (cannot throw): result neither discarded with an explicit (void) nor handled: %s' % (name, fn.q, msg))
            done.append((fn, call, conv, o))
            continue
        verdict, msg, o = check_site(fb, fn, call, conv)
        if verdict == 'unknown':
            R.broken('ERRDISC: %s in %s (%s): %s' % (name, fn.q, site, msg))
            continue
        R.check(verdict == 'ok', rule, key, site, msg, msg if verdict == 'ok' else None)
        done.append((fn, call, conv, o))
    return done
