"""Check runner: extraction + cache, reporter, known findings, evidence, exit codes."""
import fcntl
import hashlib
import importlib
import json
import os
import re
import shlex
import shutil
import subprocess
import sys
import time
from concurrent.futures import ThreadPoolExecutor

from .facts import FactBase

VERIF = os.path.dirname(os.path.dirname(os.path.abspath(__file__)))
TOOL_SRC = os.path.join(VERIF, 'tools', 'osmfacts.cpp')
TOOL_BIN = os.path.join(VERIF, 'bin', 'osmfacts')
CACHE = os.environ.get('VERIF_CACHE', os.path.join(VERIF, '.cache'))
EVIDENCE_DIR = os.environ.get('VERIF_EVIDENCE_DIR', os.path.join(VERIF, 'evidence'))
RESOURCE_DIR = '/usr/lib/llvm-14/lib/clang/14.0.6'
DEFAULT_DEFS = ['-DOSMIUM_WITH_LZ4', '-D_FILE_OFFSET_BITS=64', '-D_LARGEFILE_SOURCE']

CONFIGS = {
    # name: (std, extra flags)
    'ndebug14': ('-std=c++14', ['-DNDEBUG']),
    'debug14': ('-std=c++14', ['-UNDEBUG']),
    'ndebug17': ('-std=c++17', ['-DNDEBUG']),
    'debug17': ('-std=c++17', ['-UNDEBUG']),
}


class AnalysisBroken(Exception):
    pass


def build_tool():
    """(Re)build bin/osmfacts when missing or older than its source."""
    if os.path.exists(TOOL_BIN) and os.path.getmtime(TOOL_BIN) >= os.path.getmtime(TOOL_SRC):
        return
    os.makedirs(os.path.dirname(TOOL_BIN), exist_ok=True)
    lock = open(TOOL_BIN + '.lock', 'w')
    fcntl.flock(lock, fcntl.LOCK_EX)
    try:
        if os.path.exists(TOOL_BIN) and os.path.getmtime(TOOL_BIN) >= os.path.getmtime(TOOL_SRC):
            return
        cxxflags = subprocess.check_output(['llvm-config-14', '--cxxflags'], text=True).split()
        cxxflags = [f for f in cxxflags if not f.startswith('-std=')]
        cmd = ['clang++'] + cxxflags + ['-std=c++17', '-O1', '-fno-rtti', '-w', TOOL_SRC, '-o', TOOL_BIN + '.tmp',
                                        '/usr/lib/llvm-14/lib/libclang-cpp.so.14', '/usr/lib/llvm-14/lib/libLLVM-14.so']
        r = subprocess.run(cmd, stdout=subprocess.PIPE, stderr=subprocess.STDOUT, text=True)
        if r.returncode != 0:
            raise AnalysisBroken('cannot build osmfacts: ' + r.stdout[-2000:])
        os.replace(TOOL_BIN + '.tmp', TOOL_BIN)
    finally:
        fcntl.flock(lock, fcntl.LOCK_UN)
        lock.close()


def repo_defs(repo):
    """-D flags of the repository's own build (compile_commands.json) or the recorded defaults."""
    db = os.path.join(repo, '_build', 'compile_commands.json')
    try:
        with open(db) as f:
            entries = json.load(f)
        for e in entries:
            if '/test/' in e['file']:
                toks = shlex.split(e['command'])
                defs = [t for t in toks if t.startswith('-D') and t != '-DNDEBUG']
                if defs:
                    return sorted(set(defs))
    except (OSError, ValueError, KeyError):
        pass
    return list(DEFAULT_DEFS)


def tree_hash(repo, extra_files=()):
    h = hashlib.sha256()
    inc = os.path.join(repo, 'include')
    paths = []
    for root, _dirs, files in os.walk(inc):
        for fn in files:
            paths.append(os.path.join(root, fn))
    for p in sorted(paths):
        h.update(os.path.relpath(p, inc).encode())
        with open(p, 'rb') as f:
            h.update(hashlib.sha256(f.read()).digest())
    for p in extra_files:
        with open(p, 'rb') as f:
            h.update(hashlib.sha256(f.read()).digest())
    return h.hexdigest()


def _prune_cache(keep):
    try:
        ents = [os.path.join(CACHE, d) for d in os.listdir(CACHE) if os.path.isdir(os.path.join(CACHE, d))]
    except OSError:
        return
    ents = [e for e in ents if os.path.basename(e) != keep]
    ents.sort(key=os.path.getmtime, reverse=True)
    now = time.time()
    for e in ents[6:]:
        try:
            if now - os.path.getmtime(e) > 1800:  # never remove a directory a concurrent run may be using
                shutil.rmtree(e, ignore_errors=True)
        except OSError:
            pass


def extract(repo, unit_path, config, roots, thash, defs):
    """Run osmfacts on one translation unit; returns the path of the JSON fact file (cached)."""
    std, extra = CONFIGS[config]
    with open(unit_path, 'rb') as f:
        uh = hashlib.sha256(f.read()).hexdigest()[:12]
    flags = [std] + defs + extra + ['-I' + os.path.join(repo, 'include'), '-I' + os.path.join(repo, 'test', 'include'),
                                    '-isystem', os.path.join(repo, 'test', 'catch'),
                                    '-resource-dir', RESOURCE_DIR, '-w', '-pthread']
    fh = hashlib.sha256((' '.join(flags) + '|' + '|'.join(roots)).encode()).hexdigest()[:8]
    cdir = os.path.join(CACHE, thash[:24])
    os.makedirs(cdir, exist_ok=True)
    name = os.path.basename(unit_path).replace('.cpp', '')
    out = os.path.join(cdir, '%s.%s.%s.%s.json' % (name, config, uh, fh))
    if os.path.exists(out):
        return out
    lock = open(out + '.lock', 'w')
    fcntl.flock(lock, fcntl.LOCK_EX)
    try:
        if os.path.exists(out):
            return out
        cmd = [TOOL_BIN, '--out', out + '.tmp']
        for r in roots:
            cmd += ['--root', r]
        cmd += [unit_path, '--'] + flags
        r = subprocess.run(cmd, stdout=subprocess.PIPE, stderr=subprocess.STDOUT, text=True)
        if r.returncode != 0 or not os.path.exists(out + '.tmp'):
            raise AnalysisBroken('osmfacts failed on %s (%s): %s' % (unit_path, config, r.stdout[-3000:]))
        os.replace(out + '.tmp', out)
    finally:
        fcntl.flock(lock, fcntl.LOCK_UN)
        lock.close()
        try:
            os.unlink(out + '.lock')
        except OSError:
            pass
    return out


class Instance:
    __slots__ = ('rule', 'key', 'site', 'ok', 'msg', 'detail', 'count')

    def __init__(self, rule, key, site):
        self.rule, self.key, self.site = rule, key, site
        self.ok = True
        self.msg = None
        self.detail = None
        self.count = 0


class Reporter:
    def __init__(self, prop):
        self.prop = prop
        self.instances = {}
        self.evaluations = 0
        self.floors = {}
        self.broken_msgs = []
        self.notes = []

    def _inst(self, rule, key, site):
        k = (rule, key)
        i = self.instances.get(k)
        if i is None:
            i = Instance(rule, key, site)
            self.instances[k] = i
        i.count += 1
        self.evaluations += 1
        return i

    def ok(self, rule, key, site, detail=None):
        i = self._inst(rule, key, site)
        if i.detail is None:
            i.detail = detail

    def bad(self, rule, key, site, msg, detail=None):
        i = self._inst(rule, key, site)
        if i.ok:
            i.ok = False
            i.msg = msg
            i.site = site
            i.detail = detail

    def check(self, cond, rule, key, site, msg, detail=None):
        if cond:
            self.ok(rule, key, site, detail)
        else:
            self.bad(rule, key, site, msg, detail)
        return cond

    def expect(self, rule, minimum):
        """At least `minimum` distinct instances of `rule` must be found, else analysis-broken."""
        self.floors[rule] = max(self.floors.get(rule, 0), minimum)

    def broken(self, msg):
        self.broken_msgs.append(msg)

    def note(self, msg):
        self.notes.append(msg)

    def count(self, rule):
        return sum(1 for (r, _k) in self.instances if r == rule)


class Ctx:
    def __init__(self, prop, tier, repo, seed=0):
        self.prop = prop
        self.tier = tier
        self.repo = os.path.abspath(repo)
        self.seed = seed
        self.R = Reporter(prop)
        self.defs = repo_defs(self.repo)
        self._thash = None
        self._fb = {}
        self.units_used = []
        self.configs_used = set()
        self.t0 = time.time()

    @property
    def include(self):
        return os.path.join(self.repo, 'include', 'osmium')

    def thash(self):
        if self._thash is None:
            self._thash = tree_hash(self.repo, [TOOL_SRC])
        return self._thash

    def facts(self, drivers, config='ndebug14'):
        """Merged fact base of the named drivers (files in /verif/drivers) in one configuration."""
        key = (tuple(drivers), config)
        if key in self._fb:
            return self._fb[key]
        build_tool()
        th = self.thash()
        roots = [os.path.join(self.repo, 'include', 'osmium')]
        paths = [os.path.join(VERIF, 'drivers', d + '.cpp') for d in drivers]
        with ThreadPoolExecutor(max_workers=min(16, len(paths))) as ex:
            outs = list(ex.map(lambda p: extract(self.repo, p, config, roots, th, self.defs), paths))
        fb = FactBase()
        for o in outs:
            fb.load(o)
        self._fb[key] = fb
        for p in paths:
            if (p, config) not in self.units_used:
                self.units_used.append((p, config))
        self.configs_used.add(config)
        _prune_cache(th[:24])
        return fb

    def facts_of_units(self, unit_paths, config='ndebug14', roots=None):
        build_tool()
        th = self.thash()
        roots = roots or [os.path.join(self.repo, 'include', 'osmium')]
        with ThreadPoolExecutor(max_workers=16) as ex:
            outs = list(ex.map(lambda p: extract(self.repo, p, config, roots, th, self.defs), unit_paths))
        fb = FactBase()
        for o in outs:
            fb.load(o)
        for p in unit_paths:
            self.units_used.append((p, config))
        self.configs_used.add(config)
        return fb

    def build_units(self, subdirs=None):
        """Translation units of the repository's own build (tests and examples from compile_commands.json)."""
        db = os.path.join(self.repo, '_build', 'compile_commands.json')
        try:
            with open(db) as f:
                entries = json.load(f)
        except (OSError, ValueError):
            return []
        out = []
        for e in entries:
            p = e['file']
            if not os.path.exists(p) or p.endswith('test_main.cpp'):
                continue
            if subdirs and not any(('/' + s + '/') in p for s in subdirs):
                continue
            out.append(p)
        return sorted(set(out))

    def each_unit_facts(self, unit_paths, config='ndebug14', batch=16):
        """Yield (unit path, FactBase) one at a time (extraction parallel in batches, load sequential to bound memory)."""
        build_tool()
        th = self.thash()
        roots = [os.path.join(self.repo, 'include', 'osmium')]
        for i in range(0, len(unit_paths), batch):
            chunk = unit_paths[i:i + batch]
            with ThreadPoolExecutor(max_workers=16) as ex:
                outs = list(ex.map(lambda p: self._try_extract(p, config, roots, th), chunk))
            for p, o in zip(chunk, outs):
                if o is None:
                    continue
                self.units_used.append((p, config))
                yield p, FactBase(o)

    def _try_extract(self, p, config, roots, th):
        try:
            return extract(self.repo, p, config, roots, th, self.defs)
        except AnalysisBroken:
            return None  # a unit of the repository's build that does not parse with clang is skipped (noted by count)

    def selftest_facts(self, name, config='ndebug14'):
        """Fact base of a positive example TU under /verif/selftest/positive (never part of /repo)."""
        build_tool()
        p = os.path.join(VERIF, 'selftest', 'positive', name)
        th = self.thash()
        out = extract(self.repo, p, config, [os.path.join(VERIF, 'selftest', 'positive')], th, self.defs)
        return FactBase(out)

    def read_source(self, relpath):
        with open(os.path.join(self.repo, relpath), errors='replace') as f:
            return f.read()


def load_known_findings():
    """known_findings.txt: 'finding: property=<id> rule=<rule> key=<key> :: text' and 'fixed: ...' lines."""
    out = []
    p = os.path.join(VERIF, 'known_findings.txt')
    if not os.path.exists(p):
        return out
    with open(p) as f:
        for line in f:
            line = line.strip()
            if not line.startswith('finding:'):
                continue
            body, _, text = line[len('finding:'):].partition(' :: ')
            m = re.match(r'\s*property=(\S+)\s+rule=(\S+)\s+key=(.*?)\s*$', body)   # the key may contain blanks (parameter lists)
            if not m:
                continue
            out.append({'property': m.group(1), 'rule': m.group(2), 'key': m.group(3), 'text': text.strip()})
    return out


def run_selftest(prop):
    """Run selftest/run.py for one property (each mutant on a scratch copy, quick tier) and summarise."""
    import tempfile
    out = tempfile.NamedTemporaryFile(prefix='verif-selftest-', suffix='.json', dir='/var/tmp', delete=False)
    out.close()
    try:
        env = dict(os.environ, VERIF_NO_SELFTEST='1')
        env.pop('VERIF_EVIDENCE_DIR', None)
        r = subprocess.run([sys.executable, os.path.join(VERIF, 'selftest', 'run.py'), prop, '-j', '8', '--json', out.name],
                           stdout=subprocess.PIPE, stderr=subprocess.STDOUT, text=True, env=env, cwd=VERIF, timeout=3000)
        with open(out.name) as f:
            res = json.load(f)
        return {'mutants': len(res), 'fired': sum(1 for x in res if x['status'] == 'fired'),
                'skipped': [x['id'] for x in res if x['status'] == 'skipped'],
                'not_as_expected': [{'id': x['id'], 'status': x['status']} for x in res if x['status'] not in ('fired', 'skipped')],
                'rules_exercised': sorted({x['rule'] for x in res if x['status'] == 'fired'})}
    except Exception as e:  # noqa: BLE001 - self-validation must never change the verdict
        return {'error': str(e)[:300]}
    finally:
        try:
            os.unlink(out.name)
        except OSError:
            pass


def run_check(prop, tier, repo, seed=0, replay=None):
    t0 = time.time()
    ctx = Ctx(prop, tier, repo, seed)
    R = ctx.R
    mod = importlib.import_module('osmlint.rules.' + prop.lower())
    code = 0
    try:
        mod.run(ctx)
        # positive self-tests: each listed rule must fire on its positive example
        for (rule, unit, fnc) in getattr(mod, 'SELFTESTS', []):
            sub = Reporter(prop)
            try:
                fb = ctx.selftest_facts(unit)
                fnc(fb, sub)
            except AnalysisBroken as e:
                R.broken('selftest %s: %s' % (rule, e))
                continue
            fired = [i for i in sub.instances.values() if not i.ok and i.rule == rule]
            if not fired:
                R.broken('selftest: rule %s did not fire on its positive example %s' % (rule, unit))
            else:
                R.note('selftest: rule %s fired on positive example %s (%d reports)' % (rule, unit, len(fired)))
        for rule, minimum in R.floors.items():
            n = R.count(rule)
            if n < minimum:
                R.broken('rule %s matched %d instances, fewer than the %d confirmed by hand' % (rule, n, minimum))
    except AnalysisBroken as e:
        R.broken(str(e))

    known = [k for k in load_known_findings() if k['property'] == prop]
    violations = []
    known_hit = []
    for i in R.instances.values():
        if i.ok:
            continue
        k = next((k for k in known if k['rule'] == i.rule and k['key'] == i.key), None)
        if k is not None:
            known_hit.append((i, k))
        else:
            violations.append(i)
    if replay:
        try:
            with open(replay) as f:
                want = json.load(f)
            violations = [i for i in violations if i.rule == want.get('rule') and i.key == want.get('key')]
        except (OSError, ValueError):
            pass

    lines = []
    for i, k in known_hit:
        lines.append('KNOWN-FINDING: property=%s %s %s %s' % (prop, i.rule, i.key, k['text'] or i.msg))
    if R.broken_msgs:
        code = 2
        for m in R.broken_msgs:
            lines.append('ANALYSIS-BROKEN: property=%s %s' % (prop, m))
    os.makedirs(os.path.join(EVIDENCE_DIR, 'replay'), exist_ok=True)
    if violations:
        code = 1  # a concrete violation outranks analysis-broken (floors missed because a construct was removed)
    for i in violations:
        lines.append('%s: [%s/%s] %s: %s' % (i.site, prop, i.rule, i.key, i.msg))
        if code == 1:
            hid = hashlib.sha256((i.rule + '|' + i.key).encode()).hexdigest()[:10]
            rp = os.path.join(EVIDENCE_DIR, 'replay', '%s-%s-%s.json' % (prop, i.rule.replace('/', '_'), hid))
            with open(rp, 'w') as f:
                json.dump({'property': prop, 'rule': i.rule, 'key': i.key, 'site': i.site, 'msg': i.msg, 'detail': i.detail,
                           'repo': ctx.repo, 'replay_cmd': './check %s --replay %s' % (prop, rp)}, f, indent=1, default=str)
            lines.append('VIOLATION property=%s replay=%s' % (prop, rp))
    print('\n'.join(lines)) if lines else None

    # thorough tier: self-validation with the seeded edits of selftest/mutants (recorded, never part of the verdict)
    selftest = None
    if tier == 'thorough' and not replay and os.environ.get('VERIF_NO_SELFTEST') != '1' and os.path.abspath(repo) == '/repo':
        selftest = run_selftest(prop)

    # evidence
    insts = list(R.instances.values())
    by_rule = {}
    for i in insts:
        by_rule.setdefault(i.rule, []).append(i)
    samples = []
    for rule, lst in sorted(by_rule.items()):
        for i in lst[:3]:
            samples.append({'rule': rule, 'instance': i.key, 'site': i.site, 'verdict': 'ok' if i.ok else 'violated',
                            'detail': i.detail if i.ok else i.msg})
    for i in insts:
        if not i.ok:
            samples.append({'rule': i.rule, 'instance': i.key, 'site': i.site, 'verdict': 'violated', 'detail': i.msg})
    ev = {
        'property_id': prop,
        'tier': tier,
        'seed': seed,
        'level': 'other',
        'coverage': {
            'explanation': getattr(mod, 'EXPLANATION', ''),
            'evaluations': R.evaluations,
            'distinct_nontrivial': len(insts),
            'rule': 'one evaluation = one rule applied to one construct of one function body (template instantiations '
                    'counted separately); distinct = distinct (rule, qualified construct key); every instance names a '
                    'call site / path / table row of the current /repo tree, none is trivial by construction',
            'obligations': len(insts),
            'discharged': sum(1 for i in insts if i.ok),
            'instances_per_rule': {r: len(v) for r, v in sorted(by_rule.items())},
            'instance_floors': R.floors,
            'samples': samples[:60],
            'checker_cmd': './check %s --tier %s' % (prop, tier),
            'trusted_base': ['clang 14 front end, template instantiation and CFG builder', 'driver TUs in /verif/drivers (instantiation set)',
                             'frozen convention tables in osmlint/rules/%s.py' % prop.lower()],
            'units': [os.path.relpath(p, VERIF) if p.startswith(VERIF) else p for (p, _c) in ctx.units_used],
            'configs': sorted(ctx.configs_used),
            'functions_analysed': sum(len(fb.functions) for fb in ctx._fb.values()),
            'repo': ctx.repo,
            'repo_tree_sha256': ctx.thash() if ctx._thash else None,
            'known_findings_present': [{'rule': i.rule, 'key': i.key} for i, _k in known_hit],
            'notes': R.notes,
            'selftest_mutants': selftest,
            'analysis_broken': R.broken_msgs,
            'exhaustive': False,
        },
        'assumptions': getattr(mod, 'ASSUMPTIONS', []),
        'wall_s': round(time.time() - t0, 2),
        'violations': len(violations),
    }
    with open(os.path.join(EVIDENCE_DIR, prop + '.json'), 'w') as f:
        json.dump(ev, f, indent=1, default=str)
    summary = '%s %s: %d instances over %d rules, %d evaluations, %d violations, %d known findings, %.1fs -> exit %d' % (
        prop, tier, len(insts), len(by_rule), R.evaluations, len(violations), len(known_hit), time.time() - t0, code)
    print(summary)
    return code
